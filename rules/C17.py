"""C17 Observations load independent of row order with aligned columns and
units."""
import ast

from sa.helpers import unalloc
from sa.helpers import (the_return, mkflow, spec, code, one, calls, bind_call, param_env,
                        fmt, atom_of, unparse, walk_no_nested)
from sa.index import AnalysisError
from sa.algebra import RF, Slice

FLOOR = 14
AR = 'taurex/data/spectrum/array.py'
SP = 'taurex/data/spectrum/spectrum.py'
TX = 'taurex/data/spectrum/taurex.py'
UU = 'taurex/util/util.py'
UH = 'taurex/util/hdf5.py'
FILES = [AR, SP, TX, UU, UH, 'taurex/binning/fluxbinner.py']
EXPLANATION = (
    'Static rule conformance for observation loading: the raw table is '
    're-ordered by whole rows with the argsort of the wavelength column '
    '(descending), before anything is derived from it; every accessor reads its '
    'own column of the sorted table; wavenumber = 10000/wavelength and the '
    'first-order width conversion 10000 w / x^2; 4-column edges are centre -/+ '
    'width/2 interleaved, 3-column edges come from mid-points; the binner is '
    'built from (wavenumber grid, wavenumber widths); HDF5 sources assemble the '
    'same four columns.')
ASSUMPTIONS = ['numpy fancy indexing with an argsort permutes whole rows', 'at least two distinct wavelengths']
NOT_DECIDED = ['numerical consistency of edges with centres and widths']

A = AR + '::ArraySpectrum'


def ret(ix, site):
    f = ix.func(site)
    fl = mkflow(ix, site)
    r = the_return(fl)
    return f, fl, r


def run(ix, R):
    _run(ix, R)
    from rules.common import memo_obligation
    memo_obligation(ix, R, 'M.memo', ['taurex/data/spectrum/'], 'the observation classes')


def _run(ix, R):
    # ---- 1. row sort
    site = A + '._sort_spectrum'
    with R.guard('1.sort', 'PERM', site, 'row sort'):
        f = ix.func(site)
        fl = mkflow(ix, site)
        s = one(fl.of('store'), 'store')
        T = code(fl, 'self._obs_spectrum')
        want = spec(fl, 'T[argsort(T[:, 0], axis=0)[::-1]]', {'T': T})
        alt = spec(fl, 'T[argsort(T[:, 0])[::-1]]', {'T': T})
        R.check('1.sort', 'PERM', site,
                'whole rows are permuted by the argsort of the wavelength column, descending (ascending wavenumber)',
                fmt(fl, s.target) == 'self._obs_spectrum' and (fl.tab.equal(s.value, want) or fl.tab.equal(s.value, alt)),
                key=fmt(fl, s.value), detail='table becomes %s' % fmt(fl, s.value), loc=f.loc(s.node))
        cond = [g.text() for g in s.guards] + [unparse(l.iter_ast) for l in s.loops]
        early = [unparse(r.node) for r in fl.of('return') if fl.events.index(r) < fl.events.index(s)]
        R.check('1.sort.always', 'PERM', site,
                'the row sort is unconditional (no shortcut decides from a few rows that the table is already ordered)',
                not cond and not early, key='sort under %s' % (cond or early),
                detail='the sort only runs when %s; a table that passes the shortcut but is not fully ordered keeps file order' % (
                    cond or early), loc=f.loc(s.node))
    site = A + '.__init__'
    with R.guard('1.order', 'DOM', site, 'sort first'):
        f = ix.func(site)
        fl = mkflow(ix, site)
        pe = param_env(fl, f, ['S'])
        so = one(calls(fl, '_sort_spectrum'), '_sort_spectrum call')
        pr = one(calls(fl, '_process_spectrum'), '_process_spectrum call')
        st = {fmt(fl, e.target): e for e in fl.of('store')}
        why = []
        if 'self._obs_spectrum' not in st or not fl.tab.equal(st['self._obs_spectrum'].value, pe['S']):
            why.append('raw table stored as %s' % fmt(fl, st['self._obs_spectrum'].value if 'self._obs_spectrum' in st else None))
        if not (fl.events.index(st['self._obs_spectrum']) < fl.events.index(so) < fl.events.index(pr)):
            why.append('sort does not run between storing the table and deriving widths/edges')
        if so.guards or pr.guards:
            why.append('conditional sort')
        w = st.get('self._wnwidths')
        if w is None or not fl.tab.equal(w.value, spec(fl, 'wnwidth_to_wlwidth(self.wavelengthGrid, self._bin_widths)')) \
                or fl.events.index(w) < fl.events.index(pr):
            why.append('wavenumber widths = %s' % (fmt(fl, w.value) if w else None))
        # nothing read from the object before the sort / the derivation is used after them: a local bound to
        # self.<property> keeps the value of the table in file order
        for a_ in fl.of('assign'):
            if not (isinstance(a_.node, ast.Assign) and any(
                    isinstance(x, ast.Attribute) and isinstance(x.value, ast.Name) and x.value.id == 'self'
                    for x in ast.walk(a_.node.value))):
                continue
            later = [c for c in (so, pr) if fl.events.index(c) > fl.events.index(a_)]
            if not later:
                continue
            last = max(fl.events.index(c) for c in later)
            used = [n for n in ast.walk(f.node) if isinstance(n, ast.Name) and n.id == a_.name and isinstance(n.ctx, ast.Load)
                    and n.lineno > later[-1].node.lineno]
            if used:
                why.append('%s = %s is read before %s() and used after it (line %d): it still holds the table in file order' % (
                    a_.name, unparse(a_.node.value)[:50], later[-1].name, used[0].lineno))
        R.check('1.order', 'DOM', site,
                'constructor: store table, sort rows, derive widths/edges, then convert widths to wavenumber at the bin centre',
                not why, key='; '.join(why), detail='; '.join(why), loc=f.loc())
    cols = {'spectrum': 1, 'wavelengthGrid': 0, 'errorBar': 2}
    for nm, k in cols.items():
        site = A + '.' + nm
        with R.guard('1.col', 'PERM', site, 'column'):
            f, fl, r = ret(ix, site)
            want = spec(fl, 'self._obs_spectrum[:, %d]' % k)
            R.check('1.col', 'PERM', site, '%s reads column %d of the sorted table' % (nm, k),
                    fl.tab.equal(r.value, want), key=fmt(fl, r.value), detail=fmt(fl, r.value), loc=f.loc(r.node))
    site = A + '.rawData'
    with R.guard('1.raw', 'PERM', site, 'rawData'):
        f, fl, r = ret(ix, site)
        R.check('1.raw', 'PERM', site, 'rawData is the sorted table', fmt(fl, r.value) == 'self._obs_spectrum',
                key=fmt(fl, r.value), detail=fmt(fl, r.value), loc=f.loc(r.node))
    # who may write the derived state: only ArraySpectrum itself
    base = ix.cls(A)
    owned = {'_obs_spectrum', '_bin_widths', '_bin_edges', '_wnwidths'}
    for c in ix.subclasses(base):
        for lst in c.methods.values():
            for fn in lst:
                bad = []
                for n in ast.walk(fn.node):
                    if isinstance(n, (ast.Assign, ast.AugAssign)):
                        tg = n.targets if isinstance(n, ast.Assign) else [n.target]
                        for t in tg:
                            for x in ast.walk(t):
                                if isinstance(x, ast.Attribute) and x.attr in owned and \
                                        isinstance(x.value, ast.Name) and x.value.id == 'self':
                                    bad.append(unparse(n)[:70])
                allowed = c is base and fn.name in ('__init__', '_sort_spectrum', '_process_spectrum', 'manual_binning')
                if bad and not allowed:
                    R.fail('1.owner', 'EFF', fn.site,
                           'the sorted table and the widths / edges derived from it are written only by ArraySpectrum\'s '
                           'own constructor pipeline', 'writes %s' % sorted(set(bad)),
                           '%s overwrites state that ArraySpectrum derives from the sorted rows (%s): the value written is '
                           'not re-ordered with the rows' % (fn.qualname, sorted(set(bad))), fn.loc())
    R.ok('1.owner.scan', 'EFF', A, 'every ArraySpectrum subclass method was scanned for writes to the derived state (%d classes)' % len(ix.subclasses(base)))
    # ---- 2. formulas
    for site, want, stmt in ((A + '.wavenumberGrid', '10000/self.wavelengthGrid', 'wavenumber = 10000/wavelength'),
                             (SP + '::BaseSpectrum.wavenumberGrid', '10000/self.wavelengthGrid', 'wavenumber = 10000/wavelength'),
                             (A + '.binEdges', '10000/self._bin_edges', 'wavenumber edges = 10000/wavelength edges'),
                             (A + '.binWidths', 'self._wnwidths', 'binWidths = the converted wavenumber widths')):
        with R.guard('2.conv', 'ALG', site, stmt):
            f, fl, r = ret(ix, site)
            R.check('2.conv', 'ALG', site, stmt, fl.tab.equal(r.value, spec(fl, want)), key=fmt(fl, r.value),
                    detail=fmt(fl, r.value), loc=f.loc(r.node))
    site = UU + '::wnwidth_to_wlwidth'
    with R.guard('2.width', 'ALG', site, 'width conversion'):
        f, fl, r = ret(ix, site)
        pe = param_env(fl, f, ['x', 'w'])
        R.check('2.width', 'ALG', site, 'first-order width conversion = 10000 * width / centre^2 (same in both directions)',
                fl.tab.equal(r.value, spec(fl, '10000*w/x**2', pe)), key=fmt(fl, r.value), detail=fmt(fl, r.value),
                loc=f.loc(r.node))
    site = A + '._process_spectrum'
    with R.guard('2.edges', 'ALG', site, 'edges'):
        f = ix.func(site)
        fl = mkflow(ix, site)
        four = spec(fl, 'self.rawData.shape[1] == 4')

        def in4(e):
            return any(x.rf is not None and fl.tab.equal(x.rf, four) and x.positive for x in e.guards) and \
                not [x for x in e.guards if not (x.rf is not None and fl.tab.equal(x.rf, four))]
        sts = fl.of('store')
        why = []
        bw = [e for e in sts if fmt(fl, e.target) == 'self._bin_widths']
        if len(bw) != 1 or not in4(bw[0]) or not fl.tab.equal(bw[0].value, spec(fl, 'self._obs_spectrum[:, 3]')):
            why.append('widths = %s under %s' % ([fmt(fl, e.value) for e in bw], [[x.text() for x in e.guards] for e in bw]))
        # the interleaved edge array: stores at [0::2] and [1::2] of one buffer, which then becomes self._bin_edges
        even = odd = None
        for e in sts:
            ta = atom_of(fl, e.target)
            if ta is not None and ta.head == 'idx' and len(ta.args) == 2 and isinstance(ta.args[1], Slice) and \
                    ta.args[1].step is not None and ta.args[1].step.const() == 2 and ta.args[1].hi is None:
                lo = ta.args[1].lo.const() if ta.args[1].lo is not None else 0
                if lo == 0:
                    even = (e, ta.args[0])
                elif lo == 1:
                    odd = (e, ta.args[0])
        fe = [e for e in sts if fmt(fl, e.target) == 'self._bin_edges']
        if even is None or odd is None or len(fe) != 1:
            raise AnalysisError('the interleaved edge array (stores at [0::2] and [1::2], then self._bin_edges) is not found')
        buf = even[1]
        ascending = descending = False
        # the widths are the attribute just stored, or the value that was stored in it (read once into a local)
        for bw_ in [code(fl, 'self._bin_widths')] + [e.value for e in bw[:1]]:
            b = {'wl': code(fl, 'self.wavelengthGrid'), 'bw': bw_, 'buf': buf}
            ascending = ascending or (fl.tab.equal(even[0].value, spec(fl, 'wl[::-1] - bw[::-1]/2', b)) and
                                      fl.tab.equal(odd[0].value, spec(fl, 'wl[::-1] + bw[::-1]/2', b)) and
                                      fl.tab.equal(fe[0].value, spec(fl, 'buf[::-1]', b)))
            descending = descending or (fl.tab.equal(even[0].value, spec(fl, 'wl + bw/2', b)) and
                                        fl.tab.equal(odd[0].value, spec(fl, 'wl - bw/2', b)) and fl.tab.equal(fe[0].value, buf))
        if not fl.tab.equal(odd[1], buf):
            why.append('the two halves are written to different arrays')
        if not (ascending or descending):
            why.append('bin_edges[0::2] = %s; bin_edges[1::2] = %s; self._bin_edges = %s' % (
                fmt(fl, even[0].value), fmt(fl, odd[0].value), fmt(fl, fe[0].value)))
        for e in (even[0], odd[0], fe[0]):
            if not in4(e) or e.loops:
                why.append('%s runs under %s' % (unparse(e.node)[:40], [x.text() for x in e.guards]))
        za = atom_of(fl, unalloc(fl, buf))
        if za is None or za.head != 'call' or za.extra[0] not in ('fn:zeros', 'fn:empty'):     # both halves are written
            why.append('edge array is %s' % fmt(fl, buf))
        mb = [e for e in calls(fl, 'manual_binning')]
        if len(mb) != 1 or not any(x.rf is not None and fl.tab.equal(x.rf, four) and not x.positive for x in mb[0].guards):
            why.append('3-column branch')
        R.check('2.edges', 'ALG', site,
                '4 columns: widths = column 3, edges = centre -/+ width/2 interleaved (on the ascending grid then reversed, '
                'or directly in descending order); otherwise mid-point edges',
                not why, key='; '.join(why), detail='; '.join(why), loc=f.loc())
    site = A + '.manual_binning'
    with R.guard('2.manual', 'ALG', site, 'manual'):
        f = ix.func(site)
        fl = mkflow(ix, site)
        st = {fmt(fl, e.target): e.value for e in fl.of('store')}
        c = spec(fl, 'compute_bin_edges(self.wavelengthGrid)')
        ok = fl.tab.equal(st.get('self._bin_edges'), fl.tab.atom('idx', (c, fl.tab.const(0)))) and \
            fl.tab.equal(st.get('self._bin_widths'), fl.tab.atom('idx', (c, fl.tab.const(1))))
        R.check('2.manual', 'ALG', site, '3 columns: (edges, widths) = compute_bin_edges(wavelength grid)', ok,
                key=str({k: fmt(fl, v) for k, v in st.items()}), detail=str({k: fmt(fl, v) for k, v in st.items()}), loc=f.loc())
    # ---- 3. binner
    site = SP + '::BaseSpectrum.create_binner'
    with R.guard('3.binner', 'ARG', site, 'binner'):
        f, fl, r = ret(ix, site)
        want = spec(fl, 'FluxBinner(wngrid=self.wavenumberGrid, wngrid_width=self.binWidths)')
        tgt = None
        for n in ast.walk(f.node):
            if isinstance(n, ast.ImportFrom):
                tgt = (n.module, [a.name for a in n.names])
        R.check('3.binner', 'ARG', site, 'binner = FluxBinner(wavenumber centres, wavenumber widths) of this observation',
                fl.tab.equal(r.value, want) and tgt == ('taurex.binning', ['FluxBinner']),
                key=fmt(fl, r.value), detail=fmt(fl, r.value), loc=f.loc(r.node))
    from rules.C05 import flux_init
    flux_init(ix, R)
    # HDF5 sources
    for site, names in ((TX + '::TaurexSpectrum._load_from_hdf5', ('wngrid', 'spectrum', 'noise', 'wnwidth')),
                        (UH + '::taurex_hdf5_to_observation', ('inst_wngrid', 'inst_spectrum', 'inst_noise', 'inst_width'))):
        with R.guard('3.hdf5', 'SIB', site, 'hdf5 columns'):
            f = ix.func(site)
            fl = mkflow(ix, site)
            vs = [e for e in calls(fl, 'vstack')]
            v = one(vs, 'vstack')
            # the four datasets are identified by the key they are read with, not by the local they land in
            env = {}
            for e in fl.of('assign'):
                if isinstance(e.value, RF):
                    t_ = fmt(fl, e.value)
                    for k_ in ('instrument_wngrid', 'instrument_spectrum', 'instrument_noise', 'instrument_wnwidth'):
                        if "'%s'" % k_ in t_ and not any("'%s'" % o in t_ for o in (
                                'instrument_wngrid', 'instrument_spectrum', 'instrument_noise', 'instrument_wnwidth') if o != k_):
                            env.setdefault(k_, e.value)
            wn, sp_, no, ww = [env.get(n) for n in ('instrument_wngrid', 'instrument_spectrum', 'instrument_noise',
                                                    'instrument_wnwidth')]
            if None in (wn, sp_, no, ww):
                raise AnalysisError('columns not found')
            want = fl.tab.atom('tuple', (10000 / wn, sp_, no, spec(fl, 'wnwidth_to_wlwidth(a, b)', {'a': wn, 'b': ww})))
            keys = [fmt(fl, x) for x in (wn, sp_, no, ww)]
            okk = all(k_ in keys[i] for i, k_ in enumerate(("'instrument_wngrid'", "'instrument_spectrum'",
                                                             "'instrument_noise'", "'instrument_wnwidth'")))
            # the stacked columns are used transposed (rows = spectral points), wherever the stacking statement lives
            stacked = fl.tab.atom('call', tuple(v.args), extra=('fn:vstack',))
            tr = fl.tab.atom('getattr', (stacked, 'T'))
            cands = [e.value for e in fl.of('return') + fl.of('assign') if isinstance(getattr(e, 'value', None), RF)] + \
                [a_ for e in fl.of('call') for a_ in e.args if isinstance(a_, RF)]
            transposed = any(fl.tab.equal(x, tr) for x in cands) and not any(fl.tab.equal(x, stacked) for x in cands
                                                                             if x is not v.args[0])
            R.check('3.hdf5', 'SIB', site,
                    'columns = (10000/wngrid, spectrum, noise, width converted at wngrid), stacked and transposed to rows',
                    fl.tab.equal(v.args[0], want) and okk and transposed, key=fmt(fl, v.args[0])[:200],
                    detail='stack of %s' % fmt(fl, v.args[0]), loc=f.loc(v.node))


MUTANTS = [
    ('seed-c17-a-shortcut', AR, "    def _sort_spectrum(self):\n        self._obs_spectrum =", "    def _sort_spectrum(self):\n        if self._obs_spectrum[0, 0] > self._obs_spectrum[-1, 0]:\n            return\n        self._obs_spectrum =", '1.sort.always'),
    ('seed-c17-b-overwrite', TX, "        super().__init__(self._load_from_hdf5(filename))", "        super().__init__(self._load_from_hdf5(filename))\n        self._wnwidths = self._bin_widths", '1.owner'),
    ('sort-col-only', AR, 'self._obs_spectrum = self._obs_spectrum[self._obs_spectrum[:, 0].argsort(axis=0)[::-1]]', 'self._obs_spectrum[:, 0] = self._obs_spectrum[self._obs_spectrum[:, 0].argsort(axis=0)[::-1], 0]', '1.sort'),
    ('sort-ascending', AR, 'self._obs_spectrum = self._obs_spectrum[self._obs_spectrum[:, 0].argsort(axis=0)[::-1]]', 'self._obs_spectrum = self._obs_spectrum[self._obs_spectrum[:, 0].argsort(axis=0)]', '1.sort'),
    ('sort-wrong-col', AR, 'self._obs_spectrum = self._obs_spectrum[self._obs_spectrum[:, 0].argsort(axis=0)[::-1]]', 'self._obs_spectrum = self._obs_spectrum[self._obs_spectrum[:, 1].argsort(axis=0)[::-1]]', '1.sort'),
    ('sort-late', AR, "        self._sort_spectrum()\n        self._process_spectrum()", "        self._process_spectrum()\n        self._sort_spectrum()", '1.order'),
    ('error-col', AR, "        return self.rawData[:, 2]", "        return self.rawData[:, 1]", '1.col'),
    ('wn-conv', AR, "        return 10000 / self.wavelengthGrid", "        return 1000 / self.wavelengthGrid", '2.conv'),
    ('width-conv', UU, 'return 10000 * wnwidth / wngrid ** 2', 'return 10000 * wnwidth / wngrid', '2.width'),
    ('edges-sign', AR, 'bin_edges[0::2] = obs_wl - obs_bw / 2', 'bin_edges[0::2] = obs_wl + obs_bw / 2', '2.edges'),
    ('edges-full', AR, 'bin_edges[1::2] = obs_wl + obs_bw / 2', 'bin_edges[1::2] = obs_wl + obs_bw', '2.edges'),
    ('widths-col', AR, 'self._bin_widths = self._obs_spectrum[:, 3]', 'self._bin_widths = self._obs_spectrum[:, 2]', '2.edges'),
    ('binner-wl', SP, 'return FluxBinner(wngrid=self.wavenumberGrid, wngrid_width=self.binWidths)', 'return FluxBinner(wngrid=self.wavelengthGrid, wngrid_width=self.binWidths)', '3.binner'),
    ('binner-nowidth', SP, 'return FluxBinner(wngrid=self.wavenumberGrid, wngrid_width=self.binWidths)', 'return FluxBinner(wngrid=self.wavenumberGrid)', '3.binner'),
    ('wnwidths-raw', AR, 'self._wnwidths = wnwidth_to_wlwidth(self.wavelengthGrid, self._bin_widths)', 'self._wnwidths = self._bin_widths', '1.order'),
    ('hdf5-cols', TX, 'return np.vstack((wlgrid, spectrum, noise, wlwidth)).T', 'return np.vstack((wlgrid, noise, spectrum, wlwidth)).T', '3.hdf5'),
    ('hdf5-width', UH, 'inst_wlwidth = wnwidth_to_wlwidth(inst_wngrid, inst_width)', 'inst_wlwidth = inst_width', '3.hdf5'),
]
EQUIVALENTS = [
    ('wn-form', AR, "        return 10000 / self.wavelengthGrid", "        return 1.0 / (self.wavelengthGrid / 10000.0)"),
    ('width-form', UU, 'return 10000 * wnwidth / wngrid ** 2', 'return wnwidth * 10000.0 / (wngrid * wngrid)'),
]
