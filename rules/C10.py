"""C10 Atmospheric composition is a valid mixture for every input."""
import ast

from sa.helpers import (guard_is, same_cond, the_return, mkflow, spec, code, one, calls, bind_call, param_env,
                        fmt, atom_of, unparse, walk_no_nested, unalloc, call_kw)
from sa.helpers import unmut
from sa.index import AnalysisError, ClassInfo
from sa.algebra import RF, Slice
from sa.api import api_obligations

FLOOR = 20
CH = 'taurex/data/profiles/chemistry/'
TC = CH + 'taurexchemistry.py'
AC = CH + 'autochemistry.py'
UU = 'taurex/util/util.py'
FILES = [CH, UU]
EXPLANATION = (
    'Static rule conformance for the composition: the >1 validity check raises '
    'the invalid-model exception and dominates the remainder; the fill formula '
    'and its pairing of fill gases with ratios; the concatenation order of gas '
    'names and mixing profiles and the single index used for the mean molecular '
    'weight; complementary active/inactive predicates; each built-in profile '
    'formula and its per-layer length; no reference to removed library names.')
ASSUMPTIONS = ['gas profiles return arrays of one length', 'numpy interp / linspace semantics']
NOT_DECIDED = ['non-negativity, sum-to-one and bounded-by-controls as numbers',
               'smoothing border arithmetic for layer counts that are not multiples of ten (N6)']


def length(fl, rf, N, arrays):
    """Symbolic length class of an expression: 'N', 'other:<desc>', or None
    (scalar / unknown).  arrays: RFs known to have length N."""
    tab = fl.tab
    if not isinstance(rf, RF):
        return None
    for a in arrays:
        if tab.equal(rf, a):
            return 'N'
    at = atom_of(fl, rf)
    if at is None:
        res = None
        for a in rf.atoms():
            from sa.algebra import p_atom
            l = length(fl, RF(tab, p_atom(a)), N, arrays)
            if l is None:
                continue
            if res is None:
                res = l
            elif res != l:
                return 'other:mixed %s/%s' % (res, l)
        return res
    h = at.head
    if h == 'alloc':
        return length(fl, at.args[0], N, arrays)
    if h == 'call':
        fn = at.extra[0][3:]
        if fn in ('zeros', 'ones', 'empty'):
            n = call_kw(at, 'shape', 0)
            return 'N' if n is not None and tab.equal(n, N) else 'other:%s(%s)' % (fn, fmt(fl, n))
        if fn in ('zeros_like', 'ones_like'):
            return length(fl, at.args[0], N, arrays)
        if fn == 'linspace' or fn == 'logspace':
            n = call_kw(at, 'num', 2)
            return 'N' if n is not None and tab.equal(n, N) else 'other:%s(%s)' % (fn, fmt(fl, n))
        if fn == 'interp':
            return length(fl, at.args[0], N, arrays)
        if fn in ('log', 'log10', 'exp', 'abs', 'sqrt', 'power', 'movingaverage_same'):
            return length(fl, at.args[0], N, arrays)
        return None
    if h in ('log', 'log10', 'exp', 'abs', 'sqrt'):
        return length(fl, at.args[0], N, arrays)
    if h == 'pow':
        la = length(fl, at.args[0], N, arrays)
        lb = length(fl, at.args[1], N, arrays)
        return la or lb
    if h == 'idx':
        base = length(fl, at.args[0], N, arrays)
        if len(at.args) == 2 and isinstance(at.args[1], Slice):
            s = at.args[1]
            if s.lo is None and s.hi is None:
                return base
            if base == 'N':
                return 'other:slice %s' % fmt(fl, rf)
            return base
        if len(at.args) == 2 and isinstance(at.args[1], RF):
            return None  # one element
        return base
    if h == 'guard':
        a = length(fl, at.args[1], N, arrays)
        b = length(fl, at.args[2], N, arrays)
        return a if a == b else (a or b)
    return None


def run(ix, R):
    _run(ix, R)
    from rules.common import memo_obligation
    memo_obligation(ix, R, 'M.memo', ['taurex/data/profiles/chemistry/', 'taurex/cache/opacitycache.py'], 'the chemistry and gas profiles and the molecule discovery they use')


def _run(ix, R):
    # ---- 1. validity check dominates the fill
    site = TC + '::TaurexChemistry.initialize_chemistry'
    with R.guard('1.valid', 'DOM', site, 'validity'):
        f = ix.func(site)
        fl = mkflow(ix, site)
        pe = param_env(fl, f, ['N', 'T', 'P', 'z'])
        rs = fl.of('raise')
        if not rs:
            R.fail('1.valid', 'DOM', site,
                   'any(total trace mix > 1) raises InvalidChemistryException before the remainder 1 - total is split',
                   'no raise', 'initialize_chemistry never raises: a total above one yields a negative fill', f.loc())
            raise AnalysisError('validity check removed; remaining obligations of this function not evaluated')
        r = one(rs, 'raise')
        exc = unparse(r.exc_ast.func if isinstance(r.exc_ast, ast.Call) else r.exc_ast)
        cls = ix.resolve_name(f.module, exc)
        base = ix.cls('taurex/exceptions.py::InvalidModelException')
        why = []
        if not isinstance(cls, ClassInfo) or not ix.is_subclass(cls, base):
            why.append('raises %s which is not an InvalidModelException' % exc)
        g = r.guards[-1] if r.guards else None
        fa = one(calls(fl, 'fill_atmosphere'), 'fill_atmosphere call')
        rem = fa.args[0]
        # remainder = 1 - total (+ zeros(N) for broadcasting)
        total = None
        for cand in [a for a in rem.all_atoms()]:
            pass
        ga = atom_of(fl, g.rf) if g is not None else None
        if ga is None or ga.head != 'call' or ga.extra[0] != 'fn:any':
            why.append('guard is %s' % (g.text() if g else None))
        else:
            ca = atom_of(fl, ga.args[0])
            # canonical comparison spelling is `1 < total`
            if ca is None or ca.head != 'cmp' or ca.extra[0] not in ('Lt', 'LtE') or \
                    ca.args[0].const() != 1:
                why.append('guard compares %s' % fmt(fl, ga.args[0]))
            else:
                total = ca.args[1]
                okrem = fl.tab.equal(rem, 1 - total + spec(fl, 'zeros(shape=N)', pe)) or \
                    fl.tab.equal(rem, 1 - total)
                if not okrem:
                    why.append('remainder is %s, not 1 - (the total that was checked)' % fmt(fl, rem))
        if not (fl.events.index(r) < fl.events.index(fa)) or not any(
                gg.early and not gg.positive and g is not None and gg.node is g.node
                for gg in tuple(fa.guards) + tuple(getattr(fa, 'validated', ()))):
            why.append('the fill is not dominated by the check')
        R.check('1.valid', 'DOM', site,
                'any(total trace mix > 1) raises InvalidChemistryException before the remainder 1 - total is split',
                not why, key='; '.join(why), detail='; '.join(why), loc=f.loc(r.node))
        # total is the sum of the gases' mixProfile, one per gas, in gas order
        apps = one([e for e in calls(fl, 'append') if e.loops], 'append of gas profile')
        lp = apps.loops[0]
        gas = fl.tab.atom('elem', (lp.iter_rf[0], lp.index))
        ip = one([e for e in calls(fl, 'initialize_profile') if e.loops], 'initialize_profile call')
        why = []
        if not fl.tab.equal(lp.iter_rf[0], code(fl, 'self._gases')):
            why.append('loop over %s' % unparse(lp.iter_ast))
        if not fl.tab.equal(apps.args[0], fl.tab.atom('getattr', (gas, 'mixProfile'))):
            why.append('appends %s' % fmt(fl, apps.args[0]))
        if [fmt(fl, a) for a in ip.args] != [fmt(fl, pe[k]) for k in ('N', 'T', 'P', 'z')]:
            why.append('initialize_profile(%s)' % [fmt(fl, a) for a in ip.args])
        if fl.events.index(ip) > fl.events.index(apps):
            why.append('profile read before it is initialised')
        for e in (ip, apps):
            if e.guards or len(e.loops) != 1:
                why.append('%s runs conditionally (%s)' % (e.name, [g.text() for g in e.guards]))
        if ip.recv_rf is None or not fl.tab.equal(ip.recv_rf, gas):
            why.append('initialize_profile is called on %s' % (fmt(fl, ip.recv_rf) if ip.recv_rf is not None else None))
        # the checked total is the builtin sum of exactly that list
        tot_ev = [e for e in fl.of('assign') if not e.loops and not e.guards and atom_of(fl, e.value) is not None
                  and atom_of(fl, e.value).head == 'call' and atom_of(fl, e.value).extra[0] == 'fn:sum']
        # (the same value bound twice - in an extracted helper and again in the caller - is one total)
        tot_ev = [e for k_, e in enumerate(tot_ev) if not any(fl.tab.equal(e.value, o.value) for o in tot_ev[:k_])]
        if total is None or len(tot_ev) != 1 or not fl.tab.equal(tot_ev[0].value, total) or \
                apps.recv_rf is None or not fl.tab.equal(unmut(fl, atom_of(fl, tot_ev[0].value).args[0]), apps.recv_rf):
            why.append('the total that is checked is not sum(list of the appended profiles)')
        R.check('3.gasorder', 'EFF', site,
                'each gas is initialised with (nlayers, T, P, z) and its mixProfile appended in the order of self._gases',
                not why, key='; '.join(why), detail='; '.join(why), loc=f.loc(apps.node))
        # concatenation order: fill first, then gases
        # (whatever the list is called: the assignment that joins the fill-gas profiles with the trace-gas profiles)
        st = [e for e in fl.of('assign') if isinstance(e.value, RF) and isinstance(e.node, ast.Assign) and
              isinstance(e.node.value, ast.BinOp) and 'fill_atmosphere' in fmt(fl, e.value)]
        s = one(st, 'concatenation')
        fill = fl.tab.atom('call', tuple(fa.args), extra=('fn:self.fill_atmosphere',))
        va = s.value
        ok = isinstance(s.node.value, ast.BinOp) and isinstance(s.node.value.op, ast.Add) and \
            'fill_atmosphere' in unparse(s.node.value.left) and isinstance(s.node.value.right, ast.Name) and \
            s.node.value.right.id == unparse(apps.node.func.value)
        g_site = TC + '::TaurexChemistry.gases'
        gf = ix.func(g_site)
        gret = unparse(gf.body()[-1].value)
        from sa.pattern import find as _find
        ok2 = _find(gf.node, ['return self._fill_gases + [V_g.molecule for V_g in self._gases]'])[0] is not None
        R.check('3.concat', 'EFF', site,
                'mixing profiles are [fill gases..., trace gases...] and gas names are fill_gases + [g.molecule ...]: same order',
                ok and ok2, key='%s / %s' % (unparse(s.node.value), gret),
                detail='profiles: %s; names: %s' % (unparse(s.node.value), gret), loc=f.loc(s.node))
        vs = [e for e in fl.of('store') if fmt(fl, e.target) == 'self._mix_profile']
        okv = any('vstack' in fmt(fl, e.value) for e in vs)
        sup = [e for e in fl.of('call') if unparse(e.node.func) == 'super().initialize_chemistry']
        stack = [e for e in vs if 'vstack' in fmt(fl, e.value)]
        lic = lambda x: x.early and g is not None and x.node is g.node      # only the validity check may stand in the way
        from sa.helpers import pos_args
        sup_args, sup_kw = pos_args(fl, sup[0]) if len(sup) == 1 else ([], {})
        if sup_kw:
            # keyword arguments of the base-class call: by name
            if set(sup_kw) <= {'nlayers', 'temperature_profile', 'pressure_profile', 'altitude_profile'} and \
                    len(sup_args) + len(sup_kw) == 4:
                order_ = ['nlayers', 'temperature_profile', 'pressure_profile', 'altitude_profile']
                if all(k_ in sup_kw for k_ in order_[len(sup_args):]):
                    sup_args = list(sup_args) + [sup_kw[k_] for k_ in order_[len(sup_args):]]
                    sup_kw = {}
            if sup_kw:
                raise AnalysisError('the base-class call passes %s by keyword: not placed' % sorted(sup_kw))
        okv = okv and len(stack) == 1 and fl.tab.equal(atom_of(fl, stack[0].value).args[0], s.value) and \
            all(lic(x) or guard_is(fl, x, spec(fl, 'len(x) > 0', {'x': s.value}), True)
                for x in stack[0].guards) and \
            len(sup) == 1 and all(lic(x) for x in sup[0].guards) and not sup[0].loops and \
            all(lic(x) for x in s.guards) and not s.loops and \
            [fmt(fl, a) for a in sup_args] == [fmt(fl, pe[k]) for k in ('N', 'T', 'P', 'z')]
        R.check('3.store', 'EFF', site, 'the stacked profile (of the concatenated list) is stored before the base class, called '
                'unconditionally with the same arguments, computes mu from it',
                okv and sup and fl.events.index(vs[-1]) < fl.events.index(sup[0]),
                key='stores %s' % [unparse(e.node) for e in vs], detail='stores %s' % [unparse(e.node) for e in vs],
                loc=f.loc())
    # ---- 2. fill formula
    site = TC + '::TaurexChemistry.fill_atmosphere'
    with R.guard('2.fill', 'ALG', site, 'fill'):
        f = ix.func(site)
        fl = mkflow(ix, site)
        pe = param_env(fl, f, ['rem'])
        rets = fl.of('return')
        why = []
        # by scenario: what is returned when there is exactly one fill gas
        from sa.helpers import resolve_guards, has_guard
        one_gas = fl.tab.canon_cond(spec(fl, 'len(self._fill_gases) == 1'))
        many = fl.tab.canon_cond(spec(fl, 'len(self._fill_gases) > 1'))

        def decide1(c):
            cc, fc = fl.tab.canon_cond(c)
            if fl.tab.equal(cc, one_gas[0]):
                return fc == one_gas[1]
            if fl.tab.equal(cc, many[0]):
                return fc != many[1]
            return None
        v1 = resolve_guards(fl, the_return(fl).value, decide1)
        if not fl.tab.equal(unmut(fl, v1), fl.tab.atom('tuple', (pe['rem'],))):
            if has_guard(v1) or v1.mentions(lambda a: a.head in ('phi', 'mutated')):
                raise AnalysisError('what a single fill gas receives is not settled: %s' % fmt(fl, v1)[:160])
            why.append('with a single fill gas the result is %s: the general formula divides by 1 + sum(ratio) while '
                       'zip(fill_gases[1:], ratio) pairs no ratio at all, and the constructor accepts (and defaults to) '
                       'a non-empty ratio with one fill gas, so the fills no longer add up to the remainder' % fmt(fl, v1)[:120])
        # (decided on its own, before the general formula is looked at: the two do not depend on each other)
        R.check('2.fill.single', 'ALG', site, 'a single fill gas receives the whole remainder, whatever ratios were given',
                not why, key='; '.join(w[:80] for w in why), detail='; '.join(why), loc=f.loc())
        why = []
        apps = calls(fl, 'append')
        oth = [e for e in apps if e.loops]
        want_main = spec(fl, 'rem/(1 + sum(self._fill_ratio, axis=0))', pe)
        # first element of the general list: a literal [main] or the first append outside the loop
        lit = [e for e in fl.of('assign') if not e.loops and atom_of(fl, unalloc(fl, e.value)) is not None and
               atom_of(fl, unalloc(fl, e.value)).head == 'tuple' and len(atom_of(fl, unalloc(fl, e.value)).args) == 1]
        main = [e for e in apps if not e.loops]
        if len(lit) + len(main) != 1:
            raise AnalysisError('expected one main-gas element, found %d' % (len(lit) + len(main)))
        if lit:
            m = lit[0]
            mval = atom_of(fl, unalloc(fl, m.value)).args[0]
            mlist = m.name
        else:
            m = main[0]
            mval = m.args[0]
            mlist = unparse(m.node.func.value)
        if not fl.tab.equal(mval, want_main):
            why.append('main fill = %s' % fmt(fl, mval))
        o = one(oth, 'append in loop')
        lp = o.loops[0]
        if lp.kind != 'zip' or not (fl.tab.equal(lp.iter_rf[0], spec(fl, 'self._fill_gases[1:]')) and
                                    fl.tab.equal(lp.iter_rf[1], code(fl, 'self._fill_ratio'))):
            why.append('loop %s' % unparse(lp.iter_ast))
        else:
            ratio = fl.tab.atom('elem', (lp.iter_rf[1], lp.index))
            if not fl.tab.equal(o.args[0], ratio * want_main):
                why.append('other fill = %s' % fmt(fl, o.args[0]))
        if fl.events.index(m) > fl.events.index(o):
            why.append('main gas is not first')
        if mlist != unparse(o.node.func.value):
            why.append('appends go to different lists')
        R.check('2.fill', 'ALG', site,
                'main = remainder/(1 + sum ratios), others = ratio_i * main paired by zip(fill_gases[1:], ratio), '
                'main first; single fill gas gets the whole remainder',
                not why, key='; '.join(why), detail='; '.join(why), loc=f.loc())
    # ---- 3. mu
    site = AC + '::AutoChemistry.compute_mu_profile'
    with R.guard('3.mu', 'ALG', site, 'mu'):
        f = ix.func(site)
        fl = mkflow(ix, site)
        st = [e for e in fl.of('store') if e.loops and e.op == 'Add'] + [e for e in fl.of('aug') if e.loops]
        s = one(st, 'mu accumulation')
        lp = s.loops[0]
        ok = lp.kind == 'enumerate' and fl.tab.equal(lp.iter_rf[0], code(fl, 'self.gases'))
        gasname = fl.tab.atom('elem', (lp.iter_rf[0], lp.index))
        want = spec(fl, 'self.mixProfile[i]*self.get_molecular_mass(g)', {'i': lp.index, 'g': gasname})
        ok = ok and fl.tab.equal(s.value, want) and getattr(s, 'op', 'Add') == 'Add'
        z = [e for e in fl.of('store') if not e.loops and fmt(fl, e.target) == 'self.mu_profile']
        if s.kind == 'aug':
            # the sum is built in a local array: that array starts from zeros and is what the attribute is bound to
            init = [v for n_, v in fl.assign_log.get(s.name, []) if isinstance(n_, ast.Assign)]
            if len(init) != 1 or not z or not all(isinstance(e.node.value, ast.Name) and e.node.value.id == s.name for e in z):
                raise AnalysisError('the array the sum is built in (%s) is not recognised as the one stored in self.mu_profile' % s.name)
            ia = atom_of(fl, init[0])
            ok = ok and ia is not None and ia.head == 'alloc' and 'zeros' in fmt(fl, init[0])
        else:
            ok = ok and fmt(fl, s.target) == 'self.mu_profile' and len(z) == 1 and 'zeros' in fmt(fl, z[0].value)
        R.check('3.mu', 'ALG', site,
                'mu = sum_idx mix[idx] * mass(gases[idx]) with one idx from enumerate(self.gases), starting from zeros',
                ok, key='adds %s' % fmt(fl, s.value), detail='adds %s over %s' % (fmt(fl, s.value), unparse(lp.iter_ast)),
                loc=f.loc(s.node))
    site = CH + 'chemistry.py::Chemistry.get_molecular_mass'
    with R.guard('3.mass', 'ARG', site, 'mass'):
        f = ix.func(site)
        fl = mkflow(ix, site)
        r = the_return(fl)
        pe = param_env(fl, f, ['m'])
        tgt = ix.resolve_name(ix.module('taurex/util/__init__.py'), 'get_molecular_weight') \
            if 'taurex/util/__init__.py' in ix.modules else None
        R.check('3.mass', 'ARG', site, 'molecular mass = get_molecular_weight(molecule)',
                fl.tab.equal(r.value, spec(fl, 'get_molecular_weight(m)', pe)),
                key=fmt(fl, r.value), detail=fmt(fl, r.value), loc=f.loc(r.node))
    # ---- 4. active / inactive
    site = AC + '::AutoChemistry.determine_active_inactive'
    with R.guard('4.masks', 'SIB', site, 'masks'):
        f = ix.func(site)
        comps = [n for n in ast.walk(f.node) if isinstance(n, ast.ListComp)]
        if len(comps) != 2:
            raise AnalysisError('expected two comprehensions')
        a, b = comps
        why = []
        # a table read once into a local (`available = self.availableActive`) is that table
        cnt_, defs_ = {}, {}
        for n_ in ast.walk(f.node):
            if isinstance(n_, ast.Name) and isinstance(n_.ctx, ast.Store):
                cnt_[n_.id] = cnt_.get(n_.id, 0) + 1
            if isinstance(n_, ast.Assign) and len(n_.targets) == 1 and isinstance(n_.targets[0], ast.Name):
                defs_[n_.targets[0].id] = n_.value

        def res_(x_):
            if isinstance(x_, ast.Name) and cnt_.get(x_.id) == 1 and x_.id in defs_ and isinstance(defs_[x_.id], ast.Attribute):
                return unparse(defs_[x_.id])
            return unparse(x_)
        if unparse(a.elt) != unparse(b.elt) or unparse(a.generators[0].iter) != unparse(b.generators[0].iter) \
                or unparse(a.generators[0].target) != unparse(b.generators[0].target):
            why.append('the two selections iterate different sequences')
        if unparse(a.generators[0].iter) != 'enumerate(self.gases)':
            why.append('iterates %s' % unparse(a.generators[0].iter))
        ca, cb = a.generators[0].ifs, b.generators[0].ifs
        if len(ca) != 1 or len(cb) != 1:
            why.append('conditions')
        else:
            ta, tb = ca[0], cb[0]
            neg = {ast.In: ast.NotIn, ast.NotIn: ast.In}
            okc = isinstance(ta, ast.Compare) and isinstance(tb, ast.Compare) and \
                unparse(ta.left) == unparse(tb.left) and \
                res_(ta.comparators[0]) == res_(tb.comparators[0]) == 'self.availableActive' and \
                type(tb.ops[0]) is neg.get(type(ta.ops[0])) and isinstance(ta.ops[0], ast.In)
            if not okc:
                why.append('predicates %s / %s are not complementary membership tests on availableActive' % (
                    unparse(ta), unparse(tb)))
        # assignment targets
        asg = [n for n in walk_no_nested(f.node) if isinstance(n, ast.Assign) and isinstance(n.value, ast.Call)
               and unparse(n.value.func) == 'zip']
        pairs = {}
        for n in asg:
            comp = [c for c in ast.walk(n.value) if isinstance(c, ast.ListComp)]
            if comp and comp[0].generators[0].ifs:
                op = comp[0].generators[0].ifs[0].ops[0]
                pairs[unparse(n.targets[0])] = 'in' if isinstance(op, ast.In) else 'not in'
        if pairs != {'(self._active, self._active_mask)': 'in', '(self._inactive, self._inactive_mask)': 'not in'}:
            why.append('targets %s' % pairs)
        R.check('4.masks', 'SIB', site,
                'active = gases in availableActive, inactive = gases not in availableActive, over the same enumerate(self.gases)',
                not why, key='; '.join(why), detail='; '.join(why), loc=f.loc())
    for nm, mask in (('activeGasMixProfile', '_active_mask'), ('inactiveGasMixProfile', '_inactive_mask')):
        site = AC + '::AutoChemistry.' + nm
        with R.guard('4.mix', 'ARG', site, 'masked mix'):
            f = ix.func(site)
            fl = mkflow(ix, site)
            # scenario: a mix profile has been computed and there is a mask; what is returned then
            from sa.helpers import resolve_guards, has_guard
            r = the_return(fl)
            nones = [spec(fl, 'self.mixProfile is None'), spec(fl, 'self.%s is None' % mask)]

            def decide(c):
                return False if any(fl.tab.equal(c, n_) for n_ in nones) else None
            val = resolve_guards(fl, r.value, decide)
            if has_guard(val):
                raise AnalysisError('the value returned when a profile and a mask exist is not settled: %s' % fmt(fl, val))
            R.check('4.mix', 'ARG', site, '%s = mixProfile[%s]' % (nm, mask),
                    fl.tab.equal(val, spec(fl, 'self.mixProfile[self.%s]' % mask)),
                    key=fmt(fl, val), detail=fmt(fl, val), loc=f.loc(r.node))
    site = CH + 'chemistry.py::Chemistry.__init__'
    with R.guard('4.avail', 'DOM', site, 'available active'):
        f = ix.func(site)
        fl = mkflow(ix, site)
        st = [e for e in fl.of('store') if fmt(fl, e.target) == 'self._avail_active']
        ok = any('find_list_of_molecules' in fmt(fl, e.value) for e in st)
        R.check('4.avail', 'DOM', site, 'availableActive is the list of molecules the opacity cache can find',
                ok, key='%s' % [fmt(fl, e.value) for e in st], detail='%s' % [fmt(fl, e.value) for e in st], loc=f.loc())
    # ---- 5. profiles
    G = CH + 'gas/'
    PN = ['N', 'T', 'P', 'z']
    site = G + 'constantgas.py::ConstantGas.initialize_profile'
    with R.guard('5.constant', 'ALG', site, 'constant'):
        f = ix.func(site)
        fl = mkflow(ix, site)
        pe = param_env(fl, f, PN)
        s = one(fl.of('store'), 'store')
        R.check('5.constant', 'ALG', site, 'constant profile = mix_ratio * ones(nlayers)',
                fl.tab.equal(s.value, spec(fl, 'self._mix_ratio*ones(N)', pe)) and fmt(fl, s.target) == 'self._mix_array',
                key=fmt(fl, s.value), detail=fmt(fl, s.value), loc=f.loc(s.node))
        _getter(ix, R, G + 'constantgas.py::ConstantGas.mixProfile', 'self._mix_array')
    site = G + 'arraygas.py::ArrayGas.initialize_profile'
    with R.guard('5.array', 'ALG', site, 'array'):
        f = ix.func(site)
        fl = mkflow(ix, site)
        pe = param_env(fl, f, PN)
        s = one(fl.of('store'), 'store')
        want = spec(fl, 'interp(linspace(0.0, 1.0, N), linspace(0.0, 1.0, self._mix_ratio_array.shape[0]), self._mix_ratio_array)', pe)
        R.check('5.array', 'ALG', site, 'array profile = interp(linspace(0,1,N), linspace(0,1,len(arr)), arr)',
                fl.tab.equal(s.value, want) and fmt(fl, s.target) == 'self._mix_array',
                key=fmt(fl, s.value), detail=fmt(fl, s.value), loc=f.loc(s.node))
        _getter(ix, R, G + 'arraygas.py::ArrayGas.mixProfile', 'self._mix_array')
    site = G + 'twopointgas.py::TwoPointGas.initialize_profile'
    with R.guard('5.twopoint', 'ALG', site, 'twopoint'):
        f = ix.func(site)
        fl = mkflow(ix, site)
        pe = param_env(fl, f, PN)
        b = dict(pe, cs=code(fl, 'self._mix_surface'), ct=code(fl, 'self._mix_top'))
        b['a'] = spec(fl, '(log10(cs) - log10(ct))/(log10(P[0]) - log10(P[-1]))', b)
        sts = [e for e in fl.of('store') if atom_of(fl, e.target) is not None and atom_of(fl, e.target).head == 'idx']
        got = {unparse(e.target_ast.slice): e.value for e in sts}
        why = []
        want_mid = spec(fl, '10**(a*log10(P[1:-1]) + log10(cs) - a*log10(P[0]))', b)
        if '1:-1' not in got or not fl.tab.equal(got['1:-1'], want_mid):
            why.append('interior = %s' % fmt(fl, got.get('1:-1')))
        if '0' not in got or not fl.tab.equal(got['0'], b['cs']):
            why.append('[0] = %s' % fmt(fl, got.get('0')))
        if '-1' not in got or not fl.tab.equal(got['-1'], b['ct']):
            why.append('[-1] = %s' % fmt(fl, got.get('-1')))
        z = [e for e in fl.of('store') if fmt(fl, e.target) == 'self._mix_profile']
        if len(z) != 1 or not fl.tab.equal(unalloc(fl, z[0].value), spec(fl, 'zeros(N)', pe)):
            why.append('allocation %s' % [fmt(fl, e.value) for e in z])
        R.check('5.twopoint', 'ALG', site,
                'two-point profile: log10 mix linear in log10 P through (P[0], surface) and (P[-1], top); end points pinned; zeros(N)',
                not why, key='; '.join(why), detail='; '.join(why), loc=f.loc())
    site = G + 'powergas.py::PowerGas.initialize_profile'
    with R.guard('5.power', 'ALG', site, 'power'):
        f = ix.func(site)
        fl = mkflow(ix, site)
        pe = param_env(fl, f, PN)
        sts = [e for e in fl.of('store') if fmt(fl, e.target) == 'self._mix_profile']
        s = sts[-1]
        v = s.value
        # structure: (1/sqrt(As) + 1/sqrt(Ad))**-2, Ad = 10**-gamma * Pbar**alpha * 10**(beta/T)
        ok = False
        inv = None
        try:
            inv = 1 / v
        except ZeroDivisionError:
            pass
        cands = []
        for a in v.all_atoms():
            at = fl.tab.atoms[a]
            if at.head == 'sqrt':
                cands.append(at.args[0])
        if len(cands) >= 2:
            for As in cands:
                for Ad in cands:
                    if As is Ad:
                        continue
                    want = spec(fl, '(1/sqrt(As) + 1/sqrt(Ad))**(-2)', {'As': As, 'Ad': Ad})
                    if fl.tab.equal(v, want):
                        has = lambda r, nm: r.mentions(lambda a: a.head == 'name' and a.args[0] == nm)
                        tn, pn = f.params()[2], f.params()[3]
                        okAd = has(Ad, tn) and has(Ad, pn) and Ad.mentions(lambda a: a.head == 'pow')
                        ok = ok or (okAd and not has(As, tn) and not has(As, pn))
        R.check('5.power', 'ALG', site,
                'power-law profile = (1/sqrt(A_surface) + 1/sqrt(A_d))^-2 with A_d = 10^-gamma * P^alpha * 10^(beta/T)',
                ok, key=fmt(fl, v)[:200], detail='profile = %s' % fmt(fl, v), loc=f.loc(s.node))
    # lengths
    for site, attr in ((G + 'constantgas.py::ConstantGas.initialize_profile', 'self._mix_array'),
                       (G + 'arraygas.py::ArrayGas.initialize_profile', 'self._mix_array'),
                       (G + 'twopointgas.py::TwoPointGas.initialize_profile', 'self._mix_profile'),
                       (G + 'powergas.py::PowerGas.initialize_profile', 'self._mix_profile'),
                       (G + 'twolayergas.py::TwoLayerGas.initialize_profile', 'self._mix_profile')):
        with R.guard('5.len', 'SHAPE', site, 'length'):
            f = ix.func(site)
            fl = mkflow(ix, site)
            pe = param_env(fl, f, PN)
            sts = [e for e in fl.of('store') if fmt(fl, e.target) == attr]
            s = sts[-1]
            L = length(fl, s.value, pe['N'], [pe['P'], pe['T']])
            R.check('5.len', 'SHAPE', site, 'the stored profile has one entry per layer (length nlayers / of the pressure profile)',
                    L == 'N', key='length %s' % L, detail='length class of %s is %s' % (fmt(fl, s.value)[:120], L),
                    loc=f.loc(s.node))
    # two-layer structure
    site = G + 'twolayergas.py::TwoLayerGas.initialize_profile'
    with R.guard('5.twolayer', 'ALG', site, 'twolayer'):
        f = ix.func(site)
        fl = mkflow(ix, site)
        pe = param_env(fl, f, PN)
        b = dict(pe, cs=code(fl, 'self.mixRatioSurface'), ct=code(fl, 'self.mixRatioTop'),
                 Pm=code(fl, 'self._mix_ratio_pressure'), sw=code(fl, 'self._mix_ratio_smoothing'))
        b['pl'] = spec(fl, 'argmin(abs(P - Pm))', b)
        b['s'] = spec(fl, 'max(int(pl - sw/2), 0)', b)
        b['e'] = spec(fl, 'min(int(pl + sw/2), N - 1)', b)
        want = spec(fl, '10**interp(log(P[::-1]), log([P[0], P[s], P[e], P[-1]][::-1]), log10([cs, cs, ct, ct][::-1]))', b)
        # (whatever it is called: the unsmoothed profile is the local computed by the interpolation)
        cp = [e for e in fl.of('assign') if isinstance(e.value, RF) and not e.loops and e.value.mentions(
            lambda a: a.head == 'call' and a.extra and a.extra[0] == 'fn:interp') and
            atom_of(fl, e.value) is not None and atom_of(fl, e.value).head == 'pow' and not e.value.mentions(
                lambda a: a.head == 'call' and a.extra and a.extra[0] == 'fn:movingaverage')]
        c = one(cp, 'interpolated (unsmoothed) profile')
        R.check('5.twolayer', 'ALG', site,
                'two-layer profile: log-log interpolation through (P[0], surface), (P[start], surface), (P[end], top), '
                '(P[-1], top) with start/end clamped to [0, N-1] around the transition pressure',
                fl.tab.equal(c.value, want), key=fmt(fl, c.value)[:200],
                detail='differs: %s' % fl.tab.diff(c.value, want), loc=f.loc(c.node))
    # ---- 6. API
    fns = []
    for rel in sorted(ix.modules):
        if rel.startswith(CH):
            fns.extend(fn for fn in ix.functions_in(rel) if fn.name in ('initialize_profile', 'initialize_chemistry', 'fill_atmosphere', 'compute_mu_profile', 'determine_active_inactive'))
    api_obligations(ix, R, '6.api', fns, 'profile construction')
    tokens_obligation(ix, R)
    from rules.common import loop_closures
    loop_closures(ix, R, '2.closure', [CH], 'the chemistry and gas profiles (fill-ratio and per-layer getters / setters)')
    # ---- 7. weight
    site = UU + '::calculate_weight'
    with R.guard('7.weight', 'ALG', site, 'weight'):
        f = ix.func(site)
        fl = mkflow(ix, site)
        pe = param_env(fl, f, ['chem'])
        au = one(fl.of('aug'), 'accumulation')
        lp = au.loops[0]
        it = fl.tab.atom('elem', (lp.iter_rf[0], lp.index))
        el = fl.tab.atom('idx', (it, fl.tab.const(0)))
        cnt = fl.tab.atom('idx', (it, fl.tab.const(1)))
        ok = fl.tab.equal(au.value, spec(fl, 'mass[el]*cnt', {'el': el, 'cnt': cnt})) and \
            fl.tab.equal(lp.iter_rf[0], spec(fl, 'split_molecule_elements(chem).items()', pe))
        init = [x for x in fl.assign_log[au.name] if isinstance(x[0], ast.Assign)]
        ok = ok and len(init) == 1 and init[0][1].const() == 0
        R.check('7.weight', 'ALG', site, 'molecular weight = sum over elements of mass[element] * count',
                ok, key=fmt(fl, au.value), detail='adds %s' % fmt(fl, au.value), loc=f.loc(au.node))


def tokens_obligation(ix, R):
    """7.tokens: the formula tokenizer splits a formula into element symbols, WHOLE numbers and single other
    characters.  The regular expression is parsed (re._parser, nothing is matched or run): its alternatives must be an
    upper-case letter with an optional lower-case one, a run of one or more digits with no upper limit, and any single
    character, in that order - a count such as the 10 of C10H8 has to arrive as one token, because
    split_molecule_elements reads exactly one token after an element as its count."""
    import re._parser as rp
    import re._constants as rc
    site = UU + '::tokenize_molecule'
    with R.guard('7.tokens', 'TAB', site, 'formula tokens'):
        f = ix.func(site)
        pat = None
        cands = []
        for n in ast.walk(f.node):
            if isinstance(n, ast.Call) and isinstance(n.func, ast.Attribute) and n.func.attr in ('findall', 'finditer'):
                if n.args and isinstance(n.args[0], ast.Constant) and isinstance(n.args[0].value, str) and \
                        unparse(n.func.value) == 're':
                    cands.append(n.args[0].value)
                elif isinstance(n.func.value, ast.Name):
                    # a pattern compiled at module level
                    for st in f.module.tree.body:
                        if isinstance(st, ast.Assign) and len(st.targets) == 1 and isinstance(st.targets[0], ast.Name) and \
                                st.targets[0].id == n.func.value.id and isinstance(st.value, ast.Call) and \
                                unparse(st.value.func) in ('re.compile', 'compile') and st.value.args and \
                                isinstance(st.value.args[0], ast.Constant):
                            cands.append(st.value.args[0].value)
        pat = one(cands, 'regular expression of the tokenizer')
        tree = rp.parse(pat)
        why = []
        alts = None
        if len(tree) == 1 and tree[0][0] == rc.BRANCH:
            alts = tree[0][1][1]
        if alts is None or len(alts) != 3:
            why.append('pattern %r does not have the three alternatives element | number | other' % pat)
        else:
            def is_digits(item):
                op, av = item
                if op == rc.IN:
                    return av == [(rc.CATEGORY, rc.CATEGORY_DIGIT)] or av == [(rc.RANGE, (48, 57))]
                return False
            num = list(alts[1])
            okn = len(num) == 1 and num[0][0] in (rc.MAX_REPEAT, rc.MIN_REPEAT) and num[0][1][0] == 1 and \
                num[0][1][1] == rc.MAXREPEAT and len(num[0][1][2]) == 1 and is_digits(num[0][1][2][0])
            if not okn:
                why.append('the number alternative of %r is not a run of one or more digits without an upper limit '
                           '(a count of ten or more would be split into several tokens)' % pat)
            el = list(alts[0])
            oke = len(el) == 2 and el[0] == (rc.IN, [(rc.RANGE, (65, 90))]) and el[1][0] == rc.MAX_REPEAT and \
                el[1][1][0] == 0 and el[1][1][1] == 1 and list(el[1][1][2]) == [(rc.IN, [(rc.RANGE, (97, 122))])]
            if not oke:
                why.append('the element alternative of %r is not [A-Z][a-z]?' % pat)
            if list(alts[2]) != [(rc.ANY, None)]:
                why.append('the last alternative of %r is not a single arbitrary character' % pat)
        R.check('7.tokens', 'TAB', site,
                'formula tokens: element symbol [A-Z][a-z]? | whole number (one or more digits) | any other single character',
                not why, key='; '.join(why), detail='; '.join(why), loc=f.loc())
    site = UU + '::split_molecule_elements'
    with R.guard('7.count', 'ALG', site, 'element count'):
        f = ix.func(site)
        from sa.helpers import need
        need(R, '7.count', 'ALG', site, 'the count of an element (or bracket group) is the single token that follows it, else 1', f,
             ['''
try:
    V_peek = int(V_tokens[V_i + 1])
    V_i += 1
except IndexError:
    V_peek = 1
except ValueError:
    V_peek = 1
''', 'V_elems[V_tok] += V_peek'], under='*')
    # a bracketed group: the multiplier after the bracket applies to the group, not to what was parsed before it
    with R.guard('7.group', 'ARG', site, 'bracket groups'):
        f = ix.func(site)
        fl = mkflow(ix, site)
        me = ix.func(UU + '::merge_elements')
        ms = calls(fl, 'merge_elements')
        why = []
        ngroup = 0
        for e in ms:
            got = bind_call(e, me.params())
            rec = lambda rf: rf is not None and rf.mentions(
                lambda a: a.head == 'call' and a.extra and a.extra[0] == 'fn:split_molecule_elements')
            if rec(got.get(me.params()[0])):
                why.append('%s: the group parsed inside the brackets is passed as the accumulated formula (the multiplier '
                           'then scales what came before the bracket)' % unparse(e.node)[:70])
            if rec(got.get(me.params()[1])):
                ngroup += 1
                if len(me.params()) > 2 and me.params()[2] not in got:
                    why.append('%s: the count after the bracket is not applied' % unparse(e.node)[:70])
        if not ngroup and not why:
            raise AnalysisError('no merge_elements call takes the bracket group as the merged-in formula')
        R.check('7.group', 'ARG', site,
                'merge_elements(accumulated, group parsed inside the brackets, count after the bracket): the count '
                'multiplies the group', not why, key='; '.join(why), detail='; '.join(why), loc=f.loc())
    site = UU + '::merge_elements'
    with R.guard('7.merge', 'ALG', site, 'merge'):
        f = ix.func(site)
        from sa.helpers import need
        ps = f.params()
        stmt_m = 'merged count = count in the first formula + count in the second x factor, over the union of elements'
        from sa.pattern import find as _find
        pat = ['return {V_e: %s.get(V_e, 0) + %s.get(V_e, 0) * %s for V_e in set(%s) | set(%s)}' % (ps[0], ps[1], ps[2], ps[0], ps[1])]
        if _find(f.node, pat)[0] is not None:
            R.ok('7.merge', 'ALG', site, stmt_m, loc=f.loc())
        else:
            # the loop spelling: a copy of the first formula, updated once per element of the second
            fl = mkflow(ix, site)
            pe = param_env(fl, f, ['a', 'b', 'k'])
            sts = [e for e in fl.of('store') if len(e.loops) == 1]
            decided = False
            for e in sts:
                lp = e.loops[0]
                ta = atom_of(fl, e.target)
                if ta is None or ta.head != 'idx' or lp.iter_rf is None or not fl.tab.equal(lp.iter_rf[0], spec(fl, 'b.items()', pe)):
                    continue
                item = fl.tab.atom('elem', (lp.iter_rf[0], lp.index))
                key_, cnt_ = fl.tab.atom('idx', (item, fl.tab.const(0))), fl.tab.atom('idx', (item, fl.tab.const(1)))
                base_ = unalloc(fl, ta.args[0])
                if not (fl.tab.equal(ta.args[1], key_) and (fl.tab.equal(base_, spec(fl, 'dict(a)', pe)) or
                                                            fl.tab.equal(base_, spec(fl, 'a.copy()', pe)))):
                    continue
                cur = None
                for g_ in e.value.all_atoms():
                    at_ = fl.tab.atoms[g_]
                    if at_.head in ('call', 'mcall') and at_.extra and at_.extra[0].endswith('get'):
                        cur = RF(fl.tab, __import__('sa.algebra', fromlist=['p_atom']).p_atom(g_))
                if cur is None:
                    continue
                want = cur + cnt_ * pe['k']
                decided = True
                R.check('7.merge', 'ALG', site, stmt_m, fl.tab.equal(e.value, want) and not e.guards and e.op is None,
                        key=fmt(fl, e.value)[:120],
                        detail='count stored for an element of the second formula is %s, expected %s (the factor multiplies the '
                               'second formula only)' % (fmt(fl, e.value)[:160], fmt(fl, want)[:160]), loc=f.loc(e.node))
                break
            if not decided:
                need(R, '7.merge', 'ALG', site, stmt_m, f, pat)


def _getter(ix, R, site, attr):
    f = ix.func(site)
    r = unparse(f.body()[-1].value)
    R.check('5.getter', 'ARG', site, 'mixProfile returns the array initialize_profile stored (%s)' % attr,
            r == attr, key=r, detail='returns %s' % r, loc=f.loc())


G_ = CH + 'gas/'
MUTANTS = [
    ('valid-ge2', TC, 'validity = np.any(total_mix > 1.0)', 'validity = np.any(total_mix > 2.0)', '1.valid'),
    ('valid-all', TC, 'validity = np.any(total_mix > 1.0)', 'validity = np.all(total_mix > 1.0)', '1.valid'),
    ('valid-noraise', TC, "            self.error('Greater than 1.0 chemistry profile detected')\n            raise InvalidChemistryException", "            self.error('Greater than 1.0 chemistry profile detected')", '1.valid'),
    ('valid-valueerror', TC, "            self.error('Greater than 1.0 chemistry profile detected')\n            raise InvalidChemistryException", "            self.error('Greater than 1.0 chemistry profile detected')\n            raise ValueError", '1.valid'),
    ('seed-C10B-no-single', TC, "        if len(self._fill_gases) == 1:\n            return [mixratio_remainder]\n        else:", "        if len(self._fill_gases) == 0:\n            return [mixratio_remainder]\n        else:", '2.fill'),
    ('seed-C10A-mass-memo', AC, '            mix_profile = self.mixProfile\n', '            mix_profile = self.mixProfile\n            if self._active is None:\n                self._active = [self.get_molecular_mass(g) for g in self.gases]\n', 'M.memo'),
    ('fill-main', TC, 'main_molecule = mixratio_remainder * (1 / (1 + sum(self._fill_ratio)))', 'main_molecule = mixratio_remainder * (1 / sum(self._fill_ratio))', '2.fill'),
    ('fill-pairing', TC, 'for molecule, ratio in zip(self._fill_gases[1:], self._fill_ratio):', 'for molecule, ratio in zip(self._fill_gases, self._fill_ratio):', '2.fill'),
    ('concat-order', TC, 'mix_profile = self.fill_atmosphere(mixratio_remainder) + mix_profile', 'mix_profile = mix_profile + self.fill_atmosphere(mixratio_remainder)', '3.concat'),
    ('gases-order', TC, 'return self._fill_gases + [g.molecule for g in self._gases]', 'return [g.molecule for g in self._gases] + self._fill_gases', '3.concat'),
    ('mu-index', AC, 'self.mu_profile += mix_profile[idx] * self.get_molecular_mass(gasname)', 'self.mu_profile += mix_profile[0] * self.get_molecular_mass(gasname)', '3.mu'),
    ('masks-same', AC, 'if m not in self.availableActive', 'if m in self.availableActive', '4.masks'),
    ('inactive-mask', AC, 'return self.mixProfile[self._inactive_mask]', 'return self.mixProfile[self._active_mask]', '4.mix'),
    ('constant-len', G_ + 'constantgas.py', 'self._mix_array = self._mix_ratio * np.ones(nlayers)', 'self._mix_array = self._mix_ratio * np.ones(nlayers - 1)', '5.constant'),
    ('array-len', G_ + 'arraygas.py', 'layer_interp = np.linspace(0.0, 1.0, nlayers)', 'layer_interp = np.linspace(0.0, 1.0, nlayers + 1)', '5.array'),
    ('twopoint-ends', G_ + 'twopointgas.py', 'self._mix_profile[-1] = chem_top', 'self._mix_profile[-1] = chem_surf', '5.twopoint'),
    ('twopoint-slope', G_ + 'twopointgas.py', 'b = math.log10(chem_surf) - a * math.log10(p_surf)', 'b = math.log10(chem_surf) - a * math.log10(p_top)', '5.twopoint'),
    ('power-exp', G_ + 'powergas.py', 'mix = np.power(1 / mix, 2)', 'mix = np.power(1 / mix, 1)', '5.power'),
    ('twolayer-clamp', G_ + 'twolayergas.py', 'end_layer = min(int(P_layer + smooth_window / 2), nlayers - 1)', 'end_layer = min(int(P_layer + smooth_window / 2), nlayers)', '5.twolayer'),
    ('regress-f3', G_ + 'twolayergas.py', 'border = int((len(chemprofile) - len(C_smooth)) / 2)', 'border = np.int((len(chemprofile) - len(C_smooth)) / 2)', '6.api'),
    ('weight-count', UU, 'compoundweight += mass[element] * count', 'compoundweight += mass[element]', '7.weight'),
]
EQUIVALENTS = [
    ('fill-div', TC, 'main_molecule = mixratio_remainder * (1 / (1 + sum(self._fill_ratio)))', 'main_molecule = mixratio_remainder / (1.0 + sum(self._fill_ratio))'),
    ('constant-commute', G_ + 'constantgas.py', 'self._mix_array = self._mix_ratio * np.ones(nlayers)', 'self._mix_array = np.ones(nlayers) * self._mix_ratio'),
]
