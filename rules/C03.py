"""C03 Optical depth composes additively over contributions and species."""
import ast

from sa.helpers import (guard_is, same_cond, validated, unlicensed, the_return, mkflow, spec, code, one, calls, bind_call, param_env,
                        loop_matches, fmt, atom_of, unparse, unalloc, call_kw,
                        walk_no_nested)
from sa.index import AnalysisError
from sa.algebra import RF
from rules.C01 import (arg_roles, CONTRIB_PARAMS, kernel_obligations,
                       KERNEL_PARAMS, K as KFILE, _base_is)

FLOOR = 30
CD = 'taurex/contributions/'
SM = 'taurex/model/simplemodel.py'
FILES = [CD, SM, 'taurex/model/transmission.py']
EXPLANATION = (
    'Static rule conformance for additive composition: every contribute() '
    'implementation (found by class-hierarchy analysis) only accumulates into '
    'tau; every prepare_each weights a component by the mixing ratio of the '
    'same species and layer index, on a freshly zeroed buffer; prepare() sums '
    'components with +=; no consumer retains a yielded (reused) buffer; '
    'per-component evaluation sees the component it was given; the '
    'contribution-list swap is restored on every normal exit; result keys are '
    'unique.')
ASSUMPTIONS = ['numpy semantics', 'Contribution subclasses outside taurex/ are not analysed',
               'exception paths are outside the property (note N2)']
NOT_DECIDED = ['product-of-transmittances identity as numbers',
               'interaction with the saturation cut-off (C01.4)', 'CIA / opacity data values']

MT = {'model': 'SimpleForwardModel'}


def yields_component(fl, f, R, oid, site, multi_ok=True):
    """C03.4: before each yield (name, X) the last store to self.sigma_xsec is
    X, or the function yields exactly once outside any loop."""
    ys = fl.of('yield')
    if not ys:
        raise AnalysisError('no yield in %s' % site)
    why = []
    single = len(ys) == 1 and not ys[0].loops and not [g for g in ys[0].guards if not validated(g)]
    for y in ys:
        at = atom_of(fl, y.value)
        if at is None or at.head != 'tuple' or len(at.args) != 2:
            why.append('yield %s is not a (name, array) pair' % unparse(y.value_ast))
            continue
        X = at.args[1]
        # an attribute assigned earlier in this call stands for the value it was given
        def settled(v, upto):
            for e in fl.events[:upto]:
                if e.kind == 'store' and not e.loops and not [g for g in e.guards if not validated(g)] and \
                        isinstance(e.target, RF) and isinstance(v, RF) and fl.tab.equal(e.target, v) and isinstance(e.value, RF):
                    v = e.value
            return v
        X = settled(X, fl.events.index(y))
        last = None
        for e in fl.events:
            if e is y:
                break
            if e.kind == 'store' and fmt(fl, e.target) == 'self.sigma_xsec':
                last = e
        ok = last is not None and (fl.tab.equal(last.value, X) or
                                   fl.tab.equal(settled(last.value, fl.events.index(last)), X)) and last.loops == y.loops and \
            [(g.node, g.positive) for g in last.guards] == [(g.node, g.positive) for g in y.guards]
        if not ok and isinstance(y.value_ast, ast.Tuple) and unparse(y.value_ast.elts[1]) == 'self.sigma_xsec':
            # the attribute itself is yielded: it has to have been (re)built in this call, unconditionally
            mine = [e for e in fl.events[:fl.events.index(y)] if e.kind == 'store' and fmt(fl, e.target) == 'self.sigma_xsec'
                    and not e.loops and not [g for g in e.guards if not validated(g)]]
            ok = bool(mine) and not y.loops and not [g for g in y.guards if not validated(g)]
        if not ok:
            # (a single unconditional yield is no exception: model_full_contrib() integrates after the yield without
            #  going through prepare(), so contribute() would read whatever an earlier evaluation left in sigma_xsec)
            why.append('component %s yielded without self.sigma_xsec = <that array>' %
                       unparse(y.value_ast))
        if not ok and len(ys) == 1 and not single:
            why.append('the only component is yielded conditionally (%s)' % [g.text() for g in y.guards if not validated(g)])
    R.check(oid, 'DOM', site,
            'each yielded component is what contribute() will use (self.sigma_xsec assigned '
            'to it before the yield)',
            not why, key='; '.join(why), detail='; '.join(why), loc=f.loc(ys[0].node))


def zero_leaves(fl, rf, loop):
    """rf is (a guard tree of) buffers freshly zeroed inside `loop`."""
    at = atom_of(fl, rf)
    if at is None:
        return False
    if at.head == 'guard':
        return zero_leaves(fl, at.args[1], loop) and zero_leaves(fl, at.args[2], loop)
    if at.head != 'alloc':
        return False
    inner = at.args[0]
    if inner.const() == 0:
        pass
    else:
        z = atom_of(fl, inner)
        if z is None or z.head != 'call' or z.extra[0] != 'fn:zeros':
            return False
    # the allocation / reset event must be inside the component loop
    for e in fl.events:
        if e.kind == 'reset' and fl.tab.equal(e.new, rf):
            return loop in e.loops
        if e.kind == 'assign' and e.op is None and isinstance(e.value, RF) and \
                any(fl.tab.equal(x, rf) for x in _guard_leaves(fl, e.value)):
            return loop in e.loops
    return False


def _guard_leaves(fl, rf):
    at = atom_of(fl, rf)
    if at is not None and at.head == 'guard' and isinstance(at.args[1], RF) and isinstance(at.args[2], RF):
        return _guard_leaves(fl, at.args[1]) + _guard_leaves(fl, at.args[2])
    return [rf]


def run(ix, R):
    _run(ix, R)
    from rules.common import memo_obligation
    memo_obligation(ix, R, 'M.memo', ['taurex/contributions/', 'taurex/model/simplemodel.py'], 'the contributions and the model driver')


def _run(ix, R):
    base = ix.cls(CD + 'contribution.py::Contribution')
    # ---- 1. contribute implementations only accumulate
    impls = ix.implementations(base, 'contribute')
    known = {
        CD + 'contribution.py::Contribution.contribute': 'kernel',
        CD + 'absorption.py::AbsorptionContribution.contribute': 'kernel',
        CD + 'cia.py::CIAContribution.contribute': 'kernel',
        CD + 'simpleclouds.py::SimpleCloudsContribution.contribute': 'direct',
    }
    for f in impls:
        stmt = 'contribute() updates tau only by += (directly or through an accumulate-only kernel)'
        with R.guard('1.acc', 'ACC', f.site, stmt):
            fl = mkflow(ix, f)
            b = param_env(fl, f, CONTRIB_PARAMS[1:])
            tau = b['tau']
            why = []
            for e in fl.of('store'):
                if _base_is(fl, e.target, tau) and e.op != 'Add':
                    why.append(unparse(e.node))
            for e in fl.of('assign') + fl.of('aug') + fl.of('reset'):
                if e.name == f.params()[7]:
                    why.append(unparse(e.node))
            # tau may only be handed to known accumulate-only kernels / super
            for e in fl.of('call'):
                if any(isinstance(a, RF) and fl.tab.equal(a, tau) for a in
                       list(e.args) + list(e.kw.values())):
                    if e.name in ('debug', 'info', 'warning', 'error'):
                        continue
                    if e.name not in ('contribute_tau', 'contribute_cia', 'contribute_ktau',
                                      'contribute'):
                        why.append('tau passed to %s' % e.name)
            if f.site not in known:
                why.append('unknown contribute() implementation (not in the confirmed table)')
            R.check('1.acc', 'ACC', f.site, stmt, not why, key='; '.join(why),
                    detail='; '.join(why), loc=f.loc())
    if len(impls) < 4:
        R.error('1.impls', 'ACC', CD, 'at least the four confirmed contribute() implementations exist',
                'found %d' % len(impls))
    # kernels
    kernel_obligations(ix, R, '1.k.tau', KFILE + '::contribute_tau', KERNEL_PARAMS,
                       'sigma[k+layer, wn]*path[k]*density[k+density_offset]', 'cross-section')
    kernel_obligations(ix, R, '1.k.cia', CD + 'cia.py::contribute_cia', KERNEL_PARAMS,
                       'sigma[k+layer, wn]*path[k]*density[k+density_offset]**2',
                       'CIA: density squared')
    # CIA caller
    site = CD + 'cia.py::CIAContribution.contribute'
    stmt = 'CIA contribute forwards its arguments to contribute_cia; skipped only when there are no pairs'
    with R.guard('1.cia.call', 'ARG', site, stmt):
        f = ix.func(site)
        fl = mkflow(ix, site)
        b = param_env(fl, f, CONTRIB_PARAMS[1:])
        ev = one(calls(fl, 'contribute_cia'), 'contribute_cia call')
        g = ev.guards
        from sa.helpers import guard_is
        # (_total_cia is a count of pairs - an integer - so `not (n <= 0)` is `n > 0`)
        okg = not g or (len(g) == 1 and (guard_is(fl, g[0], spec(fl, 'self._total_cia > 0'), True) or
                                         guard_is(fl, g[0], spec(fl, 'self._total_cia <= 0'), False)))
        R.check('1.cia.guard', 'GUARD', site, 'kernel skipped only when the number of pairs is zero',
                okg, key='guard %s' % [x.text() for x in g], detail='guard %s' % [x.text() for x in g],
                loc=f.loc(ev.node))
        arg_roles(R, '1.cia.call', site, stmt, fl, ev, ix.func(CD + 'cia.py::contribute_cia').params(),
                  {'startK': 'start_layer', 'endK': 'end_layer', 'density_offset': 'density_offset',
                   'sigma': 'self.sigma_xsec', 'density': 'density', 'path': 'path_length',
                   'ngrid': 'self._ngrid', 'layer': 'layer', 'tau': 'tau'}, f, b)
    # SimpleClouds direct add (also C19)
    site = CD + 'simpleclouds.py::SimpleCloudsContribution.contribute'
    stmt = 'cloud opacity of the current layer is added to the current layer row only'
    with R.guard('1.clouds', 'ALG', site, stmt):
        f = ix.func(site)
        fl = mkflow(ix, site)
        b = param_env(fl, f, CONTRIB_PARAMS[1:])
        st = one(fl.of('store'), 'store')
        ok = st.op == 'Add' and fl.tab.equal(st.target, spec(fl, 'tau[layer]', b)) and \
            fl.tab.equal(st.value, spec(fl, 'self.sigma_xsec[layer]', b)) and not st.loops and not st.guards
        R.check('1.clouds', 'ALG', site, stmt, ok, key=unparse(st.node), detail=unparse(st.node),
                loc=f.loc(st.node))

    # ---- 2. per-component weighting
    absorption_weighting(ix, R)
    cia_weighting(ix, R)
    rayleigh_weighting(ix, R)
    hm_weighting(ix, R)
    # prepare sums with +=
    for site in (CD + 'contribution.py::Contribution.prepare',
                 CD + 'absorption.py::AbsorptionContribution.prepare'):
        stmt = 'prepare() sums the yielded components into a fresh array with += and stores the total'
        with R.guard('3.sum', 'ACC', site, stmt):
            f = ix.func(site)
            fl = mkflow(ix, site, MT)
            lp = one([e for e in fl.of('loop') if 'prepare_each' in unparse(e.loop.iter_ast)],
                     'loop over prepare_each').loop
            augs = [e for e in fl.of('aug') if lp in e.loops]
            au = one(augs, 'accumulation')
            sigma_t = lp.node.target.elts[1].id
            why = []
            if au.op != 'Add' or not fl.tab.equal(au.value, fl.tab.atom(
                    'idx', (fl.tab.atom('elem', (lp.iter_rf[0], lp.index)), fl.tab.const(1)))):
                why.append('accumulates %s' % unparse(au.node))
            if au.guards:
                why.append('accumulation is conditional: %s' % [g.text() for g in au.guards])
            # initial value: zeros / zeros_like (fresh)
            init = [x for x in fl.assign_log.get(au.name, []) if isinstance(x[0], ast.Assign)]
            fresh = False
            for node, val in init:
                a = atom_of(fl, val)
                while a is not None and a.head == 'guard':
                    a = atom_of(fl, a.args[1])
                if a is not None and a.head == 'alloc':
                    fresh = True
            if not fresh:
                why.append('total is not a fresh zero array')
            st = [e for e in fl.of('store') if fmt(fl, e.target) == 'self.sigma_xsec' and not e.loops]
            if len(st) != 1 or not isinstance(st[0].node.value, ast.Name) or st[0].node.value.id != au.name or \
                    st[0].guards or fl.events.index(st[0]) < fl.events.index(au):
                why.append('total is not stored to self.sigma_xsec after the loop')
            pe = one([e for e in calls(fl, 'prepare_each')], 'prepare_each call')
            ps = f.params()
            if not (len(pe.args) == 2 and fl.tab.equal(pe.args[0], fl.tab.name(ps[1])) and
                    fl.tab.equal(pe.args[1], fl.tab.name(ps[2]))):
                why.append('prepare_each called with %s' % [fmt(fl, a) for a in pe.args])
            R.check('3.sum', 'ACC', site, stmt, not why, key='; '.join(why), detail='; '.join(why),
                    loc=f.loc(au.node))
    # the kernel callers forward their arguments unchanged (same obligations as C01.2)
    from rules.C01 import caller_obligations
    caller_obligations(ix, R, '1.call')
    # ---- 3. alias escape of yielded buffers
    alias_escape(ix, R)
    # ---- 4. each prepare_each exposes the component it yields
    pes = ix.implementations(base, 'prepare_each')
    n = 0
    for f in pes:
        if f.cls is base:
            continue
        n += 1
        with R.guard('4.comp', 'DOM', f.site, 'yielded component is exposed'):
            fl = mkflow(ix, f, MT)
            yields_component(fl, f, R, '4.comp', f.site)
    from rules.common import prepare_each_state
    prepare_each_state(ix, R, '4.state')
    if n < 7:
        R.error('4.impls', 'DOM', CD, 'at least the seven confirmed prepare_each implementations exist',
                'found %d' % n)
    # ---- 5. swap / restore
    for nm in ('model_contrib', 'model_full_contrib'):
        swap_restore(ix, R, SM + '::SimpleForwardModel.' + nm)
        contrib_pipeline(ix, R, SM + '::SimpleForwardModel.' + nm, nm == 'model_full_contrib')
    # ---- 6. unique names
    unique_names(ix, R, base)
    with R.guard('8.store', 'ARG', 'taurex/util/output.py::store_contributions', 'stored components'):
        stored_components(ix, R)
    from rules.common import gas_lookup_path
    with R.guard('2.mix.lookup', 'SIB', 'taurex/data/profiles/chemistry/', 'per-gas lookup'):
        gas_lookup_path(ix, R, '2.mix.lookup')
    # ---- 7. every source that is added is kept
    site = 'taurex/model/model.py::ForwardModel.add_contribution'
    with R.guard('7.add', 'EFF', site, 'add_contribution'):
        f = ix.func(site)
        fl = mkflow(ix, site)
        pe = param_env(fl, f, ['c'])
        lst = code(fl, 'self.contribution_list')
        why = []
        apps = [e for e in calls(fl, 'append') if e.recv_rf is not None and fl.tab.equal(e.recv_rf, lst)]
        if len(apps) != 1 or len(apps[0].args) != 1 or not fl.tab.equal(apps[0].args[0], pe['c']) or apps[0].loops:
            why.append('the contribution is not appended to contribution_list exactly once')
        else:
            for g in apps[0].guards:
                # only "not already in the list" may decide whether it is appended (anything else is rejected by a raise)
                if not guard_is(fl, g, spec(fl, 'c in L', {'c': pe['c'], 'L': lst}), False):
                    why.append('appended only under %s' % g.text())
        # a source is refused only for not being a Contribution or for being in the list already (the same object):
        # any other reason - e.g. sharing its NAME with another source - drops a source the user added
        for r_ in fl.of('raise'):
            for g in r_.guards:
                if g.rf is None:
                    continue
                if guard_is(fl, g, spec(fl, 'c in L', {'c': pe['c'], 'L': lst}), True) or \
                        guard_is(fl, g, spec(fl, 'isinstance(c, Contribution)', pe), False):
                    continue
                if g.early:
                    continue        # an earlier licensed refusal that did not fire
                why.append('a contribution is refused when %s' % g.text()[:80])
        # nothing else changes the list: no element is replaced or removed, the list is not re-bound
        for e in fl.of('store'):
            ta = atom_of(fl, e.target)
            if fl.tab.equal(e.target, lst) or (ta is not None and ta.head == 'idx' and fl.tab.equal(ta.args[0], lst)):
                why.append('%s replaces part of the list' % unparse(e.node)[:60])
        for e in fl.of('call'):
            if e.recv_rf is not None and fl.tab.equal(e.recv_rf, lst) and e.name in (
                    'remove', 'pop', 'clear', 'insert', 'extend', 'sort', 'reverse', '__setitem__', '__delitem__'):
                why.append('%s changes the list' % unparse(e.node)[:60])
        R.check('7.add', 'EFF', site,
                'add_contribution appends the given source to contribution_list (a source already in the list is an '
                'error) and never replaces or removes another source: the total optical depth is over every source added',
                not why, key='; '.join(why), detail='; '.join(why), loc=f.loc())


def absorption_weighting(ix, R):
    site = CD + 'absorption.py::AbsorptionContribution.prepare_each'
    stmt = ('sigma[l] += xsec_gas.opacity(T[l], P[l], wngrid) * mix_gas[l], same gas and same layer '
            'index, on a buffer zeroed for this gas')
    with R.guard('2.abs', 'ALG', site, stmt):
        f = ix.func(site)
        fl = mkflow(ix, site, MT)
        st = one([e for e in fl.of('store') if len(e.loops) == 2], 'per-layer accumulation')
        gl, ll = st.loops
        b = param_env(fl, f, ['model', 'wngrid'])
        gas = fl.tab.atom('elem', (gl.iter_rf[0], gl.index))
        b.update(gas=gas, i=ll.index)
        why = []
        if st.op != 'Add':
            why.append('component is assigned, not accumulated: %s' % unparse(st.node))
        if not fl.tab.equal(gl.iter_rf[0], code(fl, 'model.chemistry.activeGases')):
            why.append('component loop over %s' % unparse(gl.iter_ast))
        want = spec(fl, '_m(self._opacity_cache[gas], T, P, wngrid)', b)
        # value = opacity(xsec, T_i, P_i, wngrid) * mix[i]
        T = fl.tab.atom('elem', (code(fl, 'model.temperatureProfile'), ll.index))
        P = fl.tab.atom('elem', (code(fl, 'model.pressureProfile'), ll.index))
        xs = spec(fl, 'self._opacity_cache[gas]', b)
        op = fl.tab.atom('mcall', (xs, T, P, b['wngrid']), extra=('fn:opacity',))
        mix = spec(fl, 'model.chemistry.get_gas_mix_profile(gas)[i]', b)
        if not fl.tab.equal(st.value, op * mix):
            why.append('adds %s; expected %s' % (fmt(fl, st.value), fmt(fl, op * mix)))
        tg = atom_of(fl, st.target)
        if tg is None or tg.head != 'idx' or len(tg.args) != 2 or not fl.tab.equal(tg.args[1], ll.index):
            why.append('target %s' % fmt(fl, st.target))
        elif not zero_leaves(fl, tg.args[0], gl):
            why.append('component buffer %s is not zeroed for each gas' % fmt(fl, tg.args[0]))
        if ll.kind != 'enumerate':
            why.append('layer loop %s' % unparse(ll.iter_ast))
        if st.guards:
            why.append('layer accumulation is conditional on %s' % [g.text() for g in st.guards])
        ys = [y for y in fl.of('yield') if y.loops == (gl,)]
        if len(ys) != 1 or ys[0].guards or fl.events.index(ys[0]) < fl.events.index(st):
            why.append('not exactly one unconditional yield per gas after its layers are filled')
        R.check('2.abs', 'ALG', site, stmt, not why, key='; '.join(why), detail='; '.join(why),
                loc=f.loc(st.node), extracted=fmt(fl, st.value))


def cia_weighting(ix, R):
    site = CD + 'cia.py::CIAContribution.prepare_each'
    stmt = ('sigma[l] += cia_pair.cia(T[l], wngrid) * mix_A[l] * mix_B[l] with A, B the partners '
            'of the same pair, on a buffer zeroed for this pair')
    with R.guard('2.cia', 'ALG', site, stmt):
        f = ix.func(site)
        fl = mkflow(ix, site, MT)
        st = one([e for e in fl.of('store') if len(e.loops) == 2], 'per-layer accumulation')
        pl, ll = st.loops
        b = param_env(fl, f, ['model', 'wngrid'])
        pair = fl.tab.atom('elem', (pl.iter_rf[0], pl.index))
        b.update(pair=pair, i=ll.index)
        why = []
        if st.op != 'Add':
            why.append('component is assigned, not accumulated: %s' % unparse(st.node))
        if not fl.tab.equal(pl.iter_rf[0], code(fl, 'self.ciaPairs')):
            why.append('pair loop over %s' % unparse(pl.iter_ast))
        cia = spec(fl, 'self._cia_cache[pair]', b)
        T = fl.tab.atom('elem', (code(fl, 'model.temperatureProfile'), ll.index))
        xs = fl.tab.atom('mcall', (cia, T, b['wngrid']), extra=('fn:cia',))
        ca = atom_of(fl, cia)
        one_ = fl.tab.atom('getattr', (cia, 'pairOne'))
        two_ = fl.tab.atom('getattr', (cia, 'pairTwo'))
        g = lambda m: fl.tab.atom('idx', (fl.tab.atom('call', (m,), extra=(
            'fn:model._chemistry.get_gas_mix_profile',)), ll.index))
        want = xs * g(one_) * g(two_)
        if not fl.tab.equal(st.value, want):
            why.append('adds %s; expected %s' % (fmt(fl, st.value), fmt(fl, want)))
        tg = atom_of(fl, st.target)
        if tg is None or tg.head != 'idx' or len(tg.args) != 2 or not fl.tab.equal(tg.args[1], ll.index):
            why.append('target %s' % fmt(fl, st.target))
        elif not zero_leaves(fl, tg.args[0], pl):
            if tg.args[0].mentions(lambda a: a.head == 'phi'):
                # whether the buffer is wiped depends on a flag carried from one pass of the pair loop to the next
                # (e.g. "skip the wipe for the first pair, the buffer is freshly allocated"): not decided here
                raise AnalysisError('the component buffer is %s: zeroing depends on a loop-carried flag' % fmt(fl, tg.args[0])[:200])
            why.append('component buffer %s is not zeroed for each pair' % fmt(fl, tg.args[0]))
        if st.guards:
            why.append('layer accumulation is conditional on %s' % [g.text() for g in st.guards])
        ys = [y for y in fl.of('yield') if y.loops == (pl,)]
        if len(ys) != 1 or ys[0].guards or fl.events.index(ys[0]) < fl.events.index(st):
            why.append('not exactly one unconditional yield per pair after its layers are filled')
        R.check('2.cia', 'ALG', site, stmt, not why, key='; '.join(why), detail='; '.join(why),
                loc=f.loc(st.node), extracted=fmt(fl, st.value))


def rayleigh_weighting(ix, R):
    site = CD + 'rayleigh.py::RayleighContribution.prepare_each'
    stmt = 'component = rayleigh_sigma(gas)[None,:] * mix_gas[:,None] for the same gas; skipped only when absent or no cross-section'
    with R.guard('2.ray', 'ALG', site, stmt):
        f = ix.func(site)
        fl = mkflow(ix, site, MT)
        y = one(fl.of('yield'), 'yield')
        lp = one(y.loops, 'loop')
        b = param_env(fl, f, ['model', 'wngrid'])
        gas = fl.tab.atom('elem', (lp.iter_rf[0], lp.index))
        b['gas'] = gas
        at = atom_of(fl, y.value)
        want = spec(fl, 'rayleigh_sigma_from_name(gas, wngrid) * model.chemistry.get_gas_mix_profile(gas)', b)
        why = []
        if at is None or at.head != 'tuple' or not fl.tab.equal(at.args[1], want):
            why.append('yields %s' % fmt(fl, y.value))
        elif not fl.tab.equal(at.args[0], gas):
            why.append('component named %s' % fmt(fl, at.args[0]))
        mols = spec(fl, 'list(model.chemistry.activeGases) + list(model.chemistry.inactiveGases)', b)
        if not fl.tab.equal(lp.iter_rf[0], mols):
            why.append('loops over %s' % fmt(fl, lp.iter_rf[0]))
        # licensed skips
        for g in y.guards:
            t = g.text()
            okg = guard_is(fl, g, spec(fl, 'max(model.chemistry.get_gas_mix_profile(gas)) == 0.0', b), False) or \
                guard_is(fl, g, spec(fl, 'rayleigh_sigma_from_name(gas, wngrid) is not None', b), True)
            if not okg:
                why.append('component skipped under %s' % t)
        R.check('2.ray', 'ALG', site, stmt, not why, key='; '.join(why), detail='; '.join(why),
                loc=f.loc(y.node), extracted=fmt(fl, y.value))
    # the raw sigma array must have the wavenumber axis last: sigma[None,:]*mix[:,None]
    with R.guard('2.ray.axes', 'SHAPE', site, 'broadcast axes'):
        f = ix.func(site)
        defs = {}
        for n in ast.walk(f.node):
            if isinstance(n, ast.Assign) and len(n.targets) == 1 and isinstance(n.targets[0], ast.Name):
                defs[n.targets[0].id] = unparse(n.value)

        def role(sub):
            txt = unparse(sub.value)
            if isinstance(sub.value, ast.Name):
                txt = defs.get(sub.value.id, txt)
            if 'rayleigh_sigma_from_name' in txt:
                return 'sigma'
            if 'get_gas_mix_profile' in txt:
                return 'mix'
            return None
        found = []
        for n in ast.walk(f.node):
            if isinstance(n, ast.BinOp) and isinstance(n.op, ast.Mult) and \
                    isinstance(n.left, ast.Subscript) and isinstance(n.right, ast.Subscript):
                pair = {role(n.left): unparse(n.left.slice), role(n.right): unparse(n.right.slice)}
                if 'sigma' in pair and 'mix' in pair:
                    found.append(pair)
        # the same product written as an outer product: outer(mix, sigma) puts the first operand along axis 0
        def role_expr(x):
            txt = unparse(x)
            if isinstance(x, ast.Name):
                txt = defs.get(x.id, txt)
            return 'sigma' if 'rayleigh_sigma_from_name' in txt else 'mix' if 'get_gas_mix_profile' in txt else None
        for n in ast.walk(f.node):
            if isinstance(n, ast.Call) and unparse(n.func).split('.')[-1] == 'outer' and len(n.args) == 2 and not n.keywords:
                r0, r1 = role_expr(n.args[0]), role_expr(n.args[1])
                if {r0, r1} == {'sigma', 'mix'}:
                    found.append({'sigma': 'None, :' if r1 == 'sigma' else ':, None',
                                  'mix': ':, None' if r0 == 'mix' else 'None, :'})
        ok = len(found) == 1 and found[0]['sigma'] in ('(None, slice(None, None, None))', 'None, :', '(None, :)') \
            and found[0]['mix'] in ('(slice(None, None, None), None)', ':, None', '(:, None)')
        R.check('2.ray.axes', 'SHAPE', site,
                'cross-section broadcasts along layers and mixing ratio along wavenumber '
                '(sigma[None,:] * mix[:,None])', ok, key=str(found), detail='product axes %s' % found,
                loc=f.loc())


def hm_weighting(ix, R):
    site = CD + 'hm.py::HydrogenIon.prepare_each'
    stmt = 'row l of the H- opacity is proportional to mix_H[l]*mix_e[l]*P[l] with the same l'
    with R.guard('2.hm', 'ALG', site, stmt):
        f = ix.func(site)
        fl = mkflow(ix, site, MT)
        st = one([e for e in fl.of('store') if len(e.loops) == 1 and e.loops[0].kind == 'range'],
                 'row store')
        i = st.loops[0].index
        b = param_env(fl, f, ['model', 'wngrid'])
        b['i'] = i
        lam = spec(fl, '10000/wngrid', b)
        Ti = spec(fl, 'model.temperatureProfile[i]', b)
        kff = fl.tab.atom('call', (lam, Ti), extra=('fn:self.k_ff',))
        kbf = fl.tab.atom('call', (lam, Ti), extra=('fn:self.k_bf',))
        # attribute stores are not forwarded: read what the attributes were set to
        attrs = {fmt(fl, e.target): e.value for e in fl.of('store') if not e.loops}
        need = {'self._hydrogen_mixratio': spec(fl, "model.chemistry.get_gas_mix_profile('H')", b),
                'self._electron_mixratio': spec(fl, "model.chemistry.get_gas_mix_profile('e-')", b),
                'self._temperature_profile': spec(fl, 'model.temperatureProfile', b)}
        why = []
        for k, v in need.items():
            if k not in attrs or not fl.tab.equal(attrs[k], v):
                why.append('%s = %s' % (k, fmt(fl, attrs.get(k))))
        pd = attrs.get('self._P_dyne')
        c = fl.tab.proportional(pd, spec(fl, 'model.pressureProfile', b)) if pd is not None else None
        if c is None or c <= 0:
            why.append('self._P_dyne = %s' % fmt(fl, pd))
        Tloc = spec(fl, 'self._temperature_profile[i]', b)
        kff2 = fl.tab.atom('call', (lam, Tloc), extra=('fn:self.k_ff',))
        kbf2 = fl.tab.atom('call', (lam, Tloc), extra=('fn:self.k_bf',))
        want = (kff2 + kbf2) * spec(fl, 'self._P_dyne[i]*self._hydrogen_mixratio[i]*self._electron_mixratio[i]', b)
        if not fl.tab.equal(st.value, want):
            why.append('row = %s; expected %s' % (fmt(fl, st.value), fmt(fl, want)))
        if not fl.tab.equal(st.target, spec(fl, 'self.sigma_xsec[i]', b)) or st.op is not None:
            why.append('row target %s' % unparse(st.node))
        lic = [spec(fl, "'%s' not in model.chemistry.activeGases + model.chemistry.inactiveGases" % x, b) for x in ('H', 'e-')]
        extra = [g for g in st.guards if not (g.early and any(guard_is(fl, g, x, False) for x in lic))]
        if extra:
            why.append('row store is conditional on %s' % [g.text() for g in extra])
        if not loop_matches(fl, st.loops[0], '0', 'self._nlayers'):
            why.append('row loop %s' % unparse(st.loops[0].iter_ast))
        R.check('2.hm', 'ALG', site, stmt, not why, key='; '.join(why), detail='; '.join(why),
                loc=f.loc(st.node), extracted=fmt(fl, st.value))


def alias_escape(ix, R):
    """Consumers of prepare_each must not retain the yielded array."""
    n = 0
    for f in ix.all_functions():
        for node in walk_no_nested(f.node):
            if not isinstance(node, ast.For):
                continue
            if not (isinstance(node.iter, ast.Call) and isinstance(node.iter.func, ast.Attribute)
                    and node.iter.func.attr == 'prepare_each'):
                continue
            n += 1
            tgt = node.target
            names = [x.id for x in ast.walk(tgt) if isinstance(x, ast.Name)]
            arr = names[1] if len(names) > 1 else (names[0] if names else None)
            why = []
            for s in ast.walk(ast.Module(body=node.body, type_ignores=[])):
                if isinstance(s, ast.Name) and s.id == arr and isinstance(s.ctx, ast.Load):
                    # find the statement / call context
                    ctx = _use_context(node.body, s)
                    if ctx not in ('aug-rhs', 'log-arg', 'zeros_like-arg', 'shape'):
                        why.append('%s used as %s' % (arr, ctx))
            R.check('3.alias', 'EFF', f.site,
                    'the consumer of prepare_each does not retain the yielded (reused) buffer',
                    not why, key='; '.join(why), detail='; '.join(why), loc=f.loc(node))
    if n < 3:
        R.error('3.alias.sites', 'EFF', 'taurex', 'the three confirmed consumers of prepare_each exist',
                'found %d' % n)


def _use_context(body, name_node):
    parents = {}
    for s in body:
        for p in ast.walk(s):
            for c in ast.iter_child_nodes(p):
                parents[c] = p
    p = parents.get(name_node)
    chain = []
    cur = name_node
    while cur in parents:
        cur = parents[cur]
        chain.append(cur)
    if isinstance(p, ast.AugAssign) and p.value is name_node:
        return 'aug-rhs'
    for c in chain:
        if isinstance(c, ast.Call) and isinstance(c.func, ast.Attribute) and \
                c.func.attr in ('debug', 'info', 'warning', 'error'):
            return 'log-arg'
        if isinstance(c, ast.Call) and unparse(c.func).endswith('zeros_like'):
            return 'zeros_like-arg'
    if isinstance(p, ast.Attribute) and p.attr == 'shape':
        return 'shape'
    return 'stored/passed: ' + unparse(chain[0] if chain else name_node)[:60]


def swap_restore(ix, R, site):
    stmt = ('contribution_list is replaced by [contrib] inside the loop over the saved full list '
            'and restored from it before every normal exit')
    with R.guard('5.swap', 'DOM', site, stmt):
        f = ix.func(site)
        fl = mkflow(ix, site)
        sts = [e for e in fl.of('store') if fmt(fl, e.target) == 'self.contribution_list']
        inner = [e for e in sts if e.loops]
        outer = [e for e in sts if not e.loops]
        why = []
        full = code(fl, 'self.contribution_list')
        if len(inner) != 1:
            why.append('%d swaps inside loops' % len(inner))
        else:
            sw = inner[0]
            lp = sw.loops[0]
            if not fl.tab.equal(lp.iter_rf[0], full):
                why.append('loop iterates %s, not the saved list' % fmt(fl, lp.iter_rf[0]))
            want = fl.tab.atom('tuple', (fl.tab.atom('elem', (full, lp.index)),))
            if not fl.tab.equal(sw.value, want):
                why.append('swap installs %s' % fmt(fl, sw.value))
            # saved before the loop from the attribute (the local is not the attribute itself later)
            if not isinstance(lp.iter_ast, ast.Name):
                why.append('loop iterates the live attribute while it is being replaced')
        if len(outer) != 1 or not fl.tab.equal(outer[0].value, full):
            why.append('restore is %s' % [unparse(e.node) for e in outer])
        else:
            evs = fl.events
            ri = evs.index(outer[0])
            for r in fl.of('return'):
                if evs.index(r) < ri and inner and evs.index(r) > evs.index(inner[0]):
                    why.append('return before the restore')
            if inner and ri < evs.index(inner[0]):
                why.append('restore precedes the swap')
            if outer[0].guards:
                why.append('restore is conditional')
        R.check('5.swap', 'DOM', site, stmt, not why, key='; '.join(why), detail='; '.join(why),
                loc=f.loc(sts[0].node) if sts else f.loc())
    # per-contribution results keyed by name, evaluated on the swapped list
    stmt = 'each result is computed by path_integral after the swap and stored under the contribution name'
    with R.guard('5.key', 'DOM', site, stmt):
        f = ix.func(site)
        fl = mkflow(ix, site)
        pi = one(calls(fl, 'path_integral'), 'path_integral call')
        sw = one([e for e in fl.of('store') if fmt(fl, e.target) == 'self.contribution_list' and e.loops], 'swap')
        ok = fl.events.index(sw) < fl.events.index(pi) and sw.loops[0] in pi.loops
        keyst = [e for e in fl.of('store') if atom_of(fl, e.target) is not None and
                 atom_of(fl, e.target).head == 'idx' and e.loops and
                 'dict' in fmt(fl, atom_of(fl, e.target).args[0])]
        R.check('5.key', 'DOM', site, stmt, ok, key='order', detail='path_integral does not follow the swap',
                loc=f.loc(pi.node))


def contrib_pipeline(ix, R, site, each):
    """model_contrib / model_full_contrib evaluate every contribution alone through the same pipeline as model():
    profiles and star first, then per contribution: swap, prepare (or step prepare_each), path_integral on the
    same grid, result stored under the contribution's name."""
    stmt = ('initialize_profiles() and star.initialize(grid) once; then for every contribution, alone in contribution_list: '
            + ('for every component stepped out of prepare_each(self, grid): ' if each else 'prepare(self, grid), ')
            + 'path_integral(grid) unconditionally, its result kept under the contribution'
            + ('/component name' if each else ' name') + '; (grid, results) returned')
    with R.guard('5.pipe', 'ARG', site, stmt):
        f = ix.func(site)
        fl = mkflow(ix, site)
        why = []
        evs = fl.events
        pi = one(calls(fl, 'path_integral'), 'path_integral call')
        G = pi.args[0]
        sw = one([e for e in fl.of('store') if fmt(fl, e.target) == 'self.contribution_list' and e.loops], 'swap')
        outer = sw.loops[0]
        cur = fl.tab.atom('elem', (outer.iter_rf[0], outer.index))
        ip = calls(fl, 'initialize_profiles')
        si = [e for e in calls(fl, 'initialize') if e.recv_rf is not None and fl.tab.equal(e.recv_rf, code(fl, 'self._star'))]
        for lst, nm in ((ip, 'initialize_profiles()'), (si, 'star.initialize()')):
            if len(lst) != 1 or lst[0].guards or lst[0].loops or evs.index(lst[0]) > evs.index(sw):
                why.append('%s is not called exactly once, unconditionally, before the loop' % nm)
        if len(si) == 1 and not (si[0].args and fl.tab.equal(si[0].args[0], G)):
            why.append('star.initialize(%s) is not on the grid of path_integral' % ', '.join(fmt(fl, a)[:40] for a in si[0].args))
        if sw.guards or len(sw.loops) != 1:
            why.append('swap is conditional or nested')
        if pi.guards:
            why.append('path_integral is conditional on %s' % [g.text() for g in pi.guards])
        if len(pi.args) < 2 or pi.args[1].const() not in (0, False):
            pass
        if not each:
            pr = [e for e in calls(fl, 'prepare')]
            if len(pr) != 1 or pr[0].guards or pr[0].loops != (outer,) or pr[0].recv_rf is None or \
                    not fl.tab.equal(pr[0].recv_rf, cur) or len(pr[0].args) != 2 or \
                    not fl.tab.equal(pr[0].args[0], fl.tab.name('self')) or not fl.tab.equal(pr[0].args[1], G) or \
                    not (evs.index(sw) < evs.index(pr[0]) < evs.index(pi)):
                why.append('prepare(self, grid) of the swapped-in contribution does not run once, unconditionally, '
                           'between the swap and path_integral')
            if pi.loops != (outer,):
                why.append('path_integral is not called once per contribution')
            picall = fl.tab.atom('call', tuple(pi.args), extra=('fn:self.path_integral',))
            want = fl.tab.atom('tuple', (fl.tab.atom('idx', (picall, fl.tab.const(0))),
                                         fl.tab.atom('idx', (picall, fl.tab.const(1))), code(fl, 'None')))
            keyst = [e for e in fl.of('store') if e.loops == (outer,) and atom_of(fl, e.target) is not None and
                     atom_of(fl, e.target).head == 'idx' and fmt(fl, e.target) != 'self.contribution_list']
            if len(keyst) != 1 or keyst[0].guards or evs.index(keyst[0]) < evs.index(pi) or \
                    not fl.tab.equal(atom_of(fl, keyst[0].target).args[1], fl.tab.atom('getattr', (cur, 'name'))) or \
                    not fl.tab.equal(keyst[0].value, want):
                why.append('result is not stored as D[contrib.name] = (path_integral[0], path_integral[1], None)')
            res = atom_of(fl, keyst[0].target).args[0] if len(keyst) == 1 else None
        else:
            pe = [e for e in calls(fl, 'prepare_each')]
            if len(pe) != 1 or pe[0].guards or pe[0].loops != (outer,) or pe[0].recv_rf is None or \
                    not fl.tab.equal(pe[0].recv_rf, cur) or len(pe[0].args) != 2 or \
                    not fl.tab.equal(pe[0].args[1], G) or evs.index(pe[0]) < evs.index(sw):
                why.append('prepare_each(self, grid) of the swapped-in contribution is not stepped after the swap')
            if len(pi.loops) != 2 or pi.loops[0] is not outer or len(pe) != 1 or \
                    'prepare_each' not in fmt(fl, pi.loops[1].iter_rf[0]):
                why.append('path_integral is not called once per yielded component')
            else:
                inner = pi.loops[1]
                comp = fl.tab.atom('elem', (inner.iter_rf[0], inner.index))
                picall = fl.tab.atom('call', tuple(pi.args), extra=('fn:self.path_integral',))
                ap = [e for e in calls(fl, 'append') if e.loops == pi.loops]
                okap = len(ap) == 1 and not ap[0].guards and evs.index(ap[0]) > evs.index(pi)
                if okap:
                    at = atom_of(fl, ap[0].args[0])
                    okap = at is not None and at.head == 'tuple' and len(at.args) == 4 and \
                        fl.tab.equal(at.args[1], fl.tab.atom('idx', (picall, fl.tab.const(0)))) and \
                        fl.tab.equal(at.args[2], fl.tab.atom('idx', (picall, fl.tab.const(1)))) and \
                        fmt(fl, at.args[0]).startswith('elem(prepare_each(')
                if not okap:
                    why.append('component result is not appended as (name, path_integral[0], path_integral[1], None)')
                keyst = [e for e in fl.of('store') if e.loops == (outer,) and atom_of(fl, e.target) is not None and
                         atom_of(fl, e.target).head == 'idx' and fmt(fl, e.target) != 'self.contribution_list']
                if len(keyst) != 1 or keyst[0].guards or evs.index(keyst[0]) < evs.index(pi) or \
                        not fl.tab.equal(atom_of(fl, keyst[0].target).args[1], fl.tab.atom('getattr', (cur, 'name'))) or \
                        not (ap and ap[0].recv_rf is not None and fl.tab.equal(keyst[0].value, ap[0].recv_rf)):
                    why.append('component list is not stored as D[contrib.name] after the components')
                lst = atom_of(fl, ap[0].recv_rf) if ap and ap[0].recv_rf is not None else None
                if lst is None or lst.head != 'alloc':
                    why.append('component list is not a fresh list per contribution')
                else:
                    al = [e for e in fl.of('assign') if fl.tab.equal(e.value, ap[0].recv_rf)]
                    if not al or al[0].loops != (outer,) or al[0].guards:
                        why.append('component list is not re-created for every contribution')
        r = the_return(fl)
        ra = atom_of(fl, r.value)
        if ra is None or ra.head != 'tuple' or len(ra.args) != 2 or not fl.tab.equal(ra.args[0], G) or r.guards:
            why.append('returns %s' % fmt(fl, r.value)[:80])
        R.check('5.pipe', 'ARG', site, stmt, not why, key='; '.join(why), detail='; '.join(why), loc=f.loc(pi.node))


def stored_components(ix, R):
    """store_contributions: the dictionary stored for a contribution / a component is generated from THAT entry's own
    (flux, transmittance, extras) on the shared native grid - not from a value left over from the enclosing loop."""
    site = 'taurex/util/output.py::store_contributions'
    f = ix.func(site)
    fl = mkflow(ix, site)
    gs = [e for e in calls(fl, 'generate_spectrum_output') if e.loops]
    stmt = ('each stored contribution / component dictionary is generated from its own (flux, transmittance, extras) '
            'of model_contrib() / model_full_contrib() on the common native grid')
    if len(gs) < 2:
        R.error('8.store', 'ARG', site, stmt, '%d generate_spectrum_output calls inside the loops' % len(gs), loc=f.loc())
        return
    why = []
    for e in gs:
        lp = e.loops[-1]
        item = fl.tab.atom('elem', (lp.iter_rf[0], lp.index))
        # items() loops: element = (key, value); the value is the (flux, tau, extras) triple
        a = atom_of(fl, e.args[0]) if e.args else None
        if a is None or a.head != 'tuple' or len(a.args) != 4:
            R.error('8.store', 'ARG', site, stmt, 'generate_spectrum_output(%s)' % (fmt(fl, e.args[0])[:120] if e.args else ''),
                    loc=f.loc(e.node))
            return
        got = a.args[1:]
        cands = []
        if lp.kind == 'items' or 'items' in unparse(lp.iter_ast):
            val = fl.tab.atom('idx', (item, fl.tab.const(1)))
            cands.append([fl.tab.atom('idx', (val, fl.tab.const(k))) for k in range(3)])
        cands.append([fl.tab.atom('idx', (item, fl.tab.const(k))) for k in (1, 2, 3)])
        cands.append([fl.tab.atom('idx', (item, fl.tab.const(k))) for k in (0, 1, 2)])
        if not any(all(fl.tab.equal(x, y) for x, y in zip(got, c)) for c in cands):
            slots = ['flux', 'transmittance', 'extras']
            bad = []
            for c in cands:
                miss = [slots[k] for k, (x, y) in enumerate(zip(got, c)) if not fl.tab.equal(x, y)]
                if len(miss) < len(bad) or not bad:
                    bad = miss
            why.append('the %s handed to generate_spectrum_output in the loop over %s is %s, not that of the entry being stored' % (
                ' / '.join(bad), unparse(lp.iter_ast)[:50], [fmt(fl, x)[:60] for x in got]))
    R.check('8.store', 'ARG', site, stmt, not why, key='; '.join(w[:100] for w in why), detail='; '.join(why), loc=f.loc())


def unique_names(ix, R, base):
    names = {}
    for c in ix.subclasses(base, strict=True):
        if not c.module.relpath.startswith(CD):
            continue
        init = c.methods.get('__init__')
        if not init:
            continue
        for n in ast.walk(init[0].node):
            if isinstance(n, ast.Call) and unparse(n.func) == 'super().__init__':
                # Contribution.__init__(self, name): the name by position or by keyword
                a0 = n.args[0] if n.args else next((k.value for k in n.keywords if k.arg == 'name'), None)
                if isinstance(a0, ast.Constant) and isinstance(a0.value, str):
                    names.setdefault(a0.value, []).append(c)
                elif a0 is not None and not (isinstance(a0, ast.Name) and a0.id in init[0].params()):
                    # (a name handed on from the subclass's own parameter is decided at the subclass that fixes it)
                    R.error('6.names', 'TAB', c.site, 'contribution names are extracted',
                            'the name %s passes to the base class is %s: not a literal' % (c.name, unparse(a0)[:60]))
    if len(names) < 6:
        R.error('6.names', 'TAB', CD, 'contribution names are extracted', 'only %d found' % len(names))
    for nm, cl in sorted(names.items()):
        R.check('6.names', 'TAB', CD + '::' + nm,
                'contribution result key %r is used by exactly one built-in contribution' % nm,
                len(cl) == 1, key='name %s shared by %s' % (nm, sorted(c.name for c in cl)),
                detail='%r is the name of %s: model_contrib / store_contributions key results by '
                       'name, so one overwrites the other' % (nm, sorted(c.name for c in cl)),
                loc=cl[0].module.relpath)


AB = CD + 'absorption.py'
CI = CD + 'cia.py'
MUTANTS = [
    ('abs-mix-index', AB, '* gas_mix[idx_layer]', '* gas_mix[0]', '2.abs'),
    ('abs-no-reset', AB, "            else:\n                sigma_xsec[...] = 0.0\n", "            else:\n                pass\n", '2.abs'),
    ('abs-assign', AB, 'sigma_xsec[idx_layer] += xsec.opacity(', 'sigma_xsec[idx_layer] = xsec.opacity(', '2.abs'),
    ('abs-tp-swap', AB, 'xsec.opacity(temperature, pressure, wngrid)', 'xsec.opacity(pressure, temperature, wngrid)', '2.abs'),
    ('abs-prepare-assign', AB, "            sigma_xsec += sigma\n        self.sigma_xsec = sigma_xsec\n        self.debug('Final sigma", "            sigma_xsec = sigma\n        self.sigma_xsec = sigma_xsec\n        self.debug('Final sigma", '3.sum'),
    ('abs-no-expose', AB, "            self.sigma_xsec = sigma_xsec\n            self.debug('SIGMAXSEC", "            self.debug('SIGMAXSEC", '4.comp'),
    ('cia-one-partner', CI, 'chemistry.get_gas_mix_profile(cia.pairOne) * chemistry.get_gas_mix_profile(cia.pairTwo)', 'chemistry.get_gas_mix_profile(cia.pairOne)', '2.cia'),
    ('cia-no-reset', CI, "            sigma_cia[...] = 0.0\n", "", '2.cia'),
    ('cia-density', CI, 'tau[layer, wn] += sigma[k + layer, wn] * _path * _density * _density', 'tau[layer, wn] += sigma[k + layer, wn] * _path * _density', '1.k.cia.alg'),
    ('cia-guard', CI, 'if self._total_cia > 0:', 'if self._total_cia > 1:', '1.cia.guard'),
    ('ray-wrong-gas', CD + 'rayleigh.py', 'sigma[None, :] * model.chemistry.get_gas_mix_profile(gasname)[:, None]', 'sigma[None, :] * model.chemistry.get_gas_mix_profile(molecules[0])[:, None]', '2.ray'),
    ('hm-index', CD + 'hm.py', '* self._P_dyne[i] * self._hydrogen_mixratio[i] * self._electron_mixratio[i]\n            xsec_bf', '* self._P_dyne[i] * self._hydrogen_mixratio[i] * self._electron_mixratio[0]\n            xsec_bf', '2.hm'),
    ('clouds-row', CD + 'simpleclouds.py', 'tau[layer] += self.sigma_xsec[layer, :]', 'tau[layer] += self.sigma_xsec[0, :]', '1.clouds'),
    ('base-prepare-assign', CD + 'contribution.py', "            sigma_xsec += sigma\n", "            sigma_xsec = sigma\n", '3.sum'),
    ('full-contrib-retain', SM, "for name, __ in contrib.prepare_each(self, native_grid):\n                self.info(", "for name, __ in contrib.prepare_each(self, native_grid):\n                contrib_res_list.append(__)\n                self.info(", '3.alias'),
    ('no-restore', SM, "            result_dict[contrib_name] = contrib_res_list\n        self.contribution_list = full_contrib_list\n", "            result_dict[contrib_name] = contrib_res_list\n", '5.swap'),
    ('swap-wrong', SM, "            self.contribution_list = [contrib]\n            contrib.prepare(self, native_grid)", "            self.contribution_list = full_contrib_list[:1]\n            contrib.prepare(self, native_grid)", '5.swap'),
    ('new-dup-name', CD + 'rayleigh.py', "super().__init__('Rayleigh')", "super().__init__('CIA')", '6.names'),
]
EQUIVALENTS = [
    ('abs-commute', AB, 'sigma_xsec[idx_layer] += xsec.opacity(temperature, pressure, wngrid) * gas_mix[idx_layer]', 'sigma_xsec[idx_layer] += gas_mix[idx_layer] * xsec.opacity(tp[0], tp[1], wngrid)'),
    ('cia-inline', CI, 'sigma_cia[idx_layer] += _cia_xsec * cia_factor[idx_layer]', 'sigma_cia[idx_layer] += cia_factor[idx_layer] * cia.cia(temperature, wngrid)'),
    ('ray-temp', CD + 'rayleigh.py', 'final_sigma = sigma[None, :] * model.chemistry.get_gas_mix_profile(gasname)[:, None]', 'mixr = model.chemistry.get_gas_mix_profile(gasname)\n                final_sigma = mixr[:, None] * sigma[None, :]'),
]
# statements that implement an unconditional part of the documented behaviour: wrapped in an `if`
# (so that they may be skipped) each must be reported - generated and checked by the thorough tier
UNCONDITIONAL = [
    ('taurex/contributions/absorption.py', 'sigma_xsec[idx_layer] += xsec.opacity('),
    ('taurex/contributions/absorption.py', 'yield (gas, sigma_xsec)'),
    ('taurex/contributions/absorption.py', 'self.sigma_xsec = sigma_xsec', 0),
    ('taurex/contributions/absorption.py', 'self.sigma_xsec = sigma_xsec', 1),
    ('taurex/contributions/cia.py', 'sigma_cia[idx_layer] += _cia_xsec'),
    ('taurex/contributions/cia.py', 'yield (pairName, sigma_cia)'),
    ('taurex/contributions/cia.py', 'self.sigma_xsec = sigma_cia'),
    ('taurex/contributions/hm.py', 'self.sigma_xsec[i, :] = xsec_ff[:] + xsec_bf[:]'),
    ('taurex/contributions/hm.py', "yield ('HydrogenIon', self.sigma_xsec)"),
    ('taurex/contributions/contribution.py', 'sigma_xsec += sigma'),
    ('taurex/model/simplemodel.py', 'contrib.prepare(self, native_grid)', 1),
    ('taurex/model/simplemodel.py', 'all_contrib_dict[contrib.name] = (absorp, tau, None)'),
    ('taurex/model/simplemodel.py', 'contrib_res_list.append((name, absorp, tau, None))'),
    ('taurex/model/simplemodel.py', 'result_dict[contrib_name] = contrib_res_list'),
]
