"""C13 Restricting the spectral grid never changes the values computed on it."""
import ast

from sa.helpers import (the_return, mkflow, spec, code, one, calls, bind_call, param_env,
                        fmt, atom_of, unparse, walk_no_nested)
from sa.index import AnalysisError
from sa.algebra import RF, dotted
from sa.callgraph import CallGraph

FLOOR = 20
SM = 'taurex/model/simplemodel.py'
UU = 'taurex/util/util.py'
OPA = 'taurex/opacity/opacity.py'
KT = 'taurex/opacity/ktables/ktable.py'
FILES = [SM, UU, OPA, KT, 'taurex/contributions/', 'taurex/model/']
EXPLANATION = (
    'Static rule conformance for wavenumber locality (a necessary condition of '
    'grid independence): over the class-hierarchy call-graph closure of '
    'SimpleForwardModel.model, every reduction / scan / sort / interpolation '
    'applied to a wavenumber-dependent array is matched against a licence table '
    '(saturation tests, reductions over layers / quadrature points / polynomial '
    'coefficients, interpolation of tabulated data onto the requested grid, the '
    'clip itself); anything else is a violation. Plus the clip formula, the '
    'condition under which model() clips, the identity-on-native-points branch '
    'and the interpolation branch of Opacity.opacity / KTable.opacity, and the '
    'choice of the native grid.')
ASSUMPTIONS = ['array layout [layer, wavenumber(, g)] of the optical-depth and opacity buffers',
               'spectral taint is name-based inside one function (seeds: grid parameters, sigma/tau buffers)']
NOT_DECIDED = ['equality of binned restricted and binned full spectra (numeric)',
               'opacities on foreign points lie between neighbouring native values (numeric)']

SCOPE = ['taurex/model/', 'taurex/contributions/', 'taurex/data/stellar/', 'taurex/util/emission.py',
         'taurex/util/math.py', 'taurex/util/util.py', 'taurex/util/geometry.py', 'taurex/opacity/opacity.py',
         'taurex/opacity/interpolateopacity.py', 'taurex/opacity/ktables/ktable.py', 'taurex/cia/cia.py',
         'taurex/util/scattering.py', 'taurex/data/planet.py']
MIX = {'min', 'max', 'sum', 'mean', 'cumsum', 'diff', 'argsort', 'sort', 'searchsorted', 'interp', 'average',
       'nansum', 'cumprod', 'argmin', 'argmax', 'percentile', 'median', 'histogram', 'digitize', 'gradient',
       'convolve', 'trapz', 'simps', 'interp1d', 'amin', 'amax', 'std', 'var', 'sorted', 'flip', 'roll',
       'dot', 'unique', 'ptp', 'nanmin', 'nanmax', 'nanmean', 'prod', 'cumulative_trapezoid', 'correlate',
       'fft', 'ifft', 'movingaverage', 'bindown', 'norm', 'quantile', 'nanpercentile', 'nanmedian', 'matmul',
       'einsum', 'tensordot', 'trace', 'accumulate', 'reduce'}
SEEDS = {'wngrid', 'native_grid', 'lamb', 'wlgrid', 'wltmp', 'wngrid_size', 'ngrid', 'sigma_xsec', 'tau',
         'sed', 'surface_tau', 'layer_tau', 'dtau', 'absorption', 'flux_total', 'f_total', 'BB'}
LOG = {'debug', 'info', 'warning', 'error', 'critical'}

# (function qualname, callee, axis) -> (max count, reason)
LICENCE = {
    ('TransmissionModel.path_integral', 'min', None): (1, 'licensed saturation cut-off (C01.4)'),
    ('EmissionModel.evaluate_emission', 'min', None): (4, 'licensed exp(-clamp) saturation test (C02.2)'),
    ('EmissionModel.evaluate_emission_ktables', 'min', None): (4, 'licensed saturation test'),
    ('EmissionModel.evaluate_emission_ktables', 'sum', '-1'): (4, 'reduction over k-table quadrature points (last axis)'),
    ('EmissionModel.path_integral', 'sum', 'builtin'): (1, 'reduction over emission-angle quadrature points (first axis)'),
    ('EmissionModel.logBolometricFlux', 'sum', 'builtin'): (1, 'derived parameter, quadrature axis; not part of the spectrum'),
    ('EmissionModel.logBolometricFlux', 'simps', None): (1, 'bolometric integral is a derived scalar, not the spectrum'),
    ('TransmissionModel.compute_absorption', 'sum', '0'): (1, 'reduction over layers (first axis of [layer, wn])'),
    ('HydrogenIon.f', 'sum', '0'): (1, 'reduction over polynomial coefficients (leading axis added with [..., None])'),
    ('HydrogenIon.k_ff_coeff', 'sum', '0'): (1, 'reduction over polynomial coefficients'),
    ('HydrogenIon.k_ff', 'sum', '0'): (2, 'reduction over polynomial coefficients'),
    ('CIA.cia', 'interp', None): (1, 'tabulated CIA data interpolated onto the requested points (pointwise in the request)'),
    ('PhoenixStar.initialize', 'interp', None): (1, 'stellar model spectrum interpolated onto the requested points'),
    ('Opacity.opacity', 'interp', None): (1, "property's own licence: opacities interpolated onto foreign points"),
    ('Opacity.opacity', 'min', None): (1, 'selection of the native range covered by the request'),
    ('Opacity.opacity', 'max', None): (1, 'selection of the native range covered by the request'),
    ('KTable.opacity', 'interp1d', '0'): (1, "property's own licence (k-tables)"),
    ('KTable.opacity', 'min', None): (1, 'selection of the native range'),
    ('KTable.opacity', 'max', None): (1, 'selection of the native range'),
    ('clip_native_to_wngrid', 'min', None): (1, 'the clip itself: observation range'),
    ('clip_native_to_wngrid', 'max', None): (3, 'the clip itself: observation range and widest bin'),
    ('compute_bin_edges', 'diff', None): (2, 'bin widths of the observation grid (used by the clip only)'),
    ('SimpleForwardModel.compute_error', 'bindown', None): (1, 'post-processing binning of an already computed spectrum'),
}


def _target_names(t):
    if isinstance(t, ast.Name):
        return [t.id]
    if isinstance(t, (ast.Tuple, ast.List)):
        return [x for e in t.elts for x in _target_names(e)]
    if isinstance(t, ast.Subscript):
        return _target_names(t.value)
    if isinstance(t, ast.Starred):
        return _target_names(t.value)
    return []   # attribute targets: tracked through the attribute list in `mentions`


def spectral_names(f):
    names = set()
    for a in f.node.args.args:
        if a.arg in SEEDS:
            names.add(a.arg)
    changed = True

    def mentions(e):
        for n in ast.walk(e):
            if isinstance(n, ast.Name) and (n.id in names or n.id in SEEDS):
                return True
            if isinstance(n, ast.Attribute) and n.attr in ('sigma_xsec', 'sed', '_ngrid', 'wavenumberGrid',
                                                           '_f_res', 'spectralEmissionDensity'):
                return True
        return False
    while changed:
        changed = False
        for n in walk_no_nested(f.node):
            if isinstance(n, (ast.Assign, ast.AugAssign)) and mentions(n.value):
                tg = n.targets if isinstance(n, ast.Assign) else [n.target]
                for t in tg:
                    for x in _target_names(t):
                        if x not in names:
                            names.add(x)
                            changed = True
            if isinstance(n, ast.For) and mentions(n.iter):
                for x in ast.walk(n.target):
                    if isinstance(x, ast.Name) and x.id not in names:
                        names.add(x.id)
                        changed = True
    return mentions


def _key_by_size(call):
    for k in call.keywords:
        if k.arg == 'key':
            if isinstance(k.value, ast.Name) and k.value.id == 'len':
                return True
            if isinstance(k.value, ast.Lambda) and len(k.value.args.args) == 1:
                p = k.value.args.args[0].arg
                body = unparse(k.value.body)
                return body in ('%s.shape[0]' % p, 'len(%s)' % p, '%s.size' % p)
    return False


def mixing_sites(f):
    """[(call node, callee, axis repr, operand asts)] with a spectral operand."""
    mentions = spectral_names(f)
    out = []
    logs = set()
    for n in walk_no_nested(f.node):
        if isinstance(n, ast.Call) and isinstance(n.func, ast.Attribute) and n.func.attr in LOG:
            for x in ast.walk(n):
                logs.add(id(x))
    for n in walk_no_nested(f.node):
        if not isinstance(n, ast.Call) or id(n) in logs:
            continue
        d = dotted(n.func)
        nm = d.split('.')[-1] if d else (n.func.attr if isinstance(n.func, ast.Attribute) else None)
        if nm not in MIX:
            continue
        operands = list(n.args)
        builtin = isinstance(n.func, ast.Name)
        if isinstance(n.func, ast.Attribute) and (d is None or d.split('.')[0] not in ('np', 'numpy', 'scipy', 'math')):
            operands = [n.func.value] + operands
        if builtin and nm in ('min', 'max') and len(n.args) >= 2:
            continue  # scalar min/max of several values
        if builtin and nm in ('min', 'max') and len(n.args) == 1 and _key_by_size(n):
            continue  # picks one of several arrays by its size: the arrays themselves are not combined
        if not any(mentions(o) for o in operands):
            continue
        axis = None
        for k in n.keywords:
            if k.arg == 'axis':
                axis = unparse(k.value)
        if builtin and nm == 'sum':
            axis = 'builtin'
        out.append((n, nm, axis))
    return out


def run(ix, R):
    cg = CallGraph(ix, SCOPE, family={'contribution_list': 'Contribution'})
    roots = [ix.func(SM + '::SimpleForwardModel.model')]
    reach = cg.reach(roots)
    R.info['closure_functions'] = len(reach)
    if len(reach) < 80:
        R.error('1.closure', 'EFF', SM, 'the model call-graph closure is found', 'only %d functions' % len(reach))
    used = {}
    nsites = 0
    from sa.helpers import known_functions
    known = known_functions()

    def owner(f):
        # a function that is new to the reviewed tree (an extracted helper) is licensed as part of the
        # reviewed function it is reached from
        cur = f
        while cur is not None and known is not None and cur.site not in known:
            cur = reach.get(id(cur.node), (None, None))[1]
        return cur or f
    for k, (f, par) in sorted(reach.items(), key=lambda kv: kv[1][0].site):
        for node, nm, axis in mixing_sites(f):
            nsites += 1
            key = (owner(f).qualname, nm, axis)
            lic = LICENCE.get(key)
            used[key] = used.get(key, 0) + 1
            if lic is not None and used[key] <= lic[0]:
                R.ok('1.local', 'EFF', f.site, '%s(axis=%s) on spectral data is licensed: %s' % (nm, axis, lic[1]),
                     loc=f.loc(node))
            else:
                R.fail('1.local', 'EFF', f.site,
                       'no reduction / scan / sort / interpolation along the wavenumber axis of a wavenumber-dependent '
                       'array outside the licence table',
                       '%s(axis=%s): %s' % (nm, axis, unparse(node)[:80]),
                       '`%s` mixes values of different wavenumbers (reached from model() via %s): the value at one '
                       'wavenumber then depends on which other wavenumbers are computed' % (
                           unparse(node)[:100], cg.path_to(reach, f)), f.loc(node))
    R.info['spectral_mixing_sites'] = nsites
    if nsites < 20:
        R.error('1.sites', 'EFF', SM, 'the confirmed licensed sites are found', 'only %d' % nsites)
    # ---- clip
    site = UU + '::clip_native_to_wngrid'
    with R.guard('2.clip', 'ALG', site, 'clip'):
        f = ix.func(site)
        fl = mkflow(ix, site)
        pe = param_env(fl, f, ['n', 'w'])
        r = the_return(fl)
        b = dict(pe, W=spec(fl, 'max(compute_bin_edges(w)[-1])', pe))
        lo = spec(fl, 'n >= min(w) - W', b)
        hi = spec(fl, 'n <= max(w) + W', b)
        want = fl.tab.atom('idx', (pe['n'], fl.tab.atom('binop', (lo, hi), extra='BitAnd')))
        R.check('2.clip', 'ALG', site,
                'clip keeps native points in [min(obs) - W, max(obs) + W], W = widest mid-point bin of the observation grid',
                fl.tab.equal(r.value, want), key=fmt(fl, r.value), detail=fmt(fl, r.value), loc=f.loc(r.node))
    site = SM + '::SimpleForwardModel.model'
    with R.guard('2.when', 'DOM', site, 'when to clip'):
        f = ix.func(site)
        fl = mkflow(ix, site)
        pe = param_env(fl, f, ['w', 'cut'])
        pi = one(calls(fl, 'path_integral'), 'path_integral call')
        g = pi.args[0]
        want = spec(fl, '_guard(_and(w is not None, cut), clip_native_to_wngrid(self.nativeWavenumberGrid, w), self.nativeWavenumberGrid)', pe)
        R.check('2.when', 'DOM', site,
                'the grid is clipped only when an observation grid is given and cutoff_grid is true; otherwise the full native grid',
                fl.tab.equal(g, want), key=fmt(fl, g), detail=fmt(fl, g), loc=f.loc(pi.node))
    from rules.common import model_pipeline
    with R.guard('2.pipe', 'ARG', site, 'one grid'):
        model_pipeline(ix, R, '2.pipe')
    # ---- opacity on native points
    for site, interp_name in ((OPA + '::Opacity.opacity', 'interp'), (KT + '::KTable.opacity', 'interp1d')):
        with R.guard('3.native', 'DOM', site, 'native identity'):
            f = ix.func(site)
            fl = mkflow(ix, site)
            pe = param_env(fl, f, ['T', 'P', 'w'])
            rets = fl.of('return')
            co = one(calls(fl, 'compute_opacity'), 'compute_opacity call')
            filt = co.args[2]
            sel = spec(fl, 'where((self.wavenumberGrid >= min(w)) & (self.wavenumberGrid <= max(w)))[0]', pe)
            why = []
            # filter = slice(None) when no grid, else the native points inside the request
            fa = atom_of(fl, filt)
            if fa is None or fa.head != 'guard' or not (fl.tab.equal(fa.args[1], sel) or fl.tab.equal(fa.args[2], sel)):
                why.append('native selection is %s' % fmt(fl, filt))
            if not (fl.tab.equal(co.args[0], pe['T']) and fl.tab.equal(co.args[1], pe['P'])):
                why.append('compute_opacity(%s)' % [fmt(fl, a) for a in co.args])
            # the native opacities: whatever name the result of compute_opacity(...) is bound to
            cov = fl.tab.atom('call', tuple(co.args), extra=('fn:self.compute_opacity',))
            orig = [e for e in fl.of('assign') if e.value is not None and (fl.tab.equal(e.value, cov) or (
                e.value.single_atom() is not None and e.value.mentions(
                    lambda a: a.head == 'call' and a.extra and a.extra[0] == 'fn:self.compute_opacity') and
                atom_of(fl, e.value).head == 'mcall' and atom_of(fl, e.value).extra[0] == 'fn:reshape'))]
            o = one(orig, 'binding of the compute_opacity result')
            same = [r for r in rets if fl.tab.equal(r.value, o.value) or
                    (isinstance(r.value_ast, ast.Name) and r.value_ast.id == o.name)]
            # every path that returns the native opacities unchanged must be licensed by
            # `no grid given` or by an element-wise comparison of the selected native points with the request
            conds = [spec(fl, '_or(w is None, array_equal(self.wavenumberGrid.take(F), w))', dict(pe, F=filt)),
                     spec(fl, 'w is None', pe),
                     spec(fl, 'array_equal(self.wavenumberGrid.take(F), w)', dict(pe, F=filt)),
                     spec(fl, 'array_equal(self.wavenumberGrid[F], w)', dict(pe, F=filt))]
            if not same:
                why.append('no path returns the native opacities unchanged')
            for s in same:
                g = [x for x in s.guards if x.positive]
                lic = bool(g) and any(fl.tab.equal(g[-1].rf, c) for c in conds)
                if not lic:
                    why.append('native opacities returned unchanged under %s, which does not compare every selected '
                               'native point with the request' % [x.text() for x in s.guards])
            R.check('3.native', 'DOM', site,
                    'when the request equals the selected native points (or no grid is given) the value returned is '
                    'compute_opacity(...) itself',
                    not why, key='; '.join(why), detail='; '.join(why), loc=f.loc())
            other = [r for r in rets if r not in same]
            if len(other) != 1:
                R.fail('3.interp', 'ALG', site, 'otherwise the value is interpolated over exactly the selected native points',
                       '%d interpolation returns' % len(other), 'returns: %s' % [unparse(r.value_ast) for r in other], f.loc())
                continue
            r2 = other[0]
            ok = False
            if interp_name == 'interp':
                ok = fl.tab.equal(r2.value, spec(fl, 'interp(w, self.wavenumberGrid[F], O)', dict(pe, F=filt, O=o.value)))
            else:
                ic = one(calls(fl, 'interp1d'), 'interp1d call')
                ok = fl.tab.equal(ic.args[0], spec(fl, 'self.wavenumberGrid[F]', {'F': filt})) and \
                    fl.tab.equal(ic.args[1], o.value) and ic.kw.get('axis') is not None and ic.kw['axis'].const() == 0 \
                    and r2.value is not None and any(
                        fl.tab.atoms[a].head == 'callexpr' and 'interp1d' in fl.tab.fmt_atom(a)[:40] and
                        len(fl.tab.atoms[a].args) == 2 and fl.tab.equal(fl.tab.atoms[a].args[1], pe['w'])
                        for a in r2.value.all_atoms())
            R.check('3.interp', 'ALG', site,
                    'otherwise the value is interpolated over exactly the selected native points and their opacities',
                    ok, key=fmt(fl, r2.value)[:160], detail=fmt(fl, r2.value)[:300], loc=f.loc(r2.node))
    # ---- native grid choice
    site = SM + '::SimpleForwardModel.nativeWavenumberGrid'
    with R.guard('4.native', 'DOM', site, 'native grid'):
        f = ix.func(site)
        from sa.helpers import need
        from sa.pattern import find as _find
        stmt4 = 'the native grid is the largest wavenumber grid among the active molecules (independent of the requested grid)'
        head = ['V_ag = self.chemistry.activeGases', 'V_grids = [V_c[V_g].wavenumberGrid for V_g in V_ag]']
        alt = None
        for sel in ('return max(V_grids, key=lambda V_x: V_x.shape[0])', 'return max(V_grids, key=lambda V_x: len(V_x))',
                    'return max(V_grids, key=len)'):
            alt = alt or _find(f.node, head + [sel])[0]
        small = None
        for sel in ('return min(V_grids, key=lambda V_x: V_x.shape[0])', 'return min(V_grids, key=len)'):
            small = small or _find(f.node, head + [sel])[0]
        if small is not None:
            R.fail('4.native', 'DOM', site, stmt4, 'the smallest grid is selected', 'min(..., key=size) picks the grid with '
                   'the fewest points: molecules with finer grids are then interpolated down', f.loc())
        elif alt is not None:
            R.ok('4.native', 'DOM', site, stmt4, loc=f.loc())
        else:
          need(R, '4.native', 'DOM', site,
             'the native grid is the largest wavenumber grid among the active molecules (independent of the requested grid)', f,
             ['V_ag = self.chemistry.activeGases', 'V_grids = [V_c[V_g].wavenumberGrid for V_g in V_ag]',
              '''
for V_wn in V_grids:
    ...
    if V_wn.shape[0] > V_cur.shape[0]:
        V_cur = V_wn
''', 'return V_cur'])
        ps = f.params()
        R.check('4.native.indep', 'EFF', site, 'the native grid does not depend on the requested grid',
                ps == ['self'], key=str(ps), detail='parameters %s' % ps, loc=f.loc())


TR = 'taurex/model/transmission.py'
EM = 'taurex/model/emission.py'
MUTANTS = [
    ('norm-max', TR, 'return ((pradius ** 2.0 + integral) / sradius ** 2, tau)', 'return ((pradius ** 2.0 + integral / integral.max() * integral.max()) / sradius ** 2, tau)', '1.local'),
    ('mean-subtract', TR, 'tau = np.exp(-tau)', 'tau = np.exp(-tau + 0.0 * np.mean(tau, axis=1)[:, None])', '1.local'),
    ('cumsum-tau', EM, "flux_total = 2.0 * np.pi * sum(I * (_w / _mu))\n        self.debug('flux_total", "flux_total = 2.0 * np.pi * sum(I * (_w / _mu))\n        flux_total = flux_total + 0.0 * np.cumsum(flux_total, axis=-1)\n        self.debug('flux_total", '1.local'),
    ('smooth-sigma', 'taurex/contributions/rayleigh.py', 'final_sigma = sigma[None, :] * model.chemistry.get_gas_mix_profile(gasname)[:, None]', 'final_sigma = np.convolve(sigma, np.ones(1), mode=\'same\')[None, :] * model.chemistry.get_gas_mix_profile(gasname)[:, None]', '1.local'),
    ('sort-grid', 'taurex/contributions/leemie.py', 'wltmp = 10000 / wngrid', 'wltmp = np.sort(10000 / wngrid)', '1.local'),
    ('cutoff-all', TR, 'if tau[layer].min() > 10:', 'if tau[layer].min() > 10 or tau[layer].mean() > 50:', '1.local'),
    ('clip-narrow', UU, 'wn_min = min_wngrid - wnwidths.max()', 'wn_min = min_wngrid', '2.clip'),
    ('clip-always', SM, "        native_grid = self.nativeWavenumberGrid\n        if wngrid is not None and cutoff_grid:\n            native_grid = clip_native_to_wngrid(native_grid, wngrid)\n        self._star.initialize(native_grid)\n        for contrib in self.contribution_list:\n            contrib.prepare(self, native_grid)\n        absorp, tau = self.path_integral(native_grid, False)\n        return (native_grid, absorp, tau, None)", "        native_grid = self.nativeWavenumberGrid\n        if wngrid is not None:\n            native_grid = clip_native_to_wngrid(native_grid, wngrid)\n        self._star.initialize(native_grid)\n        for contrib in self.contribution_list:\n            contrib.prepare(self, native_grid)\n        absorp, tau = self.path_integral(native_grid, False)\n        return (native_grid, absorp, tau, None)", '2.when'),
    ('native-always-interp', OPA, 'if wngrid is None or np.array_equal(self.wavenumberGrid.take(wngrid_filter), wngrid):', 'if wngrid is None:', '3.native'),
    ('interp-full-grid', OPA, 'return np.interp(wngrid, self.wavenumberGrid[wngrid_filter], orig)', 'return np.interp(wngrid, self.wavenumberGrid, orig)', '3.interp'),
    ('native-depends-request', SM, 'if wn.shape[0] > current_grid.shape[0]:', 'if wn.shape[0] < current_grid.shape[0]:', '4.native'),
]
EQUIVALENTS = [
    ('native-rename', SM, r're:\bcurrent_grid\b', 'best'),
    ('clip-temp', UU, "    wn_min = min_wngrid - wnwidths.max()\n    wn_max = max_wngrid + wnwidths.max()", "    widest = wnwidths.max()\n    wn_min = min_wngrid - widest\n    wn_max = widest + max_wngrid"),
]
