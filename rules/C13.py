"""C13 Restricting the spectral grid never changes the values computed on it."""
import ast

from sa.helpers import (the_return, mkflow, spec, code, one, calls, bind_call, param_env,
                        fmt, atom_of, unparse, walk_no_nested)
from sa.index import AnalysisError
from sa.algebra import RF, dotted
from sa.callgraph import CallGraph

FLOOR = 20
SM = 'taurex/model/simplemodel.py'
UU = 'taurex/util/util.py'
OPA = 'taurex/opacity/opacity.py'
KT = 'taurex/opacity/ktables/ktable.py'
FILES = [SM, UU, OPA, KT, 'taurex/contributions/', 'taurex/model/']
EXPLANATION = (
    'Static rule conformance for wavenumber locality (a necessary condition of '
    'grid independence): over the class-hierarchy call-graph closure of '
    'SimpleForwardModel.model, every reduction / scan / sort / interpolation '
    'applied to a wavenumber-dependent array is matched against a licence table '
    '(saturation tests, reductions over layers / quadrature points / polynomial '
    'coefficients, interpolation of tabulated data onto the requested grid, the '
    'clip itself); anything else is a violation. Plus the clip formula, the '
    'condition under which model() clips, the identity-on-native-points branch '
    'and the interpolation branch of Opacity.opacity / KTable.opacity, and the '
    'choice of the native grid.')
ASSUMPTIONS = ['array layout [layer, wavenumber(, g)] of the optical-depth and opacity buffers',
               'spectral taint is name-based inside one function (seeds: grid parameters, sigma/tau buffers)']
NOT_DECIDED = ['equality of binned restricted and binned full spectra (numeric)',
               'opacities on foreign points lie between neighbouring native values (numeric)']

SCOPE = ['taurex/model/', 'taurex/contributions/', 'taurex/data/stellar/', 'taurex/util/emission.py',
         'taurex/util/math.py', 'taurex/util/util.py', 'taurex/util/geometry.py', 'taurex/opacity/opacity.py',
         'taurex/opacity/interpolateopacity.py', 'taurex/opacity/ktables/ktable.py', 'taurex/cia/cia.py',
         'taurex/util/scattering.py', 'taurex/data/planet.py']
MIX = {'min', 'max', 'sum', 'mean', 'cumsum', 'diff', 'argsort', 'sort', 'searchsorted', 'interp', 'average',
       'nansum', 'cumprod', 'argmin', 'argmax', 'percentile', 'median', 'histogram', 'digitize', 'gradient',
       'convolve', 'trapz', 'simps', 'interp1d', 'amin', 'amax', 'std', 'var', 'sorted', 'flip', 'roll',
       'dot', 'unique', 'ptp', 'nanmin', 'nanmax', 'nanmean', 'prod', 'cumulative_trapezoid', 'correlate',
       'fft', 'ifft', 'movingaverage', 'bindown', 'norm', 'quantile', 'nanpercentile', 'nanmedian', 'matmul',
       'einsum', 'tensordot', 'trace', 'accumulate', 'reduce'}
SEEDS = {'wngrid', 'native_grid', 'lamb', 'wlgrid', 'wltmp', 'wngrid_size', 'ngrid', 'sigma_xsec', 'tau',
         'sed', 'surface_tau', 'layer_tau', 'dtau', 'absorption', 'flux_total', 'f_total', 'BB'}
LOG = {'debug', 'info', 'warning', 'error', 'critical'}

# (function qualname, callee, axis) -> (max count, reason)
LICENCE = {
    ('TransmissionModel.path_integral', 'min', None): (1, 'licensed saturation cut-off (C01.4)'),
    ('EmissionModel.evaluate_emission', 'min', None): (4, 'licensed exp(-clamp) saturation test (C02.2)'),
    ('EmissionModel.evaluate_emission_ktables', 'min', None): (4, 'licensed saturation test'),
    ('EmissionModel.evaluate_emission_ktables', 'sum', '-1'): (4, 'reduction over k-table quadrature points (last axis)'),
    ('EmissionModel.path_integral', 'sum', 'builtin'): (1, 'reduction over emission-angle quadrature points (first axis)'),
    ('EmissionModel.logBolometricFlux', 'sum', 'builtin'): (1, 'derived parameter, quadrature axis; not part of the spectrum'),
    ('EmissionModel.logBolometricFlux', 'simps', None): (1, 'bolometric integral is a derived scalar, not the spectrum'),
    ('TransmissionModel.compute_absorption', 'sum', '0'): (1, 'reduction over layers (first axis of [layer, wn])'),
    ('HydrogenIon.f', 'sum', '0'): (1, 'reduction over polynomial coefficients (leading axis added with [..., None])'),
    ('HydrogenIon.k_ff_coeff', 'sum', '0'): (1, 'reduction over polynomial coefficients'),
    ('HydrogenIon.k_ff', 'sum', '0'): (2, 'reduction over polynomial coefficients'),
    ('CIA.cia', 'interp', None): (1, 'tabulated CIA data interpolated onto the requested points (pointwise in the request)'),
    ('PhoenixStar.initialize', 'interp', None): (1, 'stellar model spectrum interpolated onto the requested points'),
    ('Opacity.opacity', 'interp', None): (1, "property's own licence: opacities interpolated onto foreign points"),
    ('Opacity.opacity', 'min', None): (1, 'selection of the native range covered by the request'),
    ('Opacity.opacity', 'max', None): (1, 'selection of the native range covered by the request'),
    ('KTable.opacity', 'interp1d', '0'): (1, "property's own licence (k-tables)"),
    ('KTable.opacity', 'min', None): (1, 'selection of the native range'),
    ('KTable.opacity', 'max', None): (1, 'selection of the native range'),
    ('clip_native_to_wngrid', 'min', None): (1, 'the clip itself: observation range'),
    ('clip_native_to_wngrid', 'max', None): (3, 'the clip itself: observation range and widest bin'),
    ('compute_bin_edges', 'diff', None): (2, 'bin widths of the observation grid (used by the clip only)'),
    ('SimpleForwardModel.compute_error', 'bindown', None): (1, 'post-processing binning of an already computed spectrum'),
}


def _target_names(t):
    if isinstance(t, ast.Name):
        return [t.id]
    if isinstance(t, (ast.Tuple, ast.List)):
        return [x for e in t.elts for x in _target_names(e)]
    if isinstance(t, ast.Subscript):
        return _target_names(t.value)
    if isinstance(t, ast.Starred):
        return _target_names(t.value)
    return []   # attribute targets: tracked through the attribute list in `mentions`


def spectral_names(f):
    names = set()
    for a in f.node.args.args:
        if a.arg in SEEDS:
            names.add(a.arg)
    changed = True

    def mentions(e, extra=frozenset()):
        # the size of a spectral array (x.shape[k], x.shape, x.size, len(x)) is a number about the grid, not a value on
        # it; a comprehension is spectral when its element is (its variables are spectral when they walk spectral data)
        if (isinstance(e, ast.Attribute) and e.attr in ('shape', 'size', 'ndim')) or \
                (isinstance(e, ast.Call) and isinstance(e.func, ast.Name) and e.func.id == 'len' and len(e.args) == 1):
            return False
        if isinstance(e, (ast.ListComp, ast.GeneratorExp, ast.SetComp, ast.DictComp)):
            ex = set(extra)
            for g in e.generators:
                if mentions(g.iter, frozenset(ex)):
                    ex |= {x.id for x in ast.walk(g.target) if isinstance(x, ast.Name)}
            elts = [e.key, e.value] if isinstance(e, ast.DictComp) else [e.elt]
            return any(mentions(x, frozenset(ex)) for x in elts)
        if isinstance(e, ast.Name):
            return e.id in names or e.id in SEEDS or e.id in extra
        if isinstance(e, ast.Attribute) and e.attr in ('sigma_xsec', 'sed', '_ngrid', 'wavenumberGrid',
                                                       '_f_res', 'spectralEmissionDensity'):
            return True
        return any(mentions(c, extra) for c in ast.iter_child_nodes(e))
    while changed:
        changed = False
        for n in walk_no_nested(f.node):
            if isinstance(n, (ast.Assign, ast.AugAssign)) and mentions(n.value):
                tg = n.targets if isinstance(n, ast.Assign) else [n.target]
                for t in tg:
                    for x in _target_names(t):
                        if x not in names:
                            names.add(x)
                            changed = True
            if isinstance(n, ast.For) and mentions(n.iter):
                for x in ast.walk(n.target):
                    if isinstance(x, ast.Name) and x.id not in names:
                        names.add(x.id)
                        changed = True
    return mentions


def _key_by_size(call):
    for k in call.keywords:
        if k.arg == 'key':
            if isinstance(k.value, ast.Name) and k.value.id == 'len':
                return True
            if isinstance(k.value, ast.Lambda) and len(k.value.args.args) == 1:
                p = k.value.args.args[0].arg
                body = unparse(k.value.body)
                return body in ('%s.shape[0]' % p, 'len(%s)' % p, '%s.size' % p)
    return False


def mixing_sites(f):
    """[(call node, callee, axis repr, operand asts)] with a spectral operand."""
    mentions = spectral_names(f)
    out = []
    logs = set()
    for n in walk_no_nested(f.node):
        if isinstance(n, ast.Call) and isinstance(n.func, ast.Attribute) and n.func.attr in LOG:
            for x in ast.walk(n):
                logs.add(id(x))
        if isinstance(n, ast.Raise):
            # the text of an exception: computed only when the call fails anyway, no returned value depends on it
            for x in ast.walk(n):
                logs.add(id(x))
    for n in walk_no_nested(f.node):
        if not isinstance(n, ast.Call) or id(n) in logs:
            continue
        d = dotted(n.func)
        nm = d.split('.')[-1] if d else (n.func.attr if isinstance(n.func, ast.Attribute) else None)
        if nm not in MIX:
            continue
        operands = list(n.args)
        builtin = isinstance(n.func, ast.Name)
        if isinstance(n.func, ast.Attribute) and (d is None or d.split('.')[0] not in ('np', 'numpy', 'scipy', 'math')):
            operands = [n.func.value] + operands
        if builtin and nm in ('min', 'max') and len(n.args) >= 2:
            continue  # scalar min/max of several values
        if builtin and nm in ('min', 'max') and len(n.args) == 1 and _key_by_size(n):
            continue  # picks one of several arrays by its size: the arrays themselves are not combined
        if not any(mentions(o) for o in operands):
            continue
        axis = None
        for k in n.keywords:
            if k.arg == 'axis':
                axis = unparse(k.value)
        if builtin and nm == 'sum':
            axis = 'builtin'
        out.append((n, nm, axis))
    return out


def run(ix, R):
    cg = CallGraph(ix, SCOPE, family={'contribution_list': 'Contribution'})
    roots = [ix.func(SM + '::SimpleForwardModel.model')]
    reach = cg.reach(roots)
    R.info['closure_functions'] = len(reach)
    if len(reach) < 80:
        R.error('1.closure', 'EFF', SM, 'the model call-graph closure is found', 'only %d functions' % len(reach))
    used = {}
    nsites = 0
    from sa.helpers import known_functions
    known = known_functions()

    def owner(f):
        # a function that is new to the reviewed tree (an extracted helper) is licensed as part of the
        # reviewed function it is reached from
        cur = f
        while cur is not None and known is not None and cur.site not in known:
            cur = reach.get(id(cur.node), (None, None))[1]
        return cur or f
    for k, (f, par) in sorted(reach.items(), key=lambda kv: kv[1][0].site):
        for node, nm, axis in mixing_sites(f):
            nsites += 1
            key = (owner(f).qualname, nm, axis)
            lic = LICENCE.get(key)
            if lic is None and nm == 'sum' and axis in ('0', 'builtin'):
                # the builtin sum(x) adds along the first axis: the same reduction as np.sum(x, axis=0)
                key = (owner(f).qualname, nm, 'builtin' if axis == '0' else '0')
                lic = LICENCE.get(key)
            used[key] = used.get(key, 0) + 1
            if lic is not None and used[key] <= lic[0]:
                R.ok('1.local', 'EFF', f.site, '%s(axis=%s) on spectral data is licensed: %s' % (nm, axis, lic[1]),
                     loc=f.loc(node))
            else:
                R.fail('1.local', 'EFF', f.site,
                       'no reduction / scan / sort / interpolation along the wavenumber axis of a wavenumber-dependent '
                       'array outside the licence table',
                       '%s(axis=%s): %s' % (nm, axis, unparse(node)[:80]),
                       '`%s` mixes values of different wavenumbers (reached from model() via %s): the value at one '
                       'wavenumber then depends on which other wavenumbers are computed' % (
                           unparse(node)[:100], cg.path_to(reach, f)), f.loc(node))
    R.info['spectral_mixing_sites'] = nsites
    if nsites < 20:
        R.error('1.sites', 'EFF', SM, 'the confirmed licensed sites are found', 'only %d' % nsites)
    # ---- clip
    site = UU + '::clip_native_to_wngrid'
    with R.guard('2.clip', 'ALG', site, 'clip'):
        f = ix.func(site)
        fl = mkflow(ix, site)
        pe = param_env(fl, f, ['n', 'w'])
        r = the_return(fl)
        b = dict(pe, W=spec(fl, 'max(compute_bin_edges(w)[-1])', pe))
        lo = spec(fl, 'n >= min(w) - W', b)
        hi = spec(fl, 'n <= max(w) + W', b)
        want = fl.tab.atom('idx', (pe['n'], fl.tab.atom('binop', (lo, hi), extra='BitAnd')))
        R.check('2.clip', 'ALG', site,
                'clip keeps native points in [min(obs) - W, max(obs) + W], W = widest mid-point bin of the observation grid',
                fl.tab.equal(r.value, want), key=fmt(fl, r.value), detail=fmt(fl, r.value), loc=f.loc(r.node))
    site = SM + '::SimpleForwardModel.model'
    with R.guard('2.when', 'DOM', site, 'when to clip'):
        f = ix.func(site)
        fl = mkflow(ix, site)
        pe = param_env(fl, f, ['w', 'cut'])
        pi = one(calls(fl, 'path_integral'), 'path_integral call')
        g = pi.args[0]
        want = spec(fl, '_guard(_and(w is not None, cut), clip_native_to_wngrid(self.nativeWavenumberGrid, w), self.nativeWavenumberGrid)', pe)
        R.check('2.when', 'DOM', site,
                'the grid is clipped only when an observation grid is given and cutoff_grid is true; otherwise the full native grid',
                fl.tab.equal(g, want), key=fmt(fl, g), detail=fmt(fl, g), loc=f.loc(pi.node))
    from rules.common import model_pipeline
    with R.guard('2.pipe', 'ARG', site, 'one grid'):
        model_pipeline(ix, R, '2.pipe')
    # ---- opacity on native points
    for site, interp_name in ((OPA + '::Opacity.opacity', 'interp'), (KT + '::KTable.opacity', 'interp1d')):
        with R.guard('3.native', 'DOM', site, 'native identity'):
            from sa.helpers import resolve_guards, has_guard
            f = ix.func(site)
            fl = mkflow(ix, site)
            pe = param_env(fl, f, ['T', 'P', 'w'])
            v = the_return(fl).value
            if v is None:
                raise AnalysisError('no value returned')
            tab = fl.tab
            F = spec(fl, 'flatnonzero((self.wavenumberGrid >= min(w)) & (self.wavenumberGrid <= max(w)))', pe)
            b = dict(pe, F=F)
            shape = '.reshape(-1, len(self.weights))' if interp_name == 'interp1d' else ''
            c_none, f_none = tab.canon_cond(spec(fl, 'w is None', pe))
            eqs = [tab.canon_cond(spec(fl, t_, b))[0] for t_ in (
                'array_equal(self.wavenumberGrid.take(F), w)', 'array_equal(self.wavenumberGrid[F], w)',
                'array_equal(w, self.wavenumberGrid.take(F))', 'array_equal(w, self.wavenumberGrid[F])')]

            nonempty = [tab.canon_cond(spec(fl, t_, b))[0] for t_ in (
                'len(F) != 0', 'len(self.wavenumberGrid[F]) != 0', 'len(self.wavenumberGrid.take(F)) != 0')]
            unknown = []

            def scenario(no_grid, same, assume=None):
                def decide(c):
                    c, flip = tab.canon_cond(c)
                    r = None
                    if tab.equal(c, c_none):
                        r = no_grid != f_none
                    elif not no_grid and any(tab.equal(c, e_) for e_ in eqs):
                        r = same
                    elif not no_grid and any(tab.equal(c, e_) for e_ in nonempty):
                        # "some native point lies in the requested range": the case all three scenarios are about
                        # (with none selected the reviewed code fails; what a change makes of that case is not this rule's)
                        r = True
                    elif assume is not None and any(tab.equal(c, u_) for u_ in assume):
                        r = assume[[k_ for k_ in assume if tab.equal(c, k_)][0]]
                    else:
                        at = atom_of(fl, c)
                        if at is not None and at.head == 'bool' and at.extra in ('And', 'Or'):
                            vals = [decide(x) for x in at.args]
                            if at.extra == 'Or':
                                r = True if any(x is True for x in vals) else (False if all(x is False for x in vals) else None)
                            else:
                                r = False if any(x is False for x in vals) else (True if all(x is True for x in vals) else None)
                        elif at is not None and at.head == 'unop' and at.extra == 'Not':
                            x = decide(at.args[0])
                            r = None if x is None else (not x)
                        elif at is not None and at.head == 'guard':
                            # a selection used as a condition (the value of an inlined predicate with several returns)
                            x = resolve_guards(fl, c, decide)
                            xa = atom_of(fl, x)
                            if xa is not None and xa.head == 'const' and xa.args[0] in ('True', 'False'):
                                r = xa.args[0] == 'True'
                            elif xa is not None and xa.head != 'guard':
                                r = decide(x)
                    if r is None:
                        at = atom_of(fl, c)
                        if not (at is not None and at.head in ('bool', 'unop', 'guard')) and not any(tab.equal(c, u_) for u_ in unknown):
                            unknown.append(c)
                        return None
                    return (not r) if flip else r
                return decide

            def settle(dec):
                # the selection inside a condition may itself be a selection on `w is None`: settle inner guards first
                x = v
                for _ in range(3):
                    x = resolve_guards(fl, x, dec)
                return x
            why, und = [], []
            v1 = settle(scenario(True, None))
            v2 = settle(scenario(False, True))
            v3 = settle(scenario(False, False))
            del unknown[:]
            resolve_guards(fl, v3, scenario(False, False))      # collects the tests that are left in the settled expression
            want1 = spec(fl, 'self.compute_opacity(T, P, slice(None))' + shape, b)
            want2 = spec(fl, 'self.compute_opacity(T, P, F)' + shape, b)
            for nm, got, want in (('no grid requested', v1, want1), ('the request is exactly the selected native points', v2, want2)):
                if has_guard(got):
                    und.append('%s: %s' % (nm, fmt(fl, got)[:160]))
                elif not tab.equal(got, want):
                    why.append('%s: returns %s, expected the opacities compute_opacity(...) gives for those points' % (
                        nm, fmt(fl, got)[:160]))
            # the native values may only be returned unchanged in those two cases
            if not has_guard(v3) and tab.equal(v3, want2):
                why.append('native opacities are returned unchanged although the request differs from the selected native points')
            # a test that is neither `no grid` nor the element-wise comparison: if it can hand back the native values while
            # the element-wise comparison fails, and looks only at sizes / end points, a request of the same size and range
            # but other points gets the native values unchanged
            if has_guard(v3) and unknown:
                REDUCING = ('array_equal', 'array_equiv', 'allclose', 'all', 'any', 'isclose', 'equal')

                def weak_(u_):
                    return not u_.mentions(lambda a: a.head in ('call', 'mcall') and a.extra and
                                           a.extra[0][3:].split('.')[-1] in REDUCING)

                def search(asg, depth):
                    """an assignment of the remaining tests under which the native values come back although the
                    element-wise comparison fails"""
                    del unknown[:]
                    x_ = v3
                    for _ in range(3):
                        x_ = resolve_guards(fl, x_, scenario(False, False, asg))
                    if not has_guard(x_):
                        return asg if tab.equal(x_, want2) else None
                    new_ = [u_ for u_ in unknown if not any(tab.equal(u_, k_) for k_ in asg)]
                    if depth == 0 or not new_ or not weak_(new_[0]):
                        return None
                    for val_ in (True, False):
                        r_ = search({**asg, new_[0]: val_}, depth - 1)
                        if r_ is not None:
                            return r_
                    return None
                hit = search({}, 8)
                if hit:
                    why.append('native opacities are returned unchanged when %s - a test on sizes / end points, not on '
                               'every selected native point' % ' and '.join(
                                   ('' if v_ else 'not ') + fmt(fl, u_)[:70] for u_, v_ in hit.items()))
            if und and not why:
                R.error('3.native', 'DOM', site, 'native identity', 'the dispatch depends on a test this rule cannot settle: %s' % und,
                        loc=f.loc())
            else:
                R.check('3.native', 'DOM', site,
                        'when the request equals the selected native points (or no grid is given) the value returned is '
                        'compute_opacity(...) itself, and only then',
                        not why, key='; '.join(w_[:80] for w_ in why), detail='; '.join(why), loc=f.loc())
            O = spec(fl, 'self.compute_opacity(T, P, F)' + shape, b)
            ok = False
            if has_guard(v3):
                if why:
                    continue        # reported under 3.native
                R.error('3.interp', 'ALG', site, 'interpolation case', 'not settled: %s' % fmt(fl, v3)[:200], loc=f.loc())
                continue
            if interp_name == 'interp':
                ok = tab.equal(v3, spec(fl, 'interp(w, self.wavenumberGrid[F], O)', dict(b, O=O))) or \
                    tab.equal(v3, spec(fl, 'interp(w, self.wavenumberGrid.take(F), O)', dict(b, O=O)))   # 1-D grid: same points
            else:
                ics = [a_ for a_ in v3.all_atoms() if tab.atoms[a_].head == 'callexpr']
                for a_ in ics:
                    ce = tab.atoms[a_]
                    fn = atom_of(fl, ce.args[0]) if isinstance(ce.args[0], RF) else None
                    if fn is None or fn.head != 'call' or not fn.extra or fn.extra[0] != 'fn:interp1d':
                        continue
                    kws = dict(zip(fn.extra[1:], fn.args[len(fn.args) - len(fn.extra[1:]):])) if fn.extra[1:] else {}
                    ok = len(ce.args) == 2 and tab.equal(ce.args[1], pe['w']) and \
                        (tab.equal(fn.args[0], spec(fl, 'self.wavenumberGrid[F]', b)) or
                         tab.equal(fn.args[0], spec(fl, 'self.wavenumberGrid.take(F)', b))) and tab.equal(fn.args[1], O) and \
                        kws.get('axis') is not None and kws['axis'].const() == 0
                    # requested points beyond the selected native points keep the first / last selected value, as
                    # np.interp does for the cross-sections (the two opacity forms answer alike)
                    fv = kws.get('fill_value')
                    held = fv is not None and tab.equal(fv, spec(fl, '(O[0], O[-1])', {'O': O}))
                    R.check('3.interp.edges', 'SIB', site,
                            'requested points outside the selected native points are held at the first / last selected '
                            'value (the behaviour of np.interp in Opacity.opacity)', held,
                            key='fill_value=%s' % (fmt(fl, fv)[:80] if fv is not None else None),
                            detail='interp1d(..., fill_value=%s)' % (fmt(fl, fv)[:120] if fv is not None else None), loc=f.loc())
            R.check('3.interp', 'ALG', site,
                    'otherwise the value is interpolated over exactly the selected native points and their opacities',
                    ok, key=fmt(fl, v3)[:160], detail=fmt(fl, v3)[:300], loc=f.loc())
    # ---- per-component evaluation must not inherit the grid of an earlier evaluation
    from rules.common import prepare_each_state
    with R.guard('5.state', 'DOM', 'taurex/contributions/', 'per-call state of prepare_each'):
        prepare_each_state(ix, R, '5.state')
    # ---- native grid choice
    site = SM + '::SimpleForwardModel.nativeWavenumberGrid'
    with R.guard('4.native', 'DOM', site, 'native grid'):
        f = ix.func(site)
        from sa.helpers import need
        from sa.pattern import find as _find
        stmt4 = 'the native grid is the largest wavenumber grid among the active molecules (independent of the requested grid)'
        head = ['V_ag = self.chemistry.activeGases', 'V_grids = [V_c[V_g].wavenumberGrid for V_g in V_ag]']
        LARGE_RET = ('return max(V_grids, key=lambda V_x: V_x.shape[0])', 'return max(V_grids, key=lambda V_x: len(V_x))',
                     'return max(V_grids, key=len)')
        SMALL_RET = ('return min(V_grids, key=lambda V_x: V_x.shape[0])', 'return min(V_grids, key=len)')
        SMALL_CMP = ('V_wn.shape[0] < V_cur.shape[0]', 'V_cur.shape[0] > V_wn.shape[0]', 'len(V_wn) < len(V_cur)',
                     'len(V_cur) > len(V_wn)')
        LARGE_CMP = ('V_cur.shape[0] < V_wn.shape[0]', 'V_wn.shape[0] > V_cur.shape[0]', 'len(V_cur) < len(V_wn)',
                     'len(V_wn) > len(V_cur)')
        LOOP = '''
for V_wn in V_grids:
    ...
    if %s:
        V_cur = V_wn
'''

        def selection(node, pre, binding=None):
            """'large' / 'small' / None: the selection statements found under `node` after the statements `pre`"""
            lg = sm = None
            for sel in LARGE_RET:
                lg = lg or _find(node, pre + [sel], binding)[0]
            for sel in SMALL_RET:
                sm = sm or _find(node, pre + [sel], binding)[0]
            for cmp_ in SMALL_CMP:
                sm = sm or _find(node, pre + [LOOP % cmp_, 'return V_cur'], binding)[0]
            for cmp_ in LARGE_CMP:
                # (the two tests of the selection loop may be merged into one: `is None or shorter`)
                lg = lg or _find(node, pre + [LOOP % ('V_cur is None or ' + cmp_), 'return V_cur'], binding)[0]
                lg = lg or _find(node, pre + [LOOP % cmp_, 'return V_cur'], binding)[0]
            return 'small' if sm is not None else ('large' if lg is not None else None)
        kind = selection(f.node, head)
        if kind is None:
            # the selection moved into a helper that is new to the reviewed tree and is handed the list of grids
            from sa.helpers import new_helpers_of
            for g_ in new_helpers_of(f):
                ps_ = [p_ for p_ in g_.params() if p_ not in ('self', 'cls')]
                if len(ps_) != 1:
                    continue
                k_ = selection(g_.node, [], {'V_grids': ps_[0]})
                if k_ is None:
                    continue
                for callee in ('self.%s' % g_.name, g_.name, '%s.%s' % (g_.cls.name, g_.name) if g_.cls is not None else g_.name):
                    for tail in (['return %s(V_grids)' % callee], ['V_cur = %s(V_grids)' % callee, 'return V_cur']):
                        if _find(f.node, head + tail)[0] is not None:
                            kind = k_
        small = True if kind == 'small' else None
        alt = True if kind == 'large' else None
        if small is not None:
            R.fail('4.native', 'DOM', site, stmt4, 'the smallest grid is selected', 'min(..., key=size) picks the grid with '
                   'the fewest points: molecules with finer grids are then interpolated down', f.loc())
        elif alt is not None:
            R.ok('4.native', 'DOM', site, stmt4, loc=f.loc())
        else:
          need(R, '4.native', 'DOM', site,
             'the native grid is the largest wavenumber grid among the active molecules (independent of the requested grid)', f,
             ['V_ag = self.chemistry.activeGases', 'V_grids = [V_c[V_g].wavenumberGrid for V_g in V_ag]',
              '''
for V_wn in V_grids:
    ...
    if V_wn.shape[0] > V_cur.shape[0]:
        V_cur = V_wn
''', 'return V_cur'])
        ps = f.params()
        R.check('4.native.indep', 'EFF', site, 'the native grid does not depend on the requested grid',
                ps == ['self'], key=str(ps), detail='parameters %s' % ps, loc=f.loc())


TR = 'taurex/model/transmission.py'
EM = 'taurex/model/emission.py'
MUTANTS = [
    ('norm-max', TR, 'return ((pradius ** 2.0 + integral) / sradius ** 2, tau)', 'return ((pradius ** 2.0 + integral / integral.max() * integral.max()) / sradius ** 2, tau)', '1.local'),
    ('mean-subtract', TR, 'tau = np.exp(-tau)', 'tau = np.exp(-tau + 0.0 * np.mean(tau, axis=1)[:, None])', '1.local'),
    ('cumsum-tau', EM, "flux_total = 2.0 * np.pi * sum(I * (_w / _mu))\n        self.debug('flux_total", "flux_total = 2.0 * np.pi * sum(I * (_w / _mu))\n        flux_total = flux_total + 0.0 * np.cumsum(flux_total, axis=-1)\n        self.debug('flux_total", '1.local'),
    ('smooth-sigma', 'taurex/contributions/rayleigh.py', 'final_sigma = sigma[None, :] * model.chemistry.get_gas_mix_profile(gasname)[:, None]', 'final_sigma = np.convolve(sigma, np.ones(1), mode=\'same\')[None, :] * model.chemistry.get_gas_mix_profile(gasname)[:, None]', '1.local'),
    ('sort-grid', 'taurex/contributions/leemie.py', 'wltmp = 10000 / wngrid', 'wltmp = np.sort(10000 / wngrid)', '1.local'),
    ('cutoff-all', TR, 'if tau[layer].min() > 10:', 'if tau[layer].min() > 10 or tau[layer].mean() > 50:', '1.local'),
    ('clip-narrow', UU, 'wn_min = min_wngrid - wnwidths.max()', 'wn_min = min_wngrid', '2.clip'),
    ('clip-always', SM, "        native_grid = self.nativeWavenumberGrid\n        if wngrid is not None and cutoff_grid:\n            native_grid = clip_native_to_wngrid(native_grid, wngrid)\n        self._star.initialize(native_grid)\n        for contrib in self.contribution_list:\n            contrib.prepare(self, native_grid)\n        absorp, tau = self.path_integral(native_grid, False)\n        return (native_grid, absorp, tau, None)", "        native_grid = self.nativeWavenumberGrid\n        if wngrid is not None:\n            native_grid = clip_native_to_wngrid(native_grid, wngrid)\n        self._star.initialize(native_grid)\n        for contrib in self.contribution_list:\n            contrib.prepare(self, native_grid)\n        absorp, tau = self.path_integral(native_grid, False)\n        return (native_grid, absorp, tau, None)", '2.when'),
    ('native-always-interp', OPA, 'if wngrid is None or np.array_equal(self.wavenumberGrid.take(wngrid_filter), wngrid):', 'if wngrid is None:', '3.native'),
    ('interp-full-grid', OPA, 'return np.interp(wngrid, self.wavenumberGrid[wngrid_filter], orig)', 'return np.interp(wngrid, self.wavenumberGrid, orig)', '3.interp'),
    ('native-depends-request', SM, 'if wn.shape[0] > current_grid.shape[0]:', 'if wn.shape[0] < current_grid.shape[0]:', '4.native'),
]
EQUIVALENTS = [
    ('native-rename', SM, r're:\bcurrent_grid\b', 'best'),
    ('clip-temp', UU, "    wn_min = min_wngrid - wnwidths.max()\n    wn_max = max_wngrid + wnwidths.max()", "    widest = wnwidths.max()\n    wn_min = min_wngrid - widest\n    wn_max = widest + max_wngrid"),
]
