"""C04 Opacity interpolation in temperature and pressure is sound everywhere."""
import ast

from sa.helpers import (holds_at, guard_is, the_return, mkflow, spec, code, one, calls, bind_call, param_env,
                        loop_matches, fmt, atom_of, unparse, unalloc, call_kw,
                        inline_calls)
from sa.index import AnalysisError, FuncInfo
from sa.algebra import RF, Conv, Table
from sa.guards import Regions

FLOOR = 22
IO = 'taurex/opacity/interpolateopacity.py'
UM = 'taurex/util/math.py'
UU = 'taurex/util/util.py'
FILES = [IO, UM, UU, 'taurex/opacity/opacity.py']
EXPLANATION = (
    'Static rule conformance for opacity interpolation: exhaustive guard-region '
    'analysis of interp_bilinear_grid over the four comparisons of (T, log10 P) '
    'with the grid bounds (9 feasible orderings): every exit is classified '
    '(edge node / zero / 1-D interpolation / 2-D interpolation) and may only be '
    'reached when the interpolated coordinate is inside its closed bracket and '
    'the fixed index is the matching edge; the selected kernels equal the '
    'documented forms as rational normal forms; the bracket search is clamped; '
    'pressure is compared and interpolated in log10 space; table indices are '
    '(pressure, temperature); result is divided by 10000 once.')
ASSUMPTIONS = ['grids are sorted ascending with at least two nodes',
               'tabulated cross-sections are positive (log identities)',
               'numpy searchsorted semantics']
NOT_DECIDED = ['"between the bracketing values" and "reproduces nodes" as numbers '
               '(consequences of the convex-combination forms decided here)',
               'floating-point error', 'single-node tables (N3)']

IOC = IO + '::InterpolatingOpacity'

BOUNDS = {
    'pmax': ['self.pressureBounds[1]', 'max(self.logPressure)', 'self.logPressure[-1]'],
    'pmin': ['self.pressureBounds[0]', 'min(self.logPressure)', 'self.logPressure[0]'],
    'tmax': ['self.temperatureBounds[1]', 'max(self.temperatureGrid)',
             'self.temperatureGrid[-1]', 'self.temperatureMax'],
    'tmin': ['self.temperatureBounds[0]', 'min(self.temperatureGrid)',
             'self.temperatureGrid[0]', 'self.temperatureMin'],
}
WRONG_SPACE = ['self.pressureMax', 'self.pressureMin', 'self.pressureGrid[-1]',
               'self.pressureGrid[0]', 'max(self.pressureGrid)', 'min(self.pressureGrid)']


def classify_cmp(fl, at, T, P, bounds, wrong):
    """cmp atom -> (label, polarity) or raises; label in PMAX TMAX PMIN TMIN."""
    if len(at.args) != 2:
        raise AnalysisError('chained comparison in region guard')
    op = at.extra[0]
    l, r = at.args
    flip = {'Lt': 'Gt', 'LtE': 'GtE', 'Gt': 'Lt', 'GtE': 'LtE'}
    if fl.tab.equal(r, T) or fl.tab.equal(r, P):
        l, r = r, l
        op = flip.get(op, op)
    var = 'T' if fl.tab.equal(l, T) else ('P' if fl.tab.equal(l, P) else None)
    if var is None:
        return None
    for w in wrong:
        if fl.tab.equal(r, w):
            return ('UNIT', fmt(fl, r))
    which = None
    for k, forms in bounds.items():
        if any(fl.tab.equal(r, x) for x in forms):
            which = k
    if which is None:
        return None
    if which[0] != var.lower():
        return ('UNIT', '%s compared with %s' % (var, fmt(fl, r)))
    # closed bracket semantics: at the node itself both sides give the node value
    if which.endswith('max'):
        if op in ('Gt', 'GtE'):
            return (var + 'MAX', True)
        if op in ('Lt', 'LtE'):
            return (var + 'MAX', False)
    else:
        if op in ('Lt', 'LtE'):
            return (var + 'MIN', True)
        if op in ('Gt', 'GtE'):
            return (var + 'MIN', False)
    return None


class Reg(Regions):
    """labels may be carried by several comparison atoms with polarity"""

    def __init__(self, tab, forms):
        self.tab = tab
        self.forms = forms  # list of (rf, label, polarity)
        self.atoms = {l: None for _, l, _ in forms}

    def classify(self, rf):
        return None

    def ev(self, rf, asg):
        for x, l, pol in self.forms:
            if isinstance(rf, RF) and self.tab.equal(rf, x):
                return asg[l] if pol else (not asg[l])
        return Regions.ev(self, rf, asg)


def region_obligations(ix, R):
    site = IOC + '.interp_bilinear_grid'
    f = ix.func(site)
    fl = mkflow(ix, site)
    pe = param_env(fl, f, ['T', 'P', 'tmin', 'tmax', 'pmin', 'pmax', 'filt'])
    T, P = pe['T'], pe['P']
    bounds = {k: [code(fl, x) for x in v] for k, v in BOUNDS.items()}
    wrong = [code(fl, x) for x in WRONG_SPACE]
    exits = fl.of('return') + fl.of('raise')
    exits.sort(key=lambda e: fl.events.index(e))
    from sa.helpers import split_exits
    exits = split_exits(fl, exits)
    # collect comparison atoms of the guards
    forms = []
    unit = []
    seen = set()

    def collect(rf):
        for a in rf.all_atoms():
            at = fl.tab.atoms[a]
            if at.head == 'cmp' and a not in seen:
                seen.add(a)
                c = classify_cmp(fl, at, T, P, bounds, wrong)
                if c is None:
                    continue
                if c[0] == 'UNIT':
                    unit.append(c[1])
                    continue
                from sa.algebra import p_atom
                forms.append((RF(fl.tab, p_atom(a)), c[0], c[1]))
    for e in exits:
        for g in e.guards:
            collect(g.rf)
    R.check('2.unit.guards', 'UNIT', site,
            'every live region comparison is in one space (log10 P with log-pressure bounds, '
            'T with temperature bounds)', not unit, key='; '.join(unit),
            detail='comparison mixes spaces: %s' % unit, loc=f.loc())
    labels = {l for _, l, _ in forms}
    need = {'PMAX', 'TMAX', 'PMIN', 'TMIN'}
    if labels != need:
        if labels < need:
            # a bound that no exit tests in the right space: that side of the grid is not clamped
            R.fail('1.region', 'GUARD', site,
                   'exits are dispatched on all four bound comparisons (P>=Pmax, P<Pmin, T>=Tmax, T<Tmin) in the space of the stored bounds',
                   key='missing ' + ','.join(sorted(need - labels)),
                   detail='no exit is guarded by a well-formed comparison for %s (found only %s): values beyond that bound '
                   'are extrapolated, not held at the edge' % (sorted(need - labels), sorted(labels)), loc=f.loc())
            return
        raise AnalysisError('region guards cover %s, expected the four bound comparisons' %
                            sorted(labels))
    reg = Reg(fl.tab, forms)
    reach = reg.reach(exits, feasible=lambda a: not (a['PMAX'] and a['PMIN']) and
                      not (a['TMAX'] and a['TMIN']))
    R.info['regions'] = {','.join(sorted(k)) or 'interior': [
        '%s:%s' % (e.kind, unparse(e.value_ast if e.kind == 'return' else e.exc_ast)[:70])
        for e in v] for k, v in reach.items()}
    # classify exits
    xg = code(fl, 'self.xsecGrid')

    def node_index(rf):
        c = rf.const() if isinstance(rf, RF) else None
        return int(c) if c is not None and c in (0, -1) else None

    def kind(e, assign=None):
        if e.kind == 'raise':
            return ('raise',)
        v = e.value
        if assign is not None:
            # selections inside the returned expression (an edge index chosen by `-1 if above else 0`) are settled by
            # the region being examined
            from sa.helpers import resolve_guards
            v = resolve_guards(fl, v, lambda c: reg.ev(c, assign))
        at = atom_of(fl, v)
        if at is None:
            return ('unknown', fmt(fl, v))
        if at.head == 'idx' and fl.tab.equal(at.args[0], xg) and len(at.args) >= 3:
            return ('node', node_index(at.args[1]), node_index(at.args[2]))
        if at.head == 'call' and at.extra[0] in ('fn:zeros_like', 'fn:zeros'):
            return ('zero',)
        if at.head == 'call' and at.extra[0] == 'fn:self.interp_temp_only':
            b = dict(zip(['T', 'tmin', 'tmax', 'P', 'filt'], at.args))
            ok = fl.tab.equal(b['T'], T) and fl.tab.equal(b['tmin'], pe['tmin']) and \
                fl.tab.equal(b['tmax'], pe['tmax']) and fl.tab.equal(b['filt'], pe['filt'])
            return ('tonly', node_index(b['P']), ok)
        if at.head == 'call' and at.extra[0] == 'fn:self.interp_pressure_only':
            b = dict(zip(['P', 'pmin', 'pmax', 'T', 'filt'], at.args))
            ok = fl.tab.equal(b['P'], P) and fl.tab.equal(b['pmin'], pe['pmin']) and \
                fl.tab.equal(b['pmax'], pe['pmax']) and fl.tab.equal(b['filt'], pe['filt'])
            return ('ponly', node_index(b['T']), ok)
        if at.head == 'call' and at.extra[0] in ('fn:intepr_bilin', 'fn:interp_exp_and_lin'):
            return ('2d', at.extra[0][3:])
        return ('unknown', fmt(fl, v))

    def edge_ok(idx, lo, hi):
        """index -1 requires the 'above max' flag, 0 requires 'below min'."""
        return (idx == -1 and hi) or (idx == 0 and lo)

    n = 0
    for region, hits in sorted(reach.items(), key=lambda kv: sorted(kv[0])):
        name = ','.join(sorted(region)) or 'interior'
        PMAX, TMAX, PMIN, TMIN = ('PMAX' in region, 'TMAX' in region, 'PMIN' in region,
                                  'TMIN' in region)
        stmt = 'region {%s}: every reachable exit is sound (no extrapolation, matching edge node)' % name
        why = []
        if not hits:
            why.append('no exit reachable')
        for e in hits:
            k = kind(e, dict(PMAX=PMAX, TMAX=TMAX, PMIN=PMIN, TMIN=TMIN))
            if k[0] in ('node', 'tonly', 'ponly') and None in k[1:]:
                raise AnalysisError('region {%s}: the edge index of `%s` is not settled by the region' % (
                    name, unparse(e.value_ast)[:80]))
            if k[0] == 'raise':
                if not any(reg.ev(g.rf, dict(PMAX=PMAX, TMAX=TMAX, PMIN=PMIN, TMIN=TMIN)) is None
                           for g in e.guards):
                    why.append('raise reached on a region decision')
            elif k[0] == 'node':
                if k[1] is None or k[2] is None or not edge_ok(k[1], PMIN, PMAX) or \
                        not edge_ok(k[2], TMIN, TMAX):
                    why.append('returns node [%s,%s]' % (k[1], k[2]))
            elif k[0] == 'zero':
                if not (PMIN and TMIN):
                    why.append('returns zero outside the documented both-below-minimum region')
            elif k[0] == 'tonly':
                if TMAX or TMIN:
                    why.append('temperature-only interpolation reached with T outside its bracket '
                               '(linear extrapolation)')
                if k[1] is None or not edge_ok(k[1], PMIN, PMAX):
                    why.append('temperature-only interpolation at pressure index %s' % k[1])
                if not k[2]:
                    why.append('temperature-only interpolation with permuted arguments')
            elif k[0] == 'ponly':
                if PMAX or PMIN:
                    why.append('pressure-only interpolation reached with P outside its bracket '
                               '(linear extrapolation)')
                if k[1] is None or not edge_ok(k[1], TMIN, TMAX):
                    why.append('pressure-only interpolation at temperature index %s' % k[1])
                if not k[2]:
                    why.append('pressure-only interpolation with permuted arguments')
            elif k[0] == '2d':
                if PMAX or TMAX or PMIN or TMIN:
                    why.append('2-D interpolation reached outside the grid')
            else:
                why.append('unrecognised exit %s' % k[1])
        n += 1
        R.check('1.region', 'GUARD', site + '{' + name + '}', stmt, not why,
                key='region {%s}: %s' % (name, '; '.join(why)),
                detail='; '.join(why) + ' [exits: %s]' % [
                    unparse(e.value_ast)[:60] if e.kind == 'return' else 'raise' for e in hits],
                loc=f.loc(hits[0].node) if hits else f.loc())
    if n != 9:
        raise AnalysisError('%d feasible regions enumerated, expected 9' % n)
    # mode dispatch in the interior
    two = [e for e in exits if e.kind == 'return' and kind(e)[0] == '2d']
    why = []
    want = {'intepr_bilin': 'linear', 'interp_exp_and_lin': 'exp'}
    for e in two:
        g = e.guards[-1]
        m = want[kind(e)[1]]
        if not holds_at(fl, e, spec(fl, "self._interp_mode == '%s'" % m)):
            why.append('%s under %s' % (kind(e)[1], g.text()))
        a = atom_of(fl, e.value)
        b = dict(pe, xg=xg)
        roles = ['xg[pmin, tmin, filt]', 'xg[pmin, tmax, filt]', 'xg[pmax, tmin, filt]',
                 'xg[pmax, tmax, filt]', 'T', 'self.temperatureGrid[tmin]',
                 'self.temperatureGrid[tmax]', 'P', 'self.logPressure[pmin]',
                 'self.logPressure[pmax]']
        for got, r in zip(a.args, roles):
            w = spec(fl, r, b)
            # xg[p, t][filt] and xg[p, t, filt] are the same element selection
            alt = spec(fl, r.replace(', filt]', '][filt]'), b) if 'filt' in r else w
            if not (fl.tab.equal(got, w) or fl.tab.equal(got, alt)):
                why.append('%s argument %s, expected %s' % (kind(e)[1], fmt(fl, got), r))
    if len(two) != 2:
        why.append('%d two-dimensional exits' % len(two))
    if not [e for e in exits if e.kind == 'raise']:
        why.append('unknown mode does not raise')
    R.check('1.mode', 'ARG', site,
            "interior: 'linear' -> intepr_bilin, 'exp' -> interp_exp_and_lin, else raise; "
            'corner arguments are xsecGrid[P-index, T-index] with (Pmin,Tmin),(Pmin,Tmax),'
            '(Pmax,Tmin),(Pmax,Tmax) and log-pressure / temperature nodes',
            not why, key='; '.join(why), detail='; '.join(why), loc=f.loc())


def one_d(ix, R):
    # interp_temp_only
    site = IOC + '.interp_temp_only'
    with R.guard('6.tonly', 'ARG', site, '1-D temperature interpolation'):
        f = ix.func(site)
        fl = mkflow(ix, site)
        pe = param_env(fl, f, ['T', 'tmin', 'tmax', 'P', 'filt'])
        pe['xg'] = code(fl, 'self.xsecGrid')
        rets = fl.of('return')
        why = []
        # by scenario: what is returned in linear mode and what in exp mode (whether the dispatch sits here, in a helper,
        # in two returns or in one conditional expression)
        from sa.helpers import resolve_guards, has_guard
        rv = the_return(fl).value
        conds = {m_: fl.tab.canon_cond(spec(fl, "self._interp_mode == '%s'" % m_)) for m_ in ('linear', 'exp')}
        for mode, kern in (('linear', 'interp_lin_only'), ('exp', 'interp_exp_only')):
            def decide(c, mode=mode):
                cc, fc = fl.tab.canon_cond(c)
                for m_, (cw, fw) in conds.items():
                    if fl.tab.equal(cc, cw):
                        return (m_ == mode) != (fc != fw)
                return None
            v = resolve_guards(fl, rv, decide)
            a = atom_of(fl, v)
            if has_guard(v) and (a is None or a.head == 'guard'):
                raise AnalysisError('what is returned in %s mode is not settled: %s' % (mode, fmt(fl, v)[:160]))
            if a is None or a.head != 'call' or a.extra[0][3:] != kern:
                why.append('%s mode returns %s' % (mode, fmt(fl, v)[:120]))
                continue
            roles = ['xg[P, tmin, filt]', 'xg[P, tmax, filt]', 'T',
                     'self.temperatureGrid[tmin]', 'self.temperatureGrid[tmax]']
            for got, r in zip(a.args, roles):
                if not fl.tab.equal(got, spec(fl, r, pe)):
                    why.append('%s argument %s, expected %s' % (kern, fmt(fl, got), r))
        if not fl.of('raise'):
            why.append('an unknown mode does not raise')
        R.check('6.tonly', 'ARG', site,
                'xsecGrid[P-index, T-index, filter] at the two temperature nodes, kernel '
                '(f(Tmin), f(Tmax), T, Tmin, Tmax) chosen by mode; unknown mode raises',
                not why, key='; '.join(why), detail='; '.join(why), loc=f.loc())
    site = IOC + '.interp_pressure_only'
    with R.guard('6.ponly', 'ARG', site, '1-D pressure interpolation'):
        f = ix.func(site)
        fl = mkflow(ix, site)
        pe = param_env(fl, f, ['P', 'pmin', 'pmax', 'T', 'filt'])
        pe['xg'] = code(fl, 'self.xsecGrid')
        e = the_return(fl)
        a = atom_of(fl, e.value)
        why = []
        if a is None or a.head != 'call' or a.extra[0] != 'fn:interp_lin_only':
            why.append('returns %s' % fmt(fl, e.value))
        else:
            roles = ['xg[pmin, T, filt]', 'xg[pmax, T, filt]', 'P',
                     'self.logPressure[pmin]', 'self.logPressure[pmax]']
            for got, r in zip(a.args, roles):
                if not fl.tab.equal(got, spec(fl, r, pe)):
                    why.append('argument %s, expected %s' % (fmt(fl, got), r))
        R.check('6.ponly', 'ARG', site,
                'xsecGrid[P-index, T-index, filter] at the two pressure nodes, linear in log10 P',
                not why, key='; '.join(why), detail='; '.join(why), loc=f.loc(e.node))


def kernel_value(ix, name, relpath=UM, follow_alias=True):
    """(fl, func, per-element value RF, element binding) of a kernel."""
    m = ix.module(relpath)
    tgt = ix.resolve_name(m, name) if follow_alias else m.functions.get(name)
    if not isinstance(tgt, FuncInfo):
        raise AnalysisError('kernel %s does not resolve to a function' % name)
    fl = mkflow(ix, tgt)
    r = the_return(fl, 'return of %s' % tgt.name)
    v = r.value
    at = atom_of(fl, v)
    if at is not None and at.head == 'alloc':
        sts = [e for e in fl.of('store') if atom_of(fl, e.target) is not None and
               atom_of(fl, e.target).head == 'idx' and
               fl.tab.equal(atom_of(fl, e.target).args[0], v)]
        st = one(sts, 'element store of %s' % tgt.name)
        lp = one(st.loops, 'element loop')
        ta = atom_of(fl, st.target)
        if st.op is not None or len(ta.args) != 2 or not fl.tab.equal(ta.args[1], lp.index):
            raise KernelShape('%s: element store %s is not out[n] = f(n)' % (tgt.name, unparse(st.node)), tgt, fl)
        p0 = fl.tab.name(tgt.params()[0])
        if not loop_matches(fl, lp, '0', 'X.shape[0]', {'X': p0}):
            raise KernelShape('%s: element loop %s does not cover the array' % (tgt.name, unparse(lp.iter_ast)), tgt, fl)
        if st.guards:
            raise KernelShape('%s: element store is conditional on %s (skipped elements keep np.empty garbage)' % (
                tgt.name, [g.text() for g in st.guards]), tgt, fl)
        if r.guards or r.loops:
            raise KernelShape('%s: the result is returned conditionally' % tgt.name, tgt, fl)
        return fl, tgt, st.value, lp.index
    if r.guards or r.loops:
        raise KernelShape('%s: the result is returned conditionally' % tgt.name, tgt, fl)
    return fl, tgt, v, None


class KernelShape(Exception):
    def __init__(self, msg, tgt, fl):
        Exception.__init__(self, msg)
        self.tgt = tgt


ARR = {'lin': ['x11', 'x12'], 'bilin': ['x11', 'x12', 'x21', 'x22']}
SPEC_LIN = 'x11 + (x12 - x11)*(P - Pmin)/(Pmax - Pmin)'
SPEC_BILIN = ('x11*(1-s)*(1-t) + x21*s*(1-t) + x12*(1-s)*t + x22*s*t')
SPEC_EXP = 'x11*exp(((1/T - 1/Tmin)/(1/Tmax - 1/Tmin))*log(x12/x11))'
SPEC_EXPLIN = 'a*exp(((1/T - 1/Tmin)/(1/Tmax - 1/Tmin))*log(b/a))'


def kernel_spec(fl, tgt, which, idx):
    if which == 'lin':
        names = ['x11', 'x12', 'P', 'Pmin', 'Pmax']
    elif which == 'exp':
        names = ['x11', 'x12', 'T', 'Tmin', 'Tmax']
    else:
        names = ['x11', 'x12', 'x21', 'x22', 'T', 'Tmin', 'Tmax', 'P', 'Pmin', 'Pmax']
    b = param_env(fl, tgt, names)
    if idx is not None:
        for k in ('x11', 'x12', 'x21', 'x22'):
            if k in b:
                b[k] = fl.tab.atom('idx', (b[k], idx))
    if which == 'lin':
        return spec(fl, SPEC_LIN, b)
    if which == 'exp':
        return spec(fl, SPEC_EXP, b)
    b['s'] = spec(fl, '(P-Pmin)/(Pmax-Pmin)', b)
    b['t'] = spec(fl, '(T-Tmin)/(Tmax-Tmin)', b)
    if which == 'bilin':
        return spec(fl, SPEC_BILIN, b)
    b['a'] = spec(fl, 'x11 + (x21-x11)*s', b)
    b['b'] = spec(fl, 'x12 + (x22-x12)*s', b)
    return spec(fl, SPEC_EXPLIN, b)


SELECTED = [('interp_lin_only', 'lin', 'linear in the coordinate between the two nodes'),
            ('intepr_bilin', 'bilin', 'textbook four-corner bilinear form'),
            ('interp_exp_only', 'exp', 'documented exponential-in-1/T form'),
            ('interp_exp_and_lin', 'explin',
             'exponential-in-1/T between the log-P-linear interpolants at Tmin and Tmax')]

HELPERS = {'_linstage0', 'interp_lin_only', '_expstage0', '_expstage1', '_expstage2',
           '_expstage3'}


def kernels(ix, R, names=SELECTED, pfx='4', note_only=False):
    for name, which, desc in names:
        site = UM + '::' + name
        stmt = 'selected kernel %s == %s' % (name, desc)
        with R.guard(pfx + '.' + name, 'ALG', site, stmt):
            try:
                fl, tgt, val, idx = kernel_value(ix, name)
            except KernelShape as e:
                if note_only:
                    R.note('non-selected kernel: %s' % e)
                    continue
                R.fail(pfx + '.' + name, 'ALG', e.tgt.site, stmt + ' (resolves to %s)' % e.tgt.name,
                       key=str(e), detail=str(e), loc=e.tgt.loc())
                continue
            val = inline_calls(ix, fl, val, UM, HELPERS)
            want = kernel_spec(fl, tgt, which, idx)
            ok = fl.tab.equal(val, want)
            if note_only and not ok:
                R.note('non-selected kernel %s could not be shown equal to the selected form (%s); '
                       'it is not used, so this is not an obligation' % (tgt.name, desc))
                continue
            R.check(pfx + '.' + name, 'ALG', tgt.site, stmt + ' (resolves to %s)' % tgt.name,
                    ok, key='%s -> %s returns %s' % (name, tgt.name, fmt(fl, val)),
                    detail='%s returns %s\n    expected %s' % (tgt.name, fmt(fl, val), fmt(fl, want)),
                    loc=tgt.loc(), extracted=fmt(fl, val))


def run(ix, R):
    site = IOC + '.interp_bilinear_grid'
    with R.guard('1.region', 'GUARD', site, 'region dispatch'):
        region_obligations(ix, R)
    # what is served for (T, P) depends on the table and the current mode only, never on earlier requests
    from rules.common import memo_obligation
    memo_obligation(ix, R, 'M.memo', ['taurex/opacity/'], 'the opacity classes (what opacity(T, P) returns)')
    # ---- 2. spaces
    with R.guard('2.unit', 'UNIT', IOC, 'log-pressure space'):
        for nm, want in (('logPressure', 'log10(self.pressureGrid)'),
                         ('pressureBounds', '(min(self.logPressure), max(self.logPressure))'),
                         ('temperatureBounds', '(min(self.temperatureGrid), max(self.temperatureGrid))')):
            s = IOC + '.' + nm
            f = ix.func(s)
            fl = mkflow(ix, s)
            r = the_return(fl)
            R.check('2.unit.' + nm, 'UNIT', s, '%s == %s' % (nm, want),
                    fl.tab.equal(r.value, spec(fl, want)), key='returns %s' % fmt(fl, r.value),
                    detail='returns %s' % fmt(fl, r.value), loc=f.loc(r.node))
        s = IOC + '.find_closest_index'
        f = ix.func(s)
        fl = mkflow(ix, s)
        pe = param_env(fl, f, ['T', 'P'])
        r = the_return(fl)
        want = spec(fl, '(find_closest_pair(self.temperatureGrid, T)[0], '
                        'find_closest_pair(self.temperatureGrid, T)[1], '
                        'find_closest_pair(self.logPressure, P)[0], '
                        'find_closest_pair(self.logPressure, P)[1])', pe)
        R.check('2.unit.search', 'UNIT', s,
                'bracket search: T in temperatureGrid, P in logPressure; returns (t_lo, t_hi, p_lo, p_hi)',
                fl.tab.equal(r.value, want), key='returns %s' % fmt(fl, r.value),
                detail='returns %s' % fmt(fl, r.value), loc=f.loc(r.node))
    # ---- 3. bracket search
    site = UU + '::find_closest_pair'
    stmt = 'right = max(min(n-1, searchsorted(value)), 1); left = max(0, right-1)'
    with R.guard('3.pair', 'ALG', site, stmt):
        f = ix.func(site)
        fl = mkflow(ix, site)
        pe = param_env(fl, f, ['arr', 'value'])
        r = the_return(fl)
        s = spec(fl, 'arr.searchsorted(value)', pe)
        alt = spec(fl, 'searchsorted(arr, value)', pe)
        ok = False
        for ss in (s, alt):
            b = dict(pe, s=ss)
            right = spec(fl, 'max(min(arr.shape[0]-1, s), 1)', b)
            right2 = spec(fl, 'max(1, min(s, arr.shape[0]-1))', b)
            for rr in (right, right2):
                for left in ('max(0, R-1)', 'max(R-1, 0)', 'R-1'):
                    want = fl.tab.atom('tuple', (spec(fl, left, dict(b, R=rr)), rr))
                    ok = ok or fl.tab.equal(r.value, want)
        R.check('3.pair', 'ALG', site, stmt, ok, key='returns %s' % fmt(fl, r.value),
                detail='returns %s' % fmt(fl, r.value), loc=f.loc(r.node), extracted=fmt(fl, r.value))
    # ---- 4. kernels
    kernels(ix, R)
    # imports: the names used by the class are the aliases of util/math
    m = ix.module(IO)
    why = []
    for nm in ('intepr_bilin', 'interp_exp_and_lin', 'interp_lin_only', 'interp_exp_only'):
        if m.imports.get(nm) != ('taurex.util.math', nm):
            why.append('%s imported from %s' % (nm, m.imports.get(nm)))
    R.check('4.import', 'TAB', IO, 'interpolation kernels are the selected aliases of taurex.util.math',
            not why, key='; '.join(why), detail='; '.join(why))
    # ---- 5. compute_opacity
    site = IOC + '.compute_opacity'
    stmt = ('compute_opacity = interp_bilinear_grid(T, log10 p, *find_closest_index(T, log10 p), filter) / 10000')
    with R.guard('5.compute', 'ALG', site, stmt):
        f = ix.func(site)
        fl = mkflow(ix, site)
        pe = param_env(fl, f, ['T', 'p', 'w'])
        r = the_return(fl)
        want = spec(fl, 'self.interp_bilinear_grid(T, log10(p), *self.find_closest_index(T, log10(p)), w)/10000', pe)
        # the four indices may also be unpacked by hand and passed one by one, in the order they are returned
        want2 = spec(fl, 'self.interp_bilinear_grid(T, log10(p), I[0], I[1], I[2], I[3], w)/10000',
                     dict(pe, I=spec(fl, 'self.find_closest_index(T, log10(p))', pe)))
        R.check('5.compute', 'ALG', site, stmt, fl.tab.equal(r.value, want) or fl.tab.equal(r.value, want2),
                key='returns %s' % fmt(fl, r.value), detail='returns %s\n    expected %s' % (
                    fmt(fl, r.value), fmt(fl, want)), loc=f.loc(r.node), extracted=fmt(fl, r.value))
        # parameter order of interp_bilinear_grid matches find_closest_index's tuple
        g = ix.func(IOC + '.interp_bilinear_grid')
        ps = g.params()[1:]
        okp = len(ps) >= 7 and [p.replace('idx_', '') for p in ps[2:6]] == ['t_min', 't_max', 'p_min', 'p_max']
        R.check('5.order', 'ARG', IOC + '.interp_bilinear_grid',
                'star-expanded bracket tuple (t_lo, t_hi, p_lo, p_hi) lands on parameters 3-6 in that order',
                okp, key='params %s' % ps, detail='parameters are %s' % ps, loc=g.loc())
    # ---- 6. one-dimensional helpers
    one_d(ix, R)


def run_thorough(ix, R):
    """SIB: the non-selected kernel variants agree with the selected forms."""
    others = [('interp_lin_numpy', 'lin', 'linear'), ('intepr_bilin_old', 'bilin', 'bilinear'),
              ('intepr_bilin_double', 'bilin', 'bilinear'), ('intepr_bilin_numba', 'bilin', 'bilinear'),
              ('intepr_bilin_numba_II', 'bilin', 'bilinear'), ('interp_exp_numba', 'exp', 'exp')]
    kernels(ix, R, others, pfx='4.sib', note_only=True)
    # numexpr string variant
    with R.guard('4.sib.numexpr', 'SIB', UM + '::intepr_bilin_numexpr', 'numexpr variant'):
        f = ix.func(UM + '::intepr_bilin_numexpr')
        strs = [n.value for n in ast.walk(f.node) if isinstance(n, ast.Constant) and
                isinstance(n.value, str) and 'x11' in n.value]
        txt = one(strs, 'numexpr expression')
        fl = mkflow(ix, f)
        val = spec(fl, txt)
        want = kernel_spec(fl, f, 'bilin', None)
        if not fl.tab.equal(val, want):
            R.note('numexpr bilinear variant differs from the bilinear form')
        else:
            R.ok('4.sib.numexpr', 'SIB', f.site, 'numexpr string variant == bilinear form')


MUTANTS = [
    ('corner-index', IO, 'return self.xsecGrid[-1, -1, wngrid_filter].ravel()', 'return self.xsecGrid[-1, 0, wngrid_filter].ravel()', '1.region'),
    ('pmin-edge', IO, 'return self.interp_temp_only(T, t_idx_min, t_idx_max, 0, wngrid_filter).ravel()', 'return self.interp_temp_only(T, t_idx_min, t_idx_max, -1, wngrid_filter).ravel()', '1.region'),
    ('regress-f6-a', IO, "            if check_temperature_min:\n                return self.xsecGrid[-1, 0, wngrid_filter].ravel()\n", "", '1.region'),
    ('regress-f6-b', IO, "            if check_pressure_min:\n                return self.xsecGrid[0, -1, wngrid_filter].ravel()\n", "", '1.region'),
    ('f6-wrong-node', IO, "            if check_pressure_min:\n                return self.xsecGrid[0, -1, wngrid_filter].ravel()\n", "            if check_pressure_min:\n                return self.xsecGrid[-1, 0, wngrid_filter].ravel()\n", '1.region'),
    ('pmax-flip', IO, 'check_pressure_max = P >= max_pressure', 'check_pressure_max = P <= max_pressure', '1.region'),
    ('pmax-pa', IO, 'check_pressure_max = P >= max_pressure', 'check_pressure_max = P >= self.pressureMax', '2.unit.guards'),
    ('zero-or', IO, 'if check_pressure_min and check_temperature_min:', 'if check_pressure_min or check_temperature_min:', '1.region'),
    ('mode-swap', IO, "        if self._interp_mode == 'linear':\n            return intepr_bilin(", "        if self._interp_mode == 'exp':\n            return intepr_bilin(", '1.mode'),
    ('corner-swap', IO, 'q_12 = self.xsecGrid[p_idx_min, t_idx_max][wngrid_filter].ravel()', 'q_12 = self.xsecGrid[p_idx_max, t_idx_min][wngrid_filter].ravel()', '1.mode'),
    ('pnode-pa', IO, 'Pmax = self.logPressure[p_idx_max]\n        Pmin = self.logPressure[p_idx_min]\n        if self._interp_mode', 'Pmax = self.pressureGrid[p_idx_max]\n        Pmin = self.logPressure[p_idx_min]\n        if self._interp_mode', '1.mode'),
    ('logp-ln', IO, 'return np.log10(self.pressureGrid)', 'return np.log(self.pressureGrid)', '2.unit.logPressure'),
    ('search-pa', IO, 'p_min, p_max = find_closest_pair(self.logPressure, P)', 'p_min, p_max = find_closest_pair(self.pressureGrid, P)', '2.unit.search'),
    ('pair-noclamp', UU, 'right = max(min(arr.shape[0] - 1, right), 1)', 'right = max(min(arr.shape[0], right), 1)', '3.pair'),
    ('pair-noclamp-low', UU, 'right = max(min(arr.shape[0] - 1, right), 1)', 'right = min(arr.shape[0] - 1, right)', '3.pair'),
    ('lin-sign', UM, 'out[n] = x11[n] - scale * (x11[n] - x12[n])', 'out[n] = x11[n] + scale * (x11[n] - x12[n])', '4.interp_lin_only'),
    ('bilin-term', UM, '- Tscale * (x11[n] - x12[n])', '- Tscale * (x11[n] - x21[n])', '4.intepr_bilin'),
    ('exp-T', UM, 'return x11 * np.exp(Tmax * (-T + Tmin) * np.log(x11 / x12) / (T * (Tmax - Tmin)))', 'return x11 * np.exp(Tmax * (-T + Tmin) * np.log(x11 / x12) / (Tmax - Tmin))', '4.interp_exp_only'),
    ('alias-broken', UM, 'interp_exp_and_lin = interp_exp_and_lin_numpy', 'interp_exp_and_lin = interp_exp_and_lin_broken', '4.interp_exp_and_lin'),
    ('alias-expnumba', UM, 'interp_exp_only = interp_exp_numpy', 'interp_exp_only = interp_exp_numba', '4.interp_exp_only'),
    ('compute-nolog', IO, 'logpressure = math.log10(pressure)', 'logpressure = pressure', '5.compute'),
    ('compute-unit', IO, '*self.find_closest_index(temperature, logpressure), wngrid) / 10000', '*self.find_closest_index(temperature, logpressure), wngrid) / 1000', '5.compute'),
    ('tonly-index-order', IO, 'fx0 = self.xsecGrid[P, t_idx_min, filt]', 'fx0 = self.xsecGrid[t_idx_min, P, filt]', '6.tonly'),
    ('tonly-node-swap', IO, 'return interp_lin_only(fx0, fx1, T, Tmin, Tmax)', 'return interp_lin_only(fx1, fx0, T, Tmin, Tmax)', '6.tonly'),
    ('ponly-space', IO, "Pmax = self.logPressure[p_idx_max]\n        Pmin = self.logPressure[p_idx_min]\n        fx0 = self.xsecGrid[p_idx_min, T, filt]", "Pmax = self.pressureGrid[p_idx_max]\n        Pmin = self.pressureGrid[p_idx_min]\n        fx0 = self.xsecGrid[p_idx_min, T, filt]", '6.ponly'),
]
EQUIVALENTS = [
    ('pmax-gt', IO, 'check_pressure_max = P >= max_pressure', 'check_pressure_max = P > max_pressure'),
    ('tmin-le', IO, 'check_temperature_min = T < min_temperature', 'check_temperature_min = min_temperature > T'),
    ('lin-form', UM, 'out[n] = x11[n] - scale * (x11[n] - x12[n])', 'out[n] = x11[n] * (1.0 - scale) + scale * x12[n]'),
    ('bilin-form', UM, 'out[n] = x11[n] - Pscale * (x11[n] - x21[n]) - Pscale * Tscale * (x21[n] - x11[n] + x12[n] - x22[n]) - Tscale * (x11[n] - x12[n])',
     'out[n] = (1 - Pscale) * (1 - Tscale) * x11[n] + Pscale * (1 - Tscale) * x21[n] + (1 - Pscale) * Tscale * x12[n] + Pscale * Tscale * x22[n]'),
    ('pair-order', UU, 'right = max(min(arr.shape[0] - 1, right), 1)', 'right = max(1, min(right, arr.shape[0] - 1))'),
    ('compute-temp', IO, 'logpressure = math.log10(pressure)', 'logpressure = np.log10(pressure)'),
]
UNCONDITIONAL = [
    (UM, 'out[n] = x11[n] - scale * (x11[n] - x12[n])'),
    (UM, 'out[n] = x11[n] - Pscale * (x11[n] - x21[n])', 1),
]
