"""C05 Spectral binning is an overlap-weighted mean of the native spectrum."""
import ast
import re

from sa.helpers import (resolve_guards, has_guard, guard_is, same_cond, the_return, mkflow, spec, code, one, calls, bind_call, param_env,
                        loop_matches, fmt, atom_of, unparse, unalloc, call_kw)
from sa.index import AnalysisError
from sa.algebra import RF, Slice, p_atom

FLOOR = 18
FB = 'taurex/binning/fluxbinner.py'
SB = 'taurex/binning/simplebinner.py'
NB = 'taurex/binning/nativebinner.py'
BB = 'taurex/binning/binner.py'
UU = 'taurex/util/util.py'
FILES = [FB, SB, NB, BB, UU]
EXPLANATION = (
    'Static rule conformance for binning: every parallel native array '
    '(grid, spectrum, error, widths) is re-ordered by the same argsort before '
    'use; the overlap weight, normalised flux and quadrature error are the '
    'stated formulas as normal forms; one window slice is applied to edges, flux '
    'and error; the searchsorted operands derive from the sorted grid and the '
    'window indices are clamped; bindown return roles agree across the three '
    'binners; the histogram binner and the mid-point edge helper match their '
    'formulas.')
ASSUMPTIONS = ['numpy argsort / searchsorted / histogram semantics',
               'native bins are non-overlapping']
NOT_DECIDED = ['that the searchsorted window contains exactly the overlapping bins for every grid '
               '(arithmetic on data; side= not pinned)',
               'min/max bounds, linearity, constant preservation as numbers (consequences of the weight form)']


def mentions_raw(fl, rf, param, perm):
    """rf uses the array `param` other than through param[..., perm] (or a
    None test)."""
    tab = fl.tab
    pa = param.single_atom()

    def walk(r):
        for a in r.atoms():
            if visit(a):
                return True
        return False

    def visit(a):
        at = tab.atoms[a]
        if a == pa:
            return True
        if tab.equal(RF(tab, p_atom(a)), perm):
            return False
        if at.head == 'idx' and isinstance(at.args[0], RF) and at.args[0].single_atom() == pa:
            if any(isinstance(x, RF) and tab.equal(x, perm) for x in at.args[1:]):
                return False
        if at.head == 'guard':
            # `x is None` / scalar (no __len__) branches have nothing to permute
            c = at.args[0].single_atom()
            ca = tab.atoms[c] if c is not None else None
            if ca is not None and ca.head == 'cmp' and ca.extra[0] in ('Is', 'IsNot') and \
                    isinstance(ca.args[0], RF) and ca.args[0].single_atom() == pa:
                live = at.args[2] if ca.extra[0] == 'Is' else at.args[1]
                return walk(live)
            if ca is not None and ca.head == 'call' and ca.extra[0] == 'fn:hasattr' and \
                    isinstance(ca.args[0], RF) and ca.args[0].single_atom() == pa:
                return walk(at.args[1])
        if at.head == 'cmp' and at.extra and at.extra[0] in ('Is', 'IsNot'):
            return False
        if at.head == 'call' and at.extra and at.extra[0] in ('fn:hasattr', 'fn:len'):
            return False
        for x in at.args:
            if isinstance(x, RF) and walk(x):
                return True
            if isinstance(x, Slice):
                for p in x.parts():
                    if isinstance(p, RF) and walk(p):
                        return True
            if isinstance(x, tuple):
                for y in x:
                    if isinstance(y, RF) and walk(y):
                        return True
        return False
    return walk(rf)


def flux_init(ix, R):
    site = FB + '::FluxBinner.__init__'
    stmt = 'target grid and its width array are re-ordered by the same argsort; default widths come from the sorted grid'
    with R.guard('1.init', 'PERM', site, stmt):
        f = ix.func(site)
        fl = mkflow(ix, site)
        pe = param_env(fl, f, ['g', 'w'])
        perm = spec(fl, 'argsort(g)', pe)
        why = []
        st = {}
        for e in fl.of('store'):
            st.setdefault(fmt(fl, e.target), []).append(e)
        g = st.get('self._wngrid', [])
        if len(g) != 1 or not fl.tab.equal(g[0].value, spec(fl, 'g[p]', dict(pe, p=perm))):
            why.append('self._wngrid = %s' % [fmt(fl, e.value) for e in g])
        ws = st.get('self._wngrid_width', [])
        # (which widths end up in the attribute for which kind of input is 1.init.final; here: no statement stores the
        #  raw width array combined with something else, which no re-ordering afterwards could repair)
        for e in ws:
            if fl.tab.equal(e.value, spec(fl, 'w[p]', dict(pe, p=perm))) or has_guard(e.value):
                continue
            if mentions_raw(fl, e.value, pe['w'], perm) and not fl.tab.equal(e.value, pe['w']) \
                    and 'ones_like' not in fmt(fl, e.value):
                why.append('width stored unpermuted: %s' % unparse(e.node))
        R.check('1.init', 'PERM', site, stmt, not why, key='; '.join(why), detail='; '.join(why),
                loc=f.loc())
        # what the attributes hold when the constructor returns
        fa = mkflow(ix, site, forward_attrs=True)
        pa = param_env(fa, f, ['g', 'w'])
        b = dict(pa, p=spec(fa, 'argsort(g)', pa))
        gotw = fa.conv.env.get('@self._wngrid_width')
        gotg = fa.conv.env.get('@self._wngrid')
        why2 = []
        und = []
        if gotg is None or not fa.tab.equal(gotg, spec(fa, 'g[p]', b)):
            why2.append('self._wngrid ends as %s' % (fmt(fa, gotg) if gotg is not None else None))
        # the widths, by kind of input.  Facts used to settle `hasattr(x, '__len__')`: the re-ordered width array, the
        # widths computed from the grid and anything multiplied by ones_like(grid) are arrays.
        arrays = [spec(fa, 'w[p]', b), spec(fa, 'compute_bin_edges(g[p])[-1]', b), spec(fa, 'compute_bin_edges(g[p])[1]', b)]
        c_none, f_none = fa.tab.canon_cond(spec(fa, 'w is None', b))

        def scenario(is_none, is_array):
            def decide(c):
                if fa.tab.equal(c, c_none):
                    return is_none != f_none
                at = atom_of(fa, c)
                if at is not None and at.head == 'call' and at.extra == ('fn:hasattr',) and len(at.args) == 2 and \
                        fmt(fa, at.args[1]) in ("'__len__'", '"__len__"'):
                    x = at.args[0]
                    if fa.tab.equal(x, b['w']):
                        return None if is_none else is_array
                    if any(fa.tab.equal(x, y) for y in arrays) or 'ones_like' in fmt(fa, x):
                        return True
                return None
            return decide
        cases = [('no widths given', scenario(True, False), ['compute_bin_edges(g[p])[-1]', 'compute_bin_edges(g[p])[1]']),
                 ('a width array', scenario(False, True), ['w[p]']),
                 ('one width for all bins', scenario(False, False), ['ones_like(g[p])*w'])]
        for name, dec, wants in cases:
            if gotw is None:
                why2.append('self._wngrid_width is not set')
                break
            v = resolve_guards(fa, gotw, dec)
            if has_guard(v):
                und.append('%s: the widths depend on a test this rule cannot settle: %s' % (name, fmt(fa, v)[:200]))
            elif not any(fa.tab.equal(v, spec(fa, w_, b)) for w_ in wants):
                why2.append('%s: self._wngrid_width ends as %s, expected %s' % (name, fmt(fa, v)[:200], wants[0]))
        rs = fa.of('raise')
        okr = len(rs) == 1 and rs[0].guards and guard_is(
            fa, rs[0].guards[-1], spec(fa, 'len(w) != len(g[p])', b), True) if rs else False
        if not okr:
            why2.append('a width array of another length than the grid is not rejected')
        if und and not why2:
            R.error('1.init.final', 'ALG', site, 'after construction: widths by kind of input', '; '.join(und), loc=f.loc())
            return
        R.check('1.init.final', 'ALG', site,
                'after construction: grid = sorted grid; widths = given array re-ordered with the grid (length checked), '
                'or the given scalar / the default spacing of the sorted grid, expanded to one width per bin',
                not why2, key='; '.join(why2), detail='; '.join(why2), loc=f.loc())


def flux_bindown(ix, R):
    site = FB + '::FluxBinner.bindown'
    f = ix.func(site)
    fl = mkflow(ix, site)
    pe = param_env(fl, f, ['g', 'S', 'w', 'E'])
    perm = spec(fl, 'argsort(g)', pe)
    tab = fl.tab
    # ---- PERM: every parallel array is used only through the permutation
    evs = [e for e in fl.events if e.kind in ('assign', 'store', 'aug', 'return')
           and getattr(e, 'value', None) is not None]
    names = {'g': 'wavenumber grid', 'S': 'spectrum', 'E': 'error', 'w': 'grid_width'}
    for k, desc in names.items():
        bad = []
        for e in evs:
            if e.kind == 'assign' and e.op == 'for':
                continue
            v = e.value
            # the re-ordering statements themselves and the argsort are exempt
            if tab.equal(v, perm):
                continue
            if mentions_raw(fl, v, pe[k], perm):
                bad.append(e)
        # only report uses that feed results: stores / returns / aug, or assigns later used
        feeding = [e for e in bad if e.kind in ('store', 'aug', 'return')]
        R.check('1.perm.' + k, 'PERM', site,
                'native %s is re-ordered by the grid argsort before any use' % desc,
                not feeding, key='%s used unpermuted' % desc,
                detail='%s reaches %s without the permutation applied to the grid' % (
                    desc, [unparse(e.node)[:70] for e in feeding[:3]]),
                loc=f.loc(feeding[0].node) if feeding else f.loc())
    # ---- stores of results
    sts = [e for e in fl.of('store') if len(e.loops) == 1]
    # the buffers are identified by their role in the returned tuple (grid, spectrum, error, width)
    r0 = the_return(fl)
    ra0 = atom_of(fl, r0.value)
    if ra0 is None or ra0.head != 'tuple' or len(ra0.args) != 4:
        R.fail('4.roles.flux', 'SIB', site, 'bindown returns (grid, spectrum, error, width)',
               key='returns %s' % unparse(r0.value_ast), detail='returns %s' % unparse(r0.value_ast), loc=f.loc(r0.node))
        return

    def leaves(rf):
        a = atom_of(fl, rf)
        if a is not None and a.head == 'guard':
            return leaves(a.args[1]) + leaves(a.args[2])
        return [rf]
    fbuf = ra0.args[1]
    ebufs = leaves(ra0.args[2])
    spec_st = [e for e in sts if atom_of(fl, e.target) is not None and atom_of(fl, e.target).head == 'idx'
               and tab.equal(atom_of(fl, e.target).args[0], fbuf)]
    err_st = [e for e in sts if atom_of(fl, e.target) is not None and atom_of(fl, e.target).head == 'idx'
              and any(tab.equal(atom_of(fl, e.target).args[0], x) for x in ebufs)]
    if len(spec_st) != 1 or len(err_st) != 1:
        R.fail('4.roles.flux', 'SIB', site, 'the returned spectrum and error arrays are each filled by one store per target bin',
               key='%d / %d stores' % (len(spec_st), len(err_st)),
               detail='%d stores into the returned spectrum, %d into the returned error' % (len(spec_st), len(err_st)),
               loc=f.loc(r0.node))
        return
    fs = spec_st[0]
    lp = fs.loops[0]
    i = lp.index
    # locate the window from the flux slice
    Sperm = spec(fl, 'S[p]', dict(pe, p=perm))
    win = None
    for a in fs.value.all_atoms():
        at = tab.atoms[a]
        if at.head == 'idx' and tab.equal(at.args[0], Sperm) and len(at.args) == 2 and \
                isinstance(at.args[1], Slice):
            win = at.args[1]
    if win is None or win.lo is None or win.hi is None:
        raise AnalysisError('window slice of the native spectrum not found in %s' % fmt(fl, fs.value))
    gs = spec(fl, 'g[p]', dict(pe, p=perm))
    W = atom_of(fl, spec(fl, '_guard(w is None, compute_bin_edges(gs)[-1], w[p])', dict(pe, p=perm, gs=gs)))
    # accept either permuted widths (after the fix) or report through PERM above;
    # the formula obligations are stated over whatever width expression the code uses
    omin_c = omax_c = None
    for e in fl.of('assign'):
        pass
    b = dict(pe, p=perm, gs=gs, i=i)
    b['wn'] = tab.atom('elem', (code(fl, 'self._wngrid'), i))
    b['wmin'] = tab.atom('elem', (spec(fl, 'self._wngrid - self._wngrid_width/2'), i))
    b['wmax'] = tab.atom('elem', (spec(fl, 'self._wngrid + self._wngrid_width/2'), i))
    # native edges as the code computes them: find via searchsorted operands
    ss = [e for e in calls(fl, 'searchsorted') if e.loops]
    if len(ss) != 2:
        raise AnalysisError('expected two searchsorted calls in the bin loop')
    omax = ss[0].args[0]
    omin1 = ss[1].args[0]
    # the second search runs on the lower edges without their first entry: find the array A with A[1:] == operand
    # (slices distribute over the edge arithmetic, so the operand need not be a literal subscript)
    omin = None
    sl_lo = sl_hi = None
    oa = atom_of(fl, omin1)
    if oa is not None and oa.head == 'idx' and isinstance(oa.args[1], Slice):
        omin, sl_lo, sl_hi = oa.args[0], oa.args[1].lo, oa.args[1].hi
    else:
        cands_ = []
        for e_ in fl.of('assign'):
            if isinstance(e_.value, RF) and not e_.loops:
                cands_.append(e_.value)
                # ... or a member of a record built before the loop (bounds kept as a (lower, upper) pair)
                ea_ = atom_of(fl, e_.value)
                if ea_ is not None and ea_.head in ('call', 'tuple'):
                    cands_.extend(x for x in ea_.args if isinstance(x, RF))
        for v_ in cands_:
            if tab.equal(spec(fl, 'X[1:]', {'X': v_}), omin1):
                omin, sl_lo, sl_hi = v_, tab.const(1), None
    carried = [fmt(fl, x)[:80] for x in (ss[0].args[0], ss[1].args[0]) if x.mentions(lambda a: a.head == 'phi')]
    if carried:
        # the searched array changes from one target bin to the next: the window of a bin then depends on the bins
        # visited before it (only valid if the targets' edges are monotone, which overlapping targets are not)
        R.fail('3b.search', 'ARG', site,
               'each target bin searches the whole array of native edges (the window of a bin does not depend on the other bins)',
               'search operand carried between bins: %s' % carried,
               'searchsorted runs on %s, which depends on the previous target bin' % carried, f.loc(ss[0].node))
        raise AnalysisError('window search is carried between target bins; remaining obligations not evaluated')
    if omin is None:
        raise AnalysisError('second searchsorted operand is not a [1:] slice of an array computed before the loop')
    b.update(omin=omin, omax=omax, s=win.lo, e1=win.hi)
    # 3b sorted operand precondition + edges
    width = (omax - omin)
    okedges = tab.equal(omax + omin, gs * 2) and not width.is_zero()
    R.check('3b.edges', 'DOM', site,
            'native bin edges are (sorted grid -/+ width/2) and both searchsorted operands derive from them',
            okedges and sl_lo is not None and sl_lo.const() == 1 and sl_hi is None,
            key='edges %s / %s' % (fmt(fl, omin), fmt(fl, omax)),
            detail='native edges are %s and %s' % (fmt(fl, omin), fmt(fl, omax)), loc=f.loc(ss[0].node))
    wsel = "_guard(hasattr(w, '__len__'), w[p], w)"
    wants_w = [spec(fl, '_guard(%s is None, compute_bin_edges(gs)[-1], %s)' % (wsel, wsel), b),
               spec(fl, '_guard(w is None, compute_bin_edges(gs)[-1], %s)' % wsel, b),
               spec(fl, '_guard(%s is None, compute_bin_edges(gs)[1], %s)' % (wsel, wsel), b)]
    R.check('3b.width', 'DOM', site,
            'native bin widths: the given widths (an array re-ordered with the grid, or a scalar), else the spacing of the '
            'sorted native grid from compute_bin_edges',
            any(tab.equal(width, x) for x in wants_w), key='width %s' % fmt(fl, width)[:200],
            detail='native width is %s' % fmt(fl, width), loc=f.loc(ss[0].node))
    R.check('3b.search', 'ARG', site,
            'window start = first native bin whose upper edge passes the target lower edge; '
            'window stop searched on lower edges [1:] with the target upper edge',
            len(ss[0].args) >= 2 and tab.equal(ss[0].args[1], b['wmin']) and
            len(ss[1].args) >= 2 and tab.equal(ss[1].args[1], b['wmax']),
            key='searchsorted(%s) / searchsorted(%s)' % (', '.join(fmt(fl, a) for a in ss[0].args),
                                                         ', '.join(fmt(fl, a) for a in ss[1].args)),
            detail='searches %s and %s' % ([fmt(fl, a) for a in ss[0].args], [fmt(fl, a) for a in ss[1].args]),
            loc=f.loc(ss[0].node))
    n1 = spec(fl, 'omin.shape[0] - 1', b)
    s_call = tab.atom('call', tuple(ss[0].args + [ss[0].kw[k] for k in sorted(ss[0].kw)]),
                      extra=('fn:searchsorted',) + tuple(sorted(ss[0].kw)))
    e_call = tab.atom('call', tuple(ss[1].args + [ss[1].kw[k] for k in sorted(ss[1].kw)]),
                      extra=('fn:searchsorted',) + tuple(sorted(ss[1].kw)))
    mn = lambda x: spec(fl, 'min(x, n1)', dict(x=x, n1=n1))
    okclamp = tab.equal(win.lo, mn(s_call)) and tab.equal(win.hi, mn(e_call) + 1)
    R.check('3b.clamp', 'ALG', site,
            'window = [min(start, n-1) : min(stop, n-1) + 1] (index found on A[1:] is an inclusive index into A)',
            okclamp, key='window %s:%s' % (fmt(fl, win.lo), fmt(fl, win.hi)),
            detail='window is [%s : %s]' % (fmt(fl, win.lo), fmt(fl, win.hi)), loc=f.loc(fs.node))
    # ---- 2/3 flux formula with one window
    wgt = spec(fl, '(minimum(wmax, omax[s:e1]) - maximum(omin[s:e1], wmin))/(wmax - wmin)', b)
    b['wgt'] = wgt
    b['F'] = Sperm
    want = spec(fl, 'np.sum(wgt/np.sum(wgt) * F[s:e1], axis=-1)', b)
    R.check('2.flux', 'ALG', site,
            'binned flux = sum_j (w_j / sum w) F_j, w_j = (min(hi, hi_j) - max(lo_j, lo))/(hi - lo), '
            'one window for edges and flux, reduced over the native-bin axis',
            tab.equal(fs.value, want) and tab.equal(fs.target, spec(fl, 'B[i]', dict(b, B=atom_base(fl, fs.target)))),
            key='flux = %s' % fmt(fl, fs.value),
            detail='binned flux differs from the overlap-weighted mean: %s' % tab.diff(fs.value, want),
            loc=f.loc(fs.node), extracted=fmt(fl, fs.value))
    # the flux store runs for every bin that is not skipped; the output starts as zeros of shape (..., n_target)
    whyf = []
    skipg = [g for g in fs.guards if not (g.early and g.exit == {'continue'})]
    if skipg:
        whyf.append('flux store is conditional on %s' % [g.text() for g in skipg])
    for buf in [fbuf] + ebufs:
        if fmt(fl, buf) == 'None':
            continue
        z = atom_of(fl, unalloc(fl, buf))
        if z is None or z.head != 'call' or z.extra[0] != 'fn:zeros' or not tab.equal(
                z.args[0], spec(fl, 'F[..., 0].shape + self._wngrid.shape', b)):
            whyf.append('output array is %s' % fmt(fl, buf)[:120])
    R.check('2.out', 'SHAPE', site,
            'outputs are zero arrays of shape spectrum[..., 0].shape + (n_target,), filled at [..., idx] for every bin that is not skipped',
            not whyf, key='; '.join(whyf), detail='; '.join(whyf), loc=f.loc(fs.node))
    # error
    es = err_st[0]
    cands = [spec(fl, 'E[p]', b), spec(fl, '_guard(E is not None, E[p], E)', b)]
    wantes = [spec(fl, 'sqrt(np.sum(wgt*wgt*Er[s:e1]**2, axis=-1)/np.sum(wgt)/np.sum(wgt))', dict(b, Er=c))
              for c in cands]
    wante = wantes[0]
    for w_ in wantes:
        if tab.equal(es.value, w_):
            wante = w_
    g_ok = all((g.early and g.exit == {'continue'}) or any(guard_is(fl, g, spec(fl, 'Er is not None', dict(b, Er=c)), True)
                              for c in cands + [b['E']]) for g in es.guards)
    sl = es.target_ast.slice
    lastaxis = isinstance(sl, ast.Tuple) and len(sl.elts) == 2 and \
        isinstance(sl.elts[0], ast.Constant) and sl.elts[0].value is Ellipsis
    why = []
    if not tab.equal(es.value, wante):
        why.append('error formula differs: %s' % tab.diff(es.value, wante))
    if not lastaxis:
        why.append('error stored at %s (first axis) while the flux is stored at [..., idx]' %
                   unparse(es.target_ast))
    if not g_ok:
        why.append('error store guarded by %s' % [g.text() for g in es.guards])
    R.check('3.error', 'ALG', site,
            'binned error = sqrt(sum_j w_j^2 e_j^2 / (sum w)^2) over the same window and the same '
            '(last) axis as the flux, stored at [..., idx]',
            not why, key='; '.join(w.split(';')[0][:160] for w in why), detail='; '.join(why),
            loc=f.loc(es.node), extracted=fmt(fl, es.value))
    # licensed skip
    conts = fl.of('continue') + fl.of('break')
    whyc = []
    for c in conts:
        g = c.guards[-1] if c.guards else None
        want_g = spec(fl, 'not (wmin <= omax[s]) or not (omin[e] <= wmax)', dict(b, e=win.hi - 1))
        if g is None or not guard_is(fl, g, want_g, True):
            whyc.append('bin skipped under %s' % (g.text() if g else 'no guard'))
    R.check('3b.skip', 'GUARD', site,
            'a target bin is skipped only when it does not overlap the native window at all',
            not whyc, key='; '.join(whyc), detail='; '.join(whyc),
            loc=f.loc(conts[0].node) if conts else f.loc())
    # loop over every target bin
    def _per_target(q):
        # a sequence with one entry per target bin: the target grid, its width, or an edge array built from both
        ats = {tab.fmt_atom(a) for a in q.atoms()}
        return bool(ats) and ats <= {'self._wngrid', 'self._wngrid_width'}
    okloop = (lp.kind == 'enumerate' and all(_per_target(q) for q in _zipped(fl, lp))) or \
        (lp.kind == 'range' and lp.range_args[0].const() == 0 and lp.range_args[2].const() == 1 and any(
            tab.equal(lp.range_args[1], spec(fl, x)) for x in ('len(self._wngrid)', 'self._wngrid.shape[0]')))
    R.check('2.loop', 'SHAPE', site, 'one iteration per target bin (the loop enumerates sequences built from the target grid and widths)',
            okloop, key=unparse(lp.iter_ast),
            detail='loop is %s' % unparse(lp.iter_ast), loc=f.loc(lp.node))
    # return roles
    r = the_return(fl)
    want = tab.atom('tuple', (code(fl, 'self._wngrid'), atom_base(fl, fs.target),
                              atom_base(fl, es.target), code(fl, 'self._wngrid_width')))
    ra = atom_of(fl, r.value)
    okr = ra is not None and ra.head == 'tuple' and len(ra.args) == 4 and \
        tab.equal(ra.args[0], code(fl, 'self._wngrid')) and \
        tab.equal(ra.args[3], code(fl, 'self._wngrid_width')) and \
        isinstance(r.value_ast.elts[1], ast.Name) and isinstance(fs.target_ast.value, ast.Name) and \
        r.value_ast.elts[1].id == fs.target_ast.value.id and \
        isinstance(r.value_ast.elts[2], ast.Name) and r.value_ast.elts[2].id == es.target_ast.value.id
    R.check('4.roles.flux', 'SIB', site, 'bindown returns (grid, spectrum, error, width)', okr,
            key='returns %s' % unparse(r.value_ast), detail='returns %s' % unparse(r.value_ast),
            loc=f.loc(r.node))


def _zipped(fl, lp):
    """the sequences an enumerate(...) / enumerate(zip(...)) loop walks"""
    q = lp.iter_rf[0]
    a = atom_of(fl, q)
    if a is not None and a.head == 'call' and a.extra[0] == 'fn:zip':
        return list(a.args)
    return [q]


def atom_base(fl, target):
    at = atom_of(fl, target)
    if at is None or at.head != 'idx':
        raise AnalysisError('unexpected store target %s' % fmt(fl, target))
    return at.args[0]


def instrument_file(ix, R):
    """6.instrument.perm: an instrument file's rows are re-ordered by descending wavelength; the noise and the bin widths
    that go with a wavelength are picked with the SAME permutation (they are handed to a FluxBinner, which is given the
    re-ordered grid)."""
    site = 'taurex/instruments/instrumentfile.py::InstrumentFile.__init__'
    f = ix.func(site)
    fl = mkflow(ix, site, forward_attrs=True)
    stmt = 'noise and bin widths of an instrument file are re-ordered with the same argsort as its wavelength grid'
    tbl = code(fl, 'self._spectrum')
    T = None
    for e in fl.of('store'):
        if fmt(fl, e.target) == 'self._spectrum':
            T = e.value
    if T is None:
        R.error('6.instrument.perm', 'PERM', site, stmt, 'the loaded table is not stored in self._spectrum', loc=f.loc())
        return
    perm = spec(fl, 'argsort(T[:, 0])[::-1]', {'T': T})
    cols = {}
    for e in fl.of('store'):
        a = atom_of(fl, e.value)
        if a is not None and a.head == 'idx' and len(a.args) == 3 and fl.tab.equal(a.args[0], T) and isinstance(a.args[2], RF) \
                and a.args[2].const() is not None:
            cols.setdefault(int(a.args[2].const()), []).append((e, a.args[1]))
    why = []
    final_wl = fl.conv.env.get('@self._wlgrid')
    if final_wl is None or not fl.tab.equal(final_wl, spec(fl, 'T[:, 0][p]', {'T': T, 'p': perm})):
        why.append('the wavelength grid ends as %s' % (fmt(fl, final_wl)[:100] if final_wl is not None else None))
    for k in (1, 2):
        for e, rowsel in cols.get(k, []):
            if not (isinstance(rowsel, RF) and fl.tab.equal(rowsel, perm)):
                why.append('%s takes column %d in %s order, not in the order of the sorted wavelength grid' % (
                    unparse(e.node)[:60], k, 'file' if not isinstance(rowsel, RF) else fmt(fl, rowsel)[:40]))
    if 1 not in cols:
        R.error('6.instrument.perm', 'PERM', site, stmt, 'the noise column is not read as self._spectrum[rows, 1]', loc=f.loc())
        return
    R.check('6.instrument.perm', 'PERM', site, stmt, not why, key='; '.join(w[:90] for w in why), detail='; '.join(why), loc=f.loc())


def run(ix, R):
    _run(ix, R)
    with R.guard('6.instrument.perm', 'PERM', 'taurex/instruments/instrumentfile.py', 'instrument file'):
        instrument_file(ix, R)
    from rules.common import memo_obligation
    memo_obligation(ix, R, 'M.memo', ['taurex/binning/'], 'the binners')


def _run(ix, R):
    flux_init(ix, R)
    with R.guard('2', 'ALG', FB + '::FluxBinner.bindown', 'FluxBinner.bindown'):
        flux_bindown(ix, R)
    # ---- 4. sibling return roles
    site = SB + '::SimpleBinner.bindown'
    with R.guard('4.roles.simple', 'SIB', site, 'simple binner roles'):
        f = ix.func(site)
        fl = mkflow(ix, site)
        pe = param_env(fl, f, ['g', 'S', 'w', 'E'])
        r = the_return(fl)
        want = spec(fl, '(self._wngrid, bindown(g, S, self._wngrid), None, self._wn_width)', pe)
        R.check('4.roles.simple', 'SIB', site,
                'returns (target grid, histogram mean of (native grid, spectrum) onto the target grid, None, widths)',
                fl.tab.equal(r.value, want), key='returns %s' % fmt(fl, r.value),
                detail='returns %s' % fmt(fl, r.value), loc=f.loc(r.node))
        m = ix.module(SB)
        tgt = ix.resolve_name(m, 'bindown')
        R.check('4.simple.fn', 'TAB', SB, 'bindown used by SimpleBinner is taurex.util.util.bindown',
                tgt is not None and getattr(tgt, 'node', 0) is getattr(ix.func(UU + '::bindown'), 'node', 1),
                key='bindown -> %s' % getattr(tgt, 'site', tgt),
                detail='resolves to %s' % getattr(tgt, 'site', tgt))
    site = NB + '::NativeBinner.bindown'
    with R.guard('4.roles.native', 'SIB', site, 'native binner roles'):
        f = ix.func(site)
        fl = mkflow(ix, site)
        pe = param_env(fl, f, ['g', 'S', 'w', 'E'])
        r = the_return(fl)
        R.check('4.roles.native', 'SIB', site, 'native binner returns its input unchanged: (grid, spectrum, error, width)',
                fl.tab.equal(r.value, spec(fl, '(g, S, E, w)', pe)), key='returns %s' % fmt(fl, r.value),
                detail='returns %s' % fmt(fl, r.value), loc=f.loc(r.node))
    # parameter lists agree
    sigs = {}
    base = ix.cls(BB + '::Binner')
    for fn in ix.implementations(base, 'bindown'):
        sigs[fn.site] = fn.params()
    R.check('4.sig', 'SIB', BB, 'every bindown has parameters (self, wngrid, spectrum, grid_width, error)',
            len(sigs) >= 4 and all(len(p) == 5 and p[3] == 'grid_width' and p[4] == 'error' for p in sigs.values()),
            key=str(sigs), detail=str(sigs))
    site = BB + '::Binner.bin_model'
    with R.guard('4.bin_model', 'ARG', site, 'bin_model'):
        f = ix.func(site)
        fl = mkflow(ix, site)
        pe = param_env(fl, f, ['m'])
        r = the_return(fl)
        R.check('4.bin_model', 'ARG', site, 'bin_model(out) = bindown(out[0] grid, out[1] spectrum)',
                fl.tab.equal(r.value, spec(fl, 'self.bindown(m[0], m[1])', pe)),
                key='returns %s' % fmt(fl, r.value), detail='returns %s' % fmt(fl, r.value), loc=f.loc(r.node))
    # consumers take element 1 as the spectrum
    n = 0
    bad = []
    for fn in ix.all_functions():
        if fn.module.relpath.startswith('taurex/plot'):
            continue
        for node in ast.walk(fn.node):
            if isinstance(node, ast.Subscript) and isinstance(node.value, ast.Call) and \
                    isinstance(node.value.func, ast.Attribute) and \
                    node.value.func.attr in ('bindown', 'bin_model') and \
                    isinstance(node.slice, ast.Constant):
                n += 1
                if node.slice.value != 1:
                    bad.append('%s: %s' % (fn.site, unparse(node)))
    R.check('4.consumers', 'SIB', 'taurex', 'every consumer that indexes a bindown/bin_model result takes element 1 (the spectrum)',
            n >= 6 and not bad, key='; '.join(bad) or 'only %d consumers' % n, detail='; '.join(bad) or 'only %d consumers found' % n)
    # ---- 5. helpers
    site = UU + '::compute_bin_edges'
    stmt = 'edges = [g0-(g1-g0)/2, mid-points..., gN+(gN-gN-1)/2]; widths = |diff(edges)|'
    with R.guard('5.edges', 'ALG', site, stmt):
        f = ix.func(site)
        fl = mkflow(ix, site)
        pe = param_env(fl, f, ['g'])
        r = the_return(fl)
        edges = spec(fl, 'concatenate([[g[0]-(g[1]-g[0])/2], g[:-1] + diff(g)/2, [(g[-1]-g[-2])/2 + g[-1]]])', pe)
        want = fl.tab.atom('tuple', (edges, spec(fl, 'abs(diff(E))', {'E': edges})))
        R.check('5.edges', 'ALG', site, stmt, fl.tab.equal(r.value, want), key='returns %s' % fmt(fl, r.value),
                detail='returns %s\n    expected %s' % (fmt(fl, r.value), fmt(fl, want)), loc=f.loc(r.node))
    site = UU + '::bindown'
    stmt = '1-D histogram binner: hist(weights=data)/hist() over mid-point edges of the target grid'
    with R.guard('5.hist', 'ALG', site, stmt):
        f = ix.func(site)
        fl = mkflow(ix, site)
        pe = param_env(fl, f, ['ob', 'od', 'nb'])
        rets = fl.of('return')
        r = rets[-1]
        a = atom_of(fl, r.value * spec(fl, 'histogram(ob, X)[0]', dict(pe, X=fl.tab.name('X'))) )
        # structure: histogram(ob, edges, weights=od)[0] / histogram(ob, edges)[0]
        hs = [e for e in calls(fl, 'histogram')]
        why = []
        if len(hs) != 2:
            why.append('%d histogram calls' % len(hs))
        else:
            e0, e1 = hs
            if not (fl.tab.equal(e0.args[0], pe['ob']) and fl.tab.equal(e1.args[0], pe['ob'])
                    and fl.tab.equal(e0.args[1], e1.args[1])):
                why.append('histograms use different bins / samples')
            wk = e0.kw.get('weights') or e1.kw.get('weights')
            if wk is None or not fl.tab.equal(wk, pe['od']) or ('weights' in e0.kw) == ('weights' in e1.kw):
                why.append('weights')
            num = fl.tab.atom('call', tuple(e0.args + [e0.kw[k] for k in sorted(e0.kw)]), extra=('fn:histogram',) + tuple(sorted(e0.kw)))
            den = fl.tab.atom('call', tuple(e1.args + [e1.kw[k] for k in sorted(e1.kw)]), extra=('fn:histogram',) + tuple(sorted(e1.kw)))
            i0 = lambda x: fl.tab.atom('idx', (x, fl.tab.const(0)))
            if 'weights' in e1.kw:
                num, den = den, num
            if not fl.tab.equal(r.value, i0(num) / i0(den)):
                why.append('returns %s' % fmt(fl, r.value))
            # edges stores
            edges = e0.args[1]
            sts = {fmt(fl, e.target): e for e in fl.of('store')}
        # mid-point edges
        mids = [e for e in fl.of('store') if 'filter_lhs' in unparse(e.target_ast) or True]
        want_mid = spec(fl, '(nb[1:] + nb[:-1])/2', pe)
        if not any(fl.tab.equal(e.value, want_mid) for e in fl.of('store')):
            why.append('interior edges are not mid-points')
        # "more than one axis", however it is asked
        def multi_axis(g):
            if g.rf is None:
                return False
            if fl.tab.equal(g.rf, spec(fl, 'len(od.shape) - 1', pe)):
                return g.early or not g.positive
            return any(guard_is(fl, g, spec(fl, t_, pe), pos) for t_, pos in (
                ('len(od.shape) != 1', False), ('len(od.shape) > 1', False), ('len(od.shape) >= 2', False),
                ('len(od.shape) == 1', True), ('len(od.shape) < 2', True)))
        if r.guards and [g for g in r.guards if not multi_axis(g)]:
            why.append('1-D result returned under %s' % [g.text() for g in r.guards])
        for e in hs:
            if [g.node for g in e.guards] != [g.node for g in r.guards]:
                why.append('histogram call under other conditions than the return')
        R.check('5.hist', 'ALG', site, stmt, not why, key='; '.join(why), detail='; '.join(why), loc=f.loc(r.node))
        # the edge array, statement by statement
        E = hs[0].args[1] if hs else None
        why = []
        at = atom_of(fl, E) if E is not None else None
        z = atom_of(fl, unalloc(fl, E)) if E is not None else None
        if at is None or at.head != 'alloc' or z is None or z.extra[0] != 'fn:zeros' or \
                not fl.tab.equal(z.args[0], spec(fl, 'nb.shape[0] + 1', pe)):
            why.append('edge array is %s' % (fmt(fl, E) if E is not None else None))
        else:
            b = dict(pe, E=E)
            want = [('E[0]', None, 'nb[0]'), ('E[0]', 'Add', '-(nb[1] - nb[0])/2'),
                    ('E[-1]', None, 'nb[-1]'), ('E[-1]', 'Add', '(nb[-1] - nb[-2])/2'),
                    ('E[1:-1]', None, '(nb[1:] + nb[:-1])/2')]
            sts = [e for e in fl.of('store') if atom_of(fl, e.target) is not None and atom_of(fl, e.target).head == 'idx'
                   and fl.tab.equal(atom_of(fl, e.target).args[0], E)]
            # end stores commute with the interior store; each end's assignment precedes its shift
            got = [(fmt(fl, e.target), e.op, e) for e in sts]
            if len(sts) != len(want):
                why.append('%d writes to the edge array, expected %d' % (len(sts), len(want)))
            else:
                used = set()
                for tg, op, val in want:
                    hit = [e for e in sts if id(e) not in used and e.op == op and fl.tab.equal(e.target, spec(fl, tg, b))
                           and fl.tab.equal(e.value, spec(fl, val, b))]
                    if not hit:
                        why.append('no statement %s %s %s' % (tg, '+=' if op else '=', val))
                        continue
                    used.add(id(hit[0]))
                    if hit[0].guards or hit[0].loops:
                        why.append('%s is conditional' % unparse(hit[0].node))
                for tg in ('E[0]', 'E[-1]'):
                    pair = [e for e in sts if fl.tab.equal(e.target, spec(fl, tg, b))]
                    if len(pair) == 2 and not (pair[0].op is None and pair[1].op == 'Add'):
                        why.append('%s is shifted before it is set' % tg)
        R.check('5.hist.edges', 'ALG', site,
                'edges of the histogram binner: mid-points between target centres, first and last centre extended by half '
                'the neighbouring spacing, len(target)+1 entries', not why, key='; '.join(why), detail='; '.join(why), loc=f.loc())
    stmt = ('2-D input: column i = mean over the native points with digitize(native, edges, right=True) == i+1, '
            'i over every target bin')
    with R.guard('5.hist.2d', 'ALG', site, stmt):
        f = ix.func(site)
        fl = mkflow(ix, site)
        pe = param_env(fl, f, ['ob', 'od', 'nb'])
        hs = calls(fl, 'histogram')
        rets = [e for e in fl.of('return') if e.value is not None and 'histogram' not in fmt(fl, e.value)]
        if len(rets) != 1 or not hs:
            R.error('5.hist.2d', 'ALG', site, stmt, '%d returns besides the 1-D one' % len(rets), loc=f.loc())
        else:
            E = hs[0].args[1]
            b2 = dict(pe, E=E)
            b2['D'] = spec(fl, 'digitize(ob, E, right=True)', b2)
            forms = ['column_stack([od[..., D == i_].mean(axis=%s) for i_ in range(1, len(E))])' % ax_
                     for ax_ in ('len(od.shape) - 1', '-1')]
            forms += ['column_stack([mean(od[..., D == i_], axis=%s) for i_ in range(1, len(E))])' % ax_
                      for ax_ in ('len(od.shape) - 1', '-1')]
            got = rets[0].value
            ok = any(fl.tab.equal(got, spec(fl, t_, b2)) for t_ in forms)
            if not ok and got.mentions(lambda a: a.head in ('mutated', 'phi')):
                R.error('5.hist.2d', 'ALG', site, stmt, 'the 2-D result is built by statements this rule cannot follow: %s' %
                        fmt(fl, got)[:160], loc=f.loc())
            elif not ok and not got.mentions(lambda a: a.head in ('call', 'mcall') and a.extra and a.extra[0] == 'fn:digitize'):
                # another algorithm altogether: nothing to compare with (5.hist.order still applies)
                R.error('5.hist.2d', 'ALG', site, stmt, 'the 2-D result is not computed from digitize(): %s' % fmt(fl, got)[:160],
                        loc=f.loc())
            else:
                R.check('5.hist.2d', 'ALG', site, stmt, ok, key=fmt(fl, got)[:120],
                        detail='2-D result is %s' % fmt(fl, got)[:300], loc=f.loc(rets[0].node))
    stmt = ('the histogram binner does not depend on the order of the native points: the native grid and data only enter '
            'order-insensitive operations (digitize / histogram / masks), never a positional search or a segment reduction')
    with R.guard('5.hist.order', 'PERM', site, stmt):
        f = ix.func(site)
        fl = mkflow(ix, site)
        ps = f.params()
        natives = [fl.tab.name(ps[0]), fl.tab.name(ps[1])]
        POSITIONAL = {'searchsorted': 'binary search', 'reduceat': 'segment reduction', 'cumsum': 'running sum',
                      'diff': 'neighbour difference', 'interp': 'interpolation table'}
        sorts = [e for e in fl.of('call') if e.name in ('sort', 'argsort', 'sorted', 'lexsort')]
        why = []
        for e in fl.of('call'):
            if e.name not in POSITIONAL:
                continue
            hay = e.recv_rf if (e.recv_rf is not None and fmt(fl, e.recv_rf) not in ('np', 'numpy', 'np.add')) else \
                (e.args[0] if e.args else None)
            if e.name == 'interp':
                hay = e.args[1] if len(e.args) > 1 else None
            if hay is None:
                continue
            words = set(re.findall(r'[A-Za-z_][A-Za-z_0-9]*', fmt(fl, hay)))
            if any(fl.tab.equal(hay, n) or fmt(fl, n) in words for n in natives):
                if not sorts:
                    why.append('%s over %s (%s), which this function never sorts' % (e.name, fmt(fl, hay)[:60], POSITIONAL[e.name]))
        R.check('5.hist.order', 'PERM', site, stmt, not why, key='; '.join(why), detail='; '.join(why), loc=f.loc())


MUTANTS = [
    ('regress-f10', FB, "        if hasattr(grid_width, '__len__'):\n            grid_width = grid_width[sorted_input]\n", "", '1.perm.w'),
    ('regress-f11-axis', FB, "old_spect_err[..., save_start:save_stop + 1] ** 2, axis=-1)", "old_spect_err[..., save_start:save_stop + 1] ** 2, axis=0)", '3.error'),
    ('regress-f11-store', FB, "bin_error[..., idx] = sum_noise", "bin_error[idx] = sum_noise", '3.error'),
    ('init-width-unsorted', FB, 'self._wngrid_width = wngrid_width[sort_grid]', 'self._wngrid_width = wngrid_width', '1.init.final'),
    ('init-grid-unsorted', FB, 'self._wngrid = wngrid[sort_grid]', 'self._wngrid = wngrid', '1.init'),
    ('spectrum-unsorted', FB, 'spectrum = spectrum[..., sorted_input]\n', 'spectrum = spectrum\n', '1.perm.S'),
    ('error-unsorted', FB, 'error = error[..., sorted_input]', 'error = error', '1.perm.E'),
    ('grid-unsorted', FB, 'wngrid = wngrid[sorted_input]', 'wngrid = wngrid', '1.perm.g'),
    ('weight-norm', FB, '/ (wn_max - wn_min)\n', '/ (wn_max + wn_min)\n', '2.flux'),
    ('weight-minmax', FB, 'np.minimum(wn_max, spect_max) - np.maximum(spect_min, wn_min)', 'np.maximum(wn_max, spect_max) - np.maximum(spect_min, wn_min)', '2.flux'),
    ('flux-nonorm', FB, 'np.sum(weight / sum_weight * old_spect_flux[', 'np.sum(weight * old_spect_flux[', '2.flux'),
    ('flux-window', FB, 'old_spect_flux[..., save_start:save_stop + 1], axis=-1)', 'old_spect_flux[..., save_start:save_stop], axis=-1)', '2.flux'),
    ('err-linear', FB, 'sum_noise = np.sqrt(sum_noise / sum_weight / sum_weight)', 'sum_noise = np.sqrt(sum_noise / sum_weight)', '3.error'),
    ('err-window', FB, 'old_spect_err[..., save_start:save_stop + 1] ** 2', 'old_spect_err[..., save_start + 1:save_stop + 1] ** 2', '3.error'),
    ('clamp-stop', FB, 'save_stop = min(save_stop, old_spect_min.shape[0] - 1)', 'save_stop = min(save_stop, old_spect_min.shape[0])', '3b.clamp'),
    ('search-operand', FB, "save_start = np.searchsorted(old_spect_max, wn_min, side='right')", "save_start = np.searchsorted(old_spect_max, wn, side='right')", '3b.search'),
    ('edge-halfwidth', FB, 'old_spect_min = old_spect_wn - old_spect_width / 2', 'old_spect_min = old_spect_wn - old_spect_width', '3b.edges'),
    ('roles-swap', FB, 'return (self._wngrid, bin_spectrum, bin_error, self._wngrid_width)', 'return (self._wngrid, bin_error, bin_spectrum, self._wngrid_width)', '4.roles.flux'),
    ('native-swap', NB, 'return (wngrid, spectrum, error, grid_width)', 'return (wngrid, spectrum, grid_width, error)', '4.roles.native'),
    ('simple-grid', SB, 'bindown(wngrid, spectrum, self._wngrid)', 'bindown(self._wngrid, spectrum, wngrid)', '4.roles.simple'),
    ('bin_model-index', BB, 'return self.bindown(model_output[0], model_output[1])', 'return self.bindown(model_output[0], model_output[2])', '4.bin_model'),
    ('consumer-index', 'taurex/model/simplemodel.py', 'binned = binner.bindown(native_grid, native)[1]', 'binned = binner.bindown(native_grid, native)[2]', '4.consumers'),
    ('edges-first', UU, '[wngrid[0] - (wngrid[1] - wngrid[0]) / 2]', '[wngrid[0] - (wngrid[1] - wngrid[0])]', '5.edges'),
    ('hist-noweights', UU, 'np.histogram(original_bin, filter_lhs, weights=original_data)[0] / np.histogram(original_bin, filter_lhs)[0]', 'np.histogram(original_bin, filter_lhs, weights=original_data)[0]', '5.hist'),
    ('hist-mid', UU, 'filter_lhs[1:-1] = (new_bin[1:] + new_bin[:-1]) / 2', 'filter_lhs[1:-1] = new_bin[1:]', '5.hist'),
]
EQUIVALENTS = [
    ('weight-commute', FB, 'np.minimum(wn_max, spect_max) - np.maximum(spect_min, wn_min)', 'np.minimum(spect_max, wn_max) - np.maximum(wn_min, spect_min)'),
    ('flux-factor', FB, 'sum_spectrum = np.sum(weight / sum_weight * old_spect_flux[..., save_start:save_stop + 1], axis=-1)', 'sum_spectrum = np.sum(weight * old_spect_flux[..., save_start:save_stop + 1] / np.sum(weight), axis=-1)'),
    ('err-sq', FB, 'sum_noise = np.sqrt(sum_noise / sum_weight / sum_weight)', 'sum_noise = np.sqrt(sum_noise / sum_weight ** 2)'),
]
UNCONDITIONAL = [
    (FB, 'bin_spectrum[..., idx] = sum_spectrum'),
    (FB, 'self._wngrid = wngrid[sort_grid]'),
    (FB, 'grid_width = grid_width[sorted_input]'),
    (UU, 'filter_lhs[0] -= (new_bin[1] - new_bin[0]) / 2'),
    (UU, 'filter_lhs[1:-1] = (new_bin[1:] + new_bin[:-1]) / 2'),
]
