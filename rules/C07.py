"""C07 Retrieval set-up depends only on current settings; updates touch only
fitted parameters."""
import ast

from sa.helpers import (guard_is, same_cond, validated, unlicensed, the_return, mkflow, spec, code, one, calls, bind_call, param_env,
                        fmt, atom_of, unparse, walk_no_nested, unalloc)
from sa.index import AnalysisError, FuncInfo
from sa.algebra import RF, dotted

FLOOR = 55
OP = 'taurex/optimizer/optimizer.py'
FT = 'taurex/data/fittable.py'
FILES = [OP, FT, 'taurex/model/simplemodel.py', 'taurex/model/model.py']
EXPLANATION = (
    'Static rule conformance for the retrieval set-up: every mutator selects, '
    'reads and writes one and the same parameter table and rewrites exactly '
    'one slot of the 7-slot fitting tuple (4-slot derived tuple); the prior '
    'table handed to the parameter compiler holds nothing but user-set priors '
    '(who-may-write analysis), so defaults are recomputed from current '
    'bounds/mode; the four views agree on their discriminator; default priors '
    'and view formulas match; update_model calls only fitted setters; every '
    'fit-parameter getter has a setter on the same attribute; parameter names '
    'are unique; every tuple unpacking / positional access agrees with the '
    'layout defined by Fittable.')
ASSUMPTIONS = ['no persistent retrieval state exists outside the parameter tuples and the prior tables '
               '(this reduction is the claim)', 'component classes outside taurex/ are not analysed']
NOT_DECIDED = ['parameter values themselves', 'behaviour of user-supplied prior classes']

OPT = OP + '::Optimizer'
FIT_LAYOUT = ['name', 'latex', 'fget', 'fset', 'mode', 'to_fit', 'bounds']
DER_LAYOUT = ['name', 'latex', 'fget', 'compute']

MUTATORS = {
    # method: (table, slot index, description of new value)
    'enable_fit': ('fittingParameters', 5, 'True'),
    'disable_fit': ('fittingParameters', 5, 'False'),
    'set_boundary': ('fittingParameters', 6, 'P1'),
    'set_factor_boundary': ('fittingParameters', 6, '(P1[0]*G(), P1[1]*G())'),
    'set_mode': ('fittingParameters', 4, 'P1.lower()'),
    'enable_derived': ('derivedParameters', 3, 'True'),
    'disable_derived': ('derivedParameters', 3, 'False'),
}


def table_attrs(f):
    """Attributes named *Parameters used in a mutator: (membership tests,
    reads, writes)."""
    tests, reads, writes = [], [], []
    for n in walk_no_nested(f.node):
        if isinstance(n, ast.Compare) and len(n.ops) == 1 and \
                isinstance(n.ops[0], (ast.In, ast.NotIn)) and \
                isinstance(n.comparators[0], ast.Attribute):
            tests.append((n.comparators[0].attr, unparse(n.comparators[0].value), n))
        if isinstance(n, ast.Subscript) and isinstance(n.value, ast.Attribute) and \
                n.value.attr.endswith('Parameters'):
            (writes if isinstance(n.ctx, ast.Store) else reads).append(
                (n.value.attr, unparse(n.value.value), n))
    return tests, reads, writes


def mutators(ix, R):
    for name, (table, slot, newv) in MUTATORS.items():
        site = OPT + '.' + name
        with R.guard('1.table', 'SIB', site, 'table selection'):
            # decided on the flow (helpers that are new to the reviewed tree are followed): the one store goes to
            # <object>.<table>[parameter] with <object> = model if parameter in model.<table'> else observation,
            # and <table'> must be <table>; the tuple written is built from a read of the same location (5.slot)
            f = ix.func(site)
            fl = mkflow(ix, site)
            par = fl.tab.name(f.params()[1])
            why = []
            sts = fl.of('store')
            norm = lambda x: x.replace('_', '').lower()
            if len(sts) > 1:
                # the entry is rebuilt through something this rule does not read (a mutable copy edited in place ...)
                raise AnalysisError('%d stores: the entry is not rewritten by one store of a tuple' % len(sts))
            if len(sts) != 1:
                why.append('%d stores' % len(sts))
            else:
                ta = atom_of(fl, sts[0].target)
                base = atom_of(fl, ta.args[0]) if ta is not None and ta.head == 'idx' and len(ta.args) == 2 else None
                sel = None
                if base is not None and base.head == 'guard' and fl.tab.equal(ta.args[1], par):
                    # (model.T if p in model.T' else observation.T'')[p]: the choice made between the tables rather
                    # than between the objects
                    c_, mt_, ot_ = base.args
                    mtx_, otx_ = fmt(fl, mt_), fmt(fl, ot_)
                    if mtx_.startswith('self._model.') and otx_.startswith('self._observed.') and \
                            mtx_.count('.') == 2 and otx_.count('.') == 2:
                        mn_, on_ = mtx_.split('.')[2], otx_.split('.')[2]
                        if norm(mn_) != norm(on_):
                            why.append('model table %s, observation table %s' % (mn_, on_))
                        sel = (on_, (c_, code(fl, 'self._model'), code(fl, 'self._observed')))
                    else:
                        raise AnalysisError('the table written is %s: not a shape this rule reads' % fmt(fl, ta.args[0]))
                elif base is not None and base.head == 'getattr' and fl.tab.equal(ta.args[1], par):
                    ga = atom_of(fl, base.args[0])
                    if ga is None or ga.head != 'guard':
                        why.append('object is %s' % fmt(fl, base.args[0]))
                    else:
                        sel = (base.args[1], tuple(ga.args))
                else:
                    why.append('table is not both read and written: stores at %s' % fmt(fl, sts[0].target))
                if sel is not None:
                    written = sel[0]
                    if True:
                        c, m, o = sel[1]
                        ca = atom_of(fl, c)
                        tested = None
                        if ca is not None and ca.head == 'cmp' and ca.extra == ('In',) and fl.tab.equal(ca.args[0], par):
                            t_ = fmt(fl, ca.args[1])
                            if t_.startswith('self._model.'):
                                tested = t_[len('self._model.'):]
                        if tested is None:
                            why.append('%d membership tests on the model table (object chosen by %s)' % (0, fmt(fl, c)))
                        elif norm(tested) != norm(table) or norm(written) != norm(table):
                            why.append('membership test on %s, read from / written to %s (expected %s throughout)' % (
                                tested, written, table))
                        if fmt(fl, m) != 'self._model' or fmt(fl, o) != 'self._observed':
                            why.append('objects are %s / %s' % (fmt(fl, m), fmt(fl, o)))
            R.check('1.table', 'SIB', site,
                    'the table used to pick model vs observation is the table that is read and written (%s)' % table,
                    not why, key='; '.join(why), detail='; '.join(why), loc=f.loc())
        with R.guard('5.slot', 'EFF', site, 'one slot rewritten'):
            f = ix.func(site)
            fl = mkflow(ix, site)
            ps = f.params()
            par = fl.tab.name(ps[1])
            st = one([e for e in fl.of('store')], 'table store')
            layout = FIT_LAYOUT if table == 'fittingParameters' else DER_LAYOUT
            ta = atom_of(fl, st.target)
            va = atom_of(fl, st.value)
            why = []
            if ta is None or ta.head != 'idx' or not fl.tab.equal(ta.args[1], par):
                why.append('stores at %s' % unparse(st.target_ast))
            if va is None or va.head != 'tuple' or len(va.args) != len(layout):
                why.append('stores %s' % fmt(fl, st.value))
            else:
                src = fl.tab.atom('idx', (ta.args[0], par)) if ta is not None else None
                for k, x in enumerate(va.args):
                    if k == slot:
                        b = {'P1': fl.tab.name(ps[2]) if len(ps) > 2 else None,
                             'G': None}
                        if newv in ('True', 'False'):
                            okv = fmt(fl, x) == newv
                        elif newv == 'P1':
                            okv = fl.tab.equal(x, b['P1'])
                        elif newv == 'P1.lower()':
                            okv = fl.tab.equal(x, spec(fl, 'P1.lower()', {'P1': b['P1']}))
                        else:
                            g = fl.tab.atom('callexpr', (fl.tab.atom('idx', (src, fl.tab.const(2))),))
                            okv = fl.tab.equal(x, fl.tab.atom('tuple', (
                                fl.tab.atom('idx', (b['P1'], fl.tab.const(0))) * g,
                                fl.tab.atom('idx', (b['P1'], fl.tab.const(1))) * g)))
                        if not okv:
                            why.append('slot %d (%s) becomes %s' % (k, layout[k], fmt(fl, x)))
                    elif not fl.tab.equal(x, fl.tab.atom('idx', (src, fl.tab.const(k)))):
                        why.append('slot %d (%s) is not passed through: %s' % (k, layout[k], fmt(fl, x)))
            if [g for g in st.guards if not validated(g)] or st.loops:
                why.append('store is conditional: %s' % [g.text() for g in st.guards if not validated(g)])
            R.check('5.slot', 'EFF', site,
                    '%s rewrites exactly slot %d (%s) of the tuple and passes the other %d through' % (
                        name, slot, layout[slot], len(layout) - 1),
                    not why, key='; '.join(why), detail='; '.join(why), loc=f.loc(st.node))
            # 7. unknown name is an error: the tuple that is stored unconditionally is built from
            # table[parameter] of the selected object, so the lookup (KeyError for an unknown name) always runs
            passed = va is not None and va.head == 'tuple' and ta is not None and any(
                k != slot and fl.tab.equal(x, fl.tab.atom('idx', (fl.tab.atom('idx', (ta.args[0], par)), fl.tab.const(k))))
                for k, x in enumerate(va.args))
            uncond = passed and not [g for g in st.guards if not validated(g)] and not st.loops
            R.check('7.unknown', 'DOM', site,
                    'an unknown parameter name fails (unconditional table[parameter] lookup raises KeyError)',
                    uncond, key='no unconditional lookup', detail='no unconditional table[parameter] read',
                    loc=f.loc())
    # set_mode validation
    site = OPT + '.set_mode'
    with R.guard('5.mode', 'DOM', site, 'mode validation'):
        f = ix.func(site)
        fl = mkflow(ix, site)
        rs = fl.of('raise')
        ps_ = f.params()
        okset = [spec(fl, "P.lower() in %s" % t, {'P': fl.tab.name(ps_[2])}) for t in ("('log', 'linear')", "('linear', 'log')")]
        ok = any(guard_is(fl, g, w, False) for r in rs for g in r.guards for w in okset)
        st = one(fl.of('store'), 'store')
        ok = ok and fl.events.index(rs[0]) < fl.events.index(st) if rs else False
        R.check('5.mode', 'DOM', site, "a mode other than 'log'/'linear' raises before anything is written",
                ok, key='no validation', detail='mode is not validated before the store', loc=f.loc())
    # set_prior
    site = OPT + '.set_prior'
    with R.guard('1.set_prior', 'SIB', site, 'set_prior'):
        f = ix.func(site)
        fl = mkflow(ix, site)
        # on the flow (helpers new to the reviewed tree are followed): the tables named by the membership test that
        # guards the raise - the one that selects the object and the one that is searched - are the fitting tables
        import re as _re
        rs = fl.of('raise')
        st = [e for e in fl.of('store')]
        par_ = fl.tab.name(f.params()[1])
        used = set()
        for g in (rs[0].guards if rs else ()):
            a_ = atom_of(fl, g.rf) if g.rf is not None else None
            if a_ is not None and a_.head == 'cmp' and a_.extra[0] == 'In' and fl.tab.equal(a_.args[0], par_):
                used |= {x.replace('_', '').lower() for x in _re.findall(r'\.(_?[A-Za-z_]*[Pp]arameters)\b', fmt(fl, a_.args[1]))}
        if rs and st and not used:
            raise AnalysisError('the test that guards the raise of set_prior names no parameter table: %s' %
                                [g.text() for g in rs[0].guards])
        ok = used == {'fittingparameters'} and rs and st and \
            fl.events.index(rs[0]) < fl.events.index(st[0]) and \
            any(_is_table_test(fl, g, par_) for g in rs[0].guards)
        R.check('1.set_prior', 'SIB', site,
                'set_prior checks the name against the fitting table of the selected object and raises before storing',
                ok, key='set_prior check', detail='tests %s, raises %d, stores %d' % (sorted(used), len(rs), len(st)),
                loc=f.loc())


def _is_table_test(fl, g, par):
    """guard g means `par not in <something>.fittingParameters`"""
    a = atom_of(fl, g.rf) if g.rf is not None else None
    if a is None or a.head != 'cmp' or a.extra[0] != 'In' or g.positive:
        return False
    return fl.tab.equal(a.args[0], par) and 'fittingparameters' in fmt(fl, a.args[1]).replace('_', '').lower()


def prior_table(ix, R):
    """2. who may write the prior table that compile_params consults."""
    site = OPT + '.compile_params'
    stmt = ('the prior table consulted by the parameter compiler contains only user-set priors: '
            'it is written only by set_prior/__init__, or rebuilt from such a table at the top of '
            'every compile (so defaults follow the current bounds and mode)')
    with R.guard('2.priors', 'EFF', site, stmt):
        f = ix.func(site)
        fl = mkflow(ix, site)
        cps = calls(fl, 'compile_params')
        cps = [e for e in cps if isinstance(e.node.func, ast.Name)]
        if len(cps) == 1 and cps[0].loops and len(cps[0].node.args) > 2 and isinstance(cps[0].node.args[2], ast.Name):
            # one call in a loop over the components, the table threaded through a local: what the local is BEFORE the
            # loop is the table the first pass consults and fills.  The user's own table handed over as it is (no copy)
            # gets the defaults written into it - they are then found again, by name, at the next compile
            tname = cps[0].node.args[2].id
            pre = [e for e in fl.of('assign') if e.name == tname and not e.loops and
                   fl.events.index(e) < fl.events.index(cps[0])]
            if pre and not pre[-1].guards:
                va = atom_of(fl, pre[-1].value)
                if va is not None and va.head == 'attr' and va.args[0].startswith('self.') and va.args[0].count('.') == 1 and \
                        attr_writers(ix, f.cls, va.args[0].split('.')[1]) <= {'set_prior', '__init__'}:
                    R.fail('2.priors', 'EFF', site, stmt, 'the table of the first pass is %s itself, not a copy' % va.args[0],
                           'compile_params(...) is handed %s (the user-set priors) as the table it fills: default priors '
                           'are written into it and reused by name at later compiles' % va.args[0], f.loc(cps[0].node))
        if len(cps) != 2:
            raise AnalysisError('expected two compile_params(...) calls (model, observation)')
        first = cps[0]
        tbl_ast = first.node.args[2] if len(first.node.args) > 2 else None
        for k in first.node.keywords:
            if k.arg == 'fit_priors':
                tbl_ast = k.value
        if tbl_ast is None:
            raise AnalysisError('no prior table passed to compile_params')
        d = dotted(tbl_ast)
        if d is None or not d.startswith('self.'):
            raise AnalysisError('prior table argument %s is not an attribute' % unparse(tbl_ast))
        attr = d.split('.')[1]
        c = f.cls
        writers = attr_writers(ix, c, attr)
        user_only = {'set_prior', '__init__'}
        why = []
        others = sorted(w for w in writers if w not in user_only)
        if others:
            # must be rebuilt at the top of compile_params from a user-only table
            rebuilt = None
            for e in fl.of('store'):
                if fmt(fl, e.target) == 'self.' + attr and fl.events.index(e) < fl.events.index(first) \
                        and not e.guards and not e.loops:
                    rebuilt = e
            if rebuilt is None:
                why.append('self.%s is written by %s and never rebuilt before compile: a default prior '
                           'computed from earlier bounds/mode is found again by name and reused' % (attr, others))
            else:
                srcs = [a for a in rebuilt.value.all_atoms()
                        if fl.tab.atoms[a].head == 'attr' and fl.tab.atoms[a].args[0].startswith('self.')]
                src_attrs = {fl.tab.atoms[a].args[0].split('.')[1] for a in srcs}
                if not src_attrs and fmt(fl, rebuilt.value) not in ('tuple()', 'dict()', 'opaque({})'):
                    why.append('rebuilt from %s' % fmt(fl, rebuilt.value))
                for s in src_attrs:
                    ws = attr_writers(ix, c, s)
                    if not ws <= user_only:
                        why.append('rebuilt from self.%s which is written by %s' % (s, sorted(ws - user_only)))
                    # ... and set_prior really records the user's prior there, under the parameter's name
                    sp = ix.func(OPT + '.set_prior')
                    sfl = mkflow(ix, sp)
                    sps = sp.params()
                    want_t = spec(sfl, 'self.%s[p]' % s, {'p': sfl.tab.name(sps[1])})
                    hit = [e for e in sfl.of('store') if sfl.tab.equal(e.target, want_t) and
                           sfl.tab.equal(e.value, sfl.tab.name(sps[2])) and not [g for g in e.guards if not validated(g)]
                           and not e.loops]
                    if len(hit) != 1:
                        why.append('set_prior does not store the prior as self.%s[parameter] unconditionally' % s)
                va = atom_of(fl, rebuilt.value)
                if src_attrs and not (va is not None and va.head == 'call' and va.extra[0] in (
                        'fn:dict', 'fn:self.%s.copy' % list(src_attrs)[0])):
                    why.append('rebuilt as an alias, not a copy: %s' % fmt(fl, rebuilt.value))
        R.check('2.priors', 'EFF', site, stmt, not why, key='; '.join(why), detail='; '.join(why),
                loc=f.loc(first.node), extracted='table self.%s, writers %s' % (attr, sorted(writers)))
        # both compile calls use the same table, model first then observation
        second = cps[1]
        t2 = second.node.args[2] if len(second.node.args) > 2 else None
        for k_ in second.node.keywords:
            if k_.arg == 'fit_priors':
                t2 = k_.value
        # (the arguments as values: the calls may sit in a helper that is handed the component)
        def arg_(ev_, k_, kw_):
            return ev_.args[k_] if len(ev_.args) > k_ else ev_.kw.get(kw_)
        okb = t2 is not None and unparse(t2) == unparse(tbl_ast) and all(
            arg_(ev_, k_, kw_) is not None and fl.tab.equal(arg_(ev_, k_, kw_), code(fl, want_))
            for ev_, k_, kw_, want_ in ((first, 0, 'fitparams', 'self._model.fittingParameters'),
                                        (first, 1, 'driveparams', 'self._model.derivedParameters'),
                                        (second, 0, 'fitparams', 'self._observed.fittingParameters'),
                                        (second, 1, 'driveparams', 'self._observed.derivedParameters')))
        shown = ' / '.join('compile_params(%s)' % ', '.join([fmt(fl, a_)[:50] for a_ in ev_.args] + [
            '%s=%s' % (k_, fmt(fl, v_)[:50]) for k_, v_ in sorted(ev_.kw.items())]) for ev_ in (first, second))
        R.check('4.order', 'ARG', site,
                'model parameters are compiled first, then the observation\'s, with the same prior table',
                okb, key=shown, detail=shown, loc=f.loc(first.node))
        # every default created by either pass ends up in the table the views read
        # (fit_names / fit_latex index self._fit_priors by the fitted names)
        why = []
        for k, ce in enumerate(cps):
            from sa.helpers import call_atom
            ret = call_atom(fl, 'compile_params', ce.args, ce.kw)
            tbl = fl.tab.atom('idx', (ret, fl.tab.const(2)))
            merged = False
            for e in calls(fl, 'update'):
                if unparse(e.node.func) == 'self.%s.update' % attr and e.args and fl.tab.equal(e.args[0], tbl) \
                        and fl.events.index(e) > fl.events.index(ce) and not e.guards:
                    merged = True
            for e in fl.of('store'):
                if fmt(fl, e.target) == 'self.' + attr and fl.tab.equal(e.value, tbl) and \
                        fl.events.index(e) > fl.events.index(ce) and not e.guards:
                    merged = True
            if not merged:
                why.append('the prior table returned by the %s pass is not merged into self.%s' % (
                    ('model', 'observation')[k], attr))
        R.check('2.merge', 'EFF', site,
                'the priors returned by both compile passes are merged into the table that fit_names / fit_latex index '
                '(the helper replaces an empty table by a new dictionary, so in-place filling cannot be relied on)',
                not why, key='; '.join(why), detail='; '.join(why), loc=f.loc())
        # results: the three lists are what the model pass returned, extended by what the observation pass returned
        why = []
        from sa.helpers import call_atom
        r1 = call_atom(fl, 'compile_params', cps[0].args, cps[0].kw)
        r2 = call_atom(fl, 'compile_params', cps[1].args, cps[1].kw)
        for attr_, k in (('fitting_parameters', 0), ('fitting_priors', 1), ('derived_parameters', 3)):
            asg = [e for e in fl.of('store') if fmt(fl, e.target) == 'self.' + attr_ and
                   fl.events.index(e) > fl.events.index(cps[0])]
            if len(asg) != 1 or asg[0].guards or asg[0].loops or \
                    not fl.tab.equal(asg[0].value, fl.tab.atom('idx', (r1, fl.tab.const(k)))):
                why.append('self.%s is not assigned element %d of the model pass' % (attr_, k))
            ex = [e for e in calls(fl, 'extend') if unparse(e.node.func) == 'self.%s.extend' % attr_]
            if len(ex) != 1 or ex[0].guards or ex[0].loops or \
                    not fl.tab.equal(ex[0].args[0], fl.tab.atom('idx', (r2, fl.tab.const(k)))) or \
                    (asg and fl.events.index(ex[0]) < fl.events.index(asg[0])):
                why.append('self.%s is not extended by element %d of the observation pass' % (attr_, k))
        for ce in cps:
            if ce.guards or ce.loops:
                why.append('a compile pass is conditional')
        R.check('4.assign', 'ARG', site,
                'fitting_parameters / fitting_priors / derived_parameters = elements 0 / 1 / 3 of the model pass, each '
                'extended by the same element of the observation pass; both passes run unconditionally on every compile',
                not why, key='; '.join(why), detail='; '.join(why), loc=f.loc())
        sts = {fmt(fl, e.target): e for e in fl.of('store') if not e.loops}
        ext = [e for e in calls(fl, 'extend')]
        okx = len(ext) >= 2
        R.check('4.extend', 'ARG', site, 'observation parameters and priors are appended after the model\'s, pairwise',
                okx and [unparse(e.node.func) for e in ext[:2]] == ['self.fitting_parameters.extend',
                                                                   'self.fitting_priors.extend'] or
                okx and {unparse(e.node.func) for e in ext} >= {'self.fitting_parameters.extend',
                                                               'self.fitting_priors.extend'},
                key='extends %s' % [unparse(e.node) for e in ext], detail='extends %s' % [unparse(e.node) for e in ext],
                loc=f.loc())


def attr_writers(ix, c, attr):
    """Methods of class c (and subclasses) that write self.<attr>: assignment,
    item store, or a mutating method call."""
    out = set()
    mut = {'update', 'pop', 'clear', 'setdefault', 'popitem', '__setitem__', 'append', 'extend'}
    for k in ix.subclasses(c):
        for lst in k.methods.values():
            for fn in lst:
                for n in ast.walk(fn.node):
                    if isinstance(n, (ast.Assign, ast.AugAssign, ast.AnnAssign)):
                        tg = n.targets if isinstance(n, ast.Assign) else [n.target]
                        for t in tg:
                            for x in ast.walk(t):
                                if isinstance(x, ast.Attribute) and x.attr == attr and \
                                        dotted(x) == 'self.' + attr:
                                    out.add(fn.name)
                    if isinstance(n, ast.Call) and isinstance(n.func, ast.Attribute) and \
                            n.func.attr in mut and dotted(n.func.value) == 'self.' + attr:
                        out.add(fn.name)
    # module-level functions that receive the table and write it
    return out


def compile_fn(ix, R):
    site = OP + '::compile_params'
    with R.guard('4.compile', 'ALG', site, 'compile_params'):
        f = ix.func(site)
        fl = mkflow(ix, site)
        pe = param_env(fl, f, ['fit', 'der', 'pri'])
        # loop over fit.values(), unpack 7
        apps = calls(fl, 'append')
        # the three result lists are identified by their position in the returned tuple, not by their names
        r0 = the_return(fl)
        relts = r0.value_ast.elts if isinstance(r0.value_ast, ast.Tuple) and len(r0.value_ast.elts) == 4 else None
        if relts is None or not all(isinstance(x, ast.Name) for x in relts):
            R.fail('4.ret', 'ARG', site, 'returns (fitted tuples, their priors, prior table, derived tuples)',
                   key=unparse(r0.value_ast), detail='returns %s' % unparse(r0.value_ast), loc=f.loc(r0.node))
            return
        n_fit, n_pri, n_tbl, n_der = [x.id for x in relts]
        fp = [e for e in apps if unparse(e.node.func.value) == n_fit]
        pr = [e for e in apps if unparse(e.node.func.value) == n_pri]
        a = one(fp, 'append to fitting_parameters')
        lp = one(a.loops, 'loop')
        item = fl.tab.atom('elem', (lp.iter_rf[0], lp.index))
        why = []
        if not fl.tab.equal(lp.iter_rf[0], spec(fl, 'fit.values()', pe)):
            why.append('iterates %s' % unparse(lp.iter_ast))
        g = [x for x in a.guards]
        tofit = fl.tab.atom('idx', (item, fl.tab.const(5)))
        if len(g) != 1 or not g[0].positive or not fl.tab.equal(g[0].rf, tofit):
            why.append('appended under %s (expected: slot 5, the fit flag)' % [x.text() for x in g])
        if not fl.tab.equal(a.args[0], item):
            why.append('appends %s' % fmt(fl, a.args[0]))
        R.check('4.select', 'ALG', site,
                'fitted list = the tuples whose fit flag (slot 5) is set, in the iteration order of the table',
                not why, key='; '.join(why), detail='; '.join(why), loc=f.loc(a.node))
        # default prior
        why = []
        name = fl.tab.atom('idx', (item, fl.tab.const(0)))
        mode = fl.tab.atom('idx', (item, fl.tab.const(4)))
        bounds = fl.tab.atom('idx', (item, fl.tab.const(6)))
        b = {'mode': mode, 'bounds': bounds}
        want = spec(fl, "_guard(mode == 'log', LogUniform(lin_bounds=bounds), Uniform(bounds=bounds))", b)
        want2 = spec(fl, "_guard(mode == 'linear', Uniform(bounds=bounds), LogUniform(lin_bounds=bounds))", b)
        def membership(g):
            """+1 / -1 when guard g says the name is absent from / present in the prior table, else 0"""
            a_ = atom_of(fl, g.rf)
            if a_ is not None and a_.head == 'cmp' and a_.extra[0] in ('NotIn', 'In'):
                return 1 if (a_.extra[0] == 'NotIn') == g.positive else -1
            return 0

        def in_fitted_branch(e):
            return lp in e.loops and len(e.loops) == 1 and any(fl.tab.equal(x.rf, tofit) and x.positive for x in e.guards)

        def others(e):
            return [x for x in e.guards if not (fl.tab.equal(x.rf, tofit) and x.positive) and not membership(x)]
        # the table: the caller's (or a new one)
        tblv = [e for e in fl.of('assign') if not e.loops and not e.guards and
                (fl.tab.equal(e.value, spec(fl, 'pri or {}', pe)) or fl.tab.equal(e.value, spec(fl, 'pri or dict()', pe)))]
        if len(tblv) != 1:
            why.append('the prior table is not `fit_priors or {}`')
            tbl = None
        else:
            tbl = tblv[0].value
        stored = fl.tab.atom('idx', (tbl, name)) if tbl is not None else None
        # the default is entered in the table, under the parameter's name, exactly when the name is absent
        ent = [e for e in fl.of('store') if tbl is not None and atom_of(fl, e.target) is not None and
               atom_of(fl, e.target).head == 'idx' and fl.tab.equal(atom_of(fl, e.target).args[0], tbl)]
        dflt_ok = False
        if len(ent) != 1:
            why.append('the default prior is not entered in the table under the parameter name (%d stores into the table)' % len(ent))
        else:
            en = ent[0]
            if not fl.tab.equal(atom_of(fl, en.target).args[1], name):
                why.append('the default is stored under %s' % fmt(fl, atom_of(fl, en.target).args[1]))
            if not (fl.tab.equal(en.value, want) or fl.tab.equal(en.value, want2)):
                why.append('default prior is %s' % fmt(fl, en.value))
            else:
                dflt_ok = True
            ms = [membership(x) for x in en.guards if membership(x)]
            if ms != [1] or not in_fitted_branch(en) or others(en):
                if not ms and any(not membership(x) and not (fl.tab.equal(x.rf, tofit)) for x in en.guards):
                    raise AnalysisError('the default prior is entered under %s: not a membership test of the prior '
                                        'table this extractor recognises' % [x.text() for x in en.guards])
                why.append('the default is entered under %s (expected: fitted, and the name not yet in the table)' %
                           [x.text() for x in en.guards])
            for x in en.guards:
                a_ = atom_of(fl, x.rf)
                if membership(x) and not (fl.tab.equal(a_.args[0], name) and fl.tab.equal(a_.args[1], tbl)):
                    why.append('membership test is %s' % x.text())
        # one prior per fitted parameter: either one append of table[name] after the default was entered, or one
        # append per side of the membership test (the default itself / the stored prior)
        for e in pr:
            if not in_fitted_branch(e):
                why.append('prior appended outside the fitted branch')
            if others(e):
                why.append('prior appended under %s' % [x.text() for x in e.guards])
        sides = sorted(sum(membership(x) for x in e.guards) for e in pr)
        if sides == [0]:
            e = pr[0]
            # ... or the two sides joined in one local before a single append: the stored prior if the name is in the
            # table, else the default that has just been entered
            joined = stored is not None and dflt_ok and ent and fl.events.index(ent[0]) < fl.events.index(e) and any(
                fl.tab.equal(e.args[0], spec(fl, '_guard(N in T, T[N], D)', {'N': name, 'T': tbl, 'D': d_}))
                for d_ in (want, want2))
            if not joined and (stored is None or not fl.tab.equal(e.args[0], stored) or
                               (ent and fl.events.index(e) < fl.events.index(ent[0]))):
                why.append('appends %s, not the table entry made for the parameter' % fmt(fl, e.args[0]))
        elif sides == [-1, 1]:
            for e in pr:
                m_ = sum(membership(x) for x in e.guards)
                if m_ == 1 and not (dflt_ok and (fl.tab.equal(e.args[0], ent[0].value) or fl.tab.equal(e.args[0], stored))):
                    why.append('default prior is %s' % [fmt(fl, e.args[0])])
                if m_ == -1 and (stored is None or not fl.tab.equal(e.args[0], stored)):
                    ua = atom_of(fl, e.args[0])
                    if ua is not None and ua.head == 'idx' and tbl is not None and not fl.tab.equal(ua.args[0], tbl):
                        why.append('stored prior is read from %s' % fmt(fl, ua.args[0]))
                    else:
                        why.append('stored prior looked up by %s' % fmt(fl, e.args[0]))
        else:
            why.append('%d appends to the prior list on the two sides of the membership test: %s' % (len(pr), sides))
        R.check('4.default', 'ALG', site,
                "default prior: LogUniform(lin_bounds=bounds) when mode == 'log', else Uniform(bounds=bounds); "
                'a stored prior is looked up by the parameter name; one prior per fitted parameter, same order',
                not why, key='; '.join(why), detail='; '.join(why), loc=f.loc(pr[0].node) if pr else f.loc())
        # derived
        dp = [e for e in apps if unparse(e.node.func.value) == n_der]
        dcomp = [e for e in fl.of('assign') if e.name == n_der and atom_of(fl, e.value) is not None and
                 atom_of(fl, e.value).head == 'comp']
        if not dp and len(dcomp) == 1 and not dcomp[0].guards and not dcomp[0].loops:
            # the same selection written as a comprehension
            okd = fl.tab.equal(dcomp[0].value, spec(fl, '[p_ for p_ in der.values() if p_[3]]', pe))
            R.check('4.derived', 'ALG', site, 'derived list = tuples whose compute flag (slot 3) is set',
                    okd, key='derived selection', detail='derived list is %s' % fmt(fl, dcomp[0].value)[:200],
                    loc=f.loc(dcomp[0].node))
        else:
            d = one(dp, 'append to derived_parameters')
            dl = one(d.loops, 'loop')
            ditem = fl.tab.atom('elem', (dl.iter_rf[0], dl.index))
            okd = fl.tab.equal(dl.iter_rf[0], spec(fl, 'der.values()', pe)) and \
                len(d.guards) == 1 and d.guards[0].positive and \
                fl.tab.equal(d.guards[0].rf, fl.tab.atom('idx', (ditem, fl.tab.const(3)))) and \
                fl.tab.equal(d.args[0], ditem)
            R.check('4.derived', 'ALG', site, 'derived list = tuples whose compute flag (slot 3) is set',
                    okd, key='derived selection', detail='derived appended under %s' % [g.text() for g in d.guards],
                    loc=f.loc(d.node))
        r = the_return(fl)
        okr = not r.guards and not r.loops and len({n_fit, n_pri, n_tbl, n_der}) == 4
        ra = atom_of(fl, r.value)
        okr = okr and ra is not None and ra.head == 'tuple' and len(ra.args) == 4 and bool(tblv) and \
            fl.tab.equal(ra.args[2], tblv[0].value)
        R.check('4.ret', 'ARG', site, 'returns (fitted tuples, their priors, prior table, derived tuples)',
                okr, key=unparse(r.value_ast), detail=unparse(r.value_ast), loc=f.loc(r.node))


def views(ix, R):
    disc = {}
    forms = {}
    for nm in ('fit_values', 'fit_boundaries', 'fit_names', 'fit_latex'):
        site = OPT + '.' + nm
        with R.guard('3.view', 'SIB', site, 'view'):
            f = ix.func(site)
            fl_ = mkflow(ix, site)
            r = the_return(fl_)
            ca = atom_of(fl_, r.value)
            # the view, as a value: [<linear form> if <discriminator> else <log form> for c in self.fitting_parameters]
            # (however the row is named, indexed or wrapped on the way)
            if ca is None or ca.head != 'comp' or ca.extra != ('ListComp', '_') or len(ca.args) != 3 or \
                    not fl_.tab.equal(ca.args[1], code(fl_, 'self.fitting_parameters')) or \
                    atom_of(fl_, ca.args[2]) is None or atom_of(fl_, ca.args[2]).args:
                raise AnalysisError('%s is not a conditional comprehension over fitting_parameters' % nm)
            ea = atom_of(fl_, ca.args[0])
            if ea is None or ea.head != 'guard':
                raise AnalysisError('%s is not a conditional comprehension over fitting_parameters' % nm)
            row = {'c': fl_.tab.name('%b0')}
            ct_ = ea.args[0]            # canonical polarity (Table.atom('guard'))
            disc[nm] = fmt(fl_, ct_).replace('%b0', 'c')
            lin_, log_ = ea.args[1], ea.args[2]
            for label, txt in (('tuple mode (slot 4)', "c[4] == 'linear'"),
                               ('prior mode', 'self._fit_priors[c[0]].priorMode is PriorMode.LINEAR')):
                cw_, fw_ = fl_.tab.canon_cond(spec(fl_, txt, row))
                if fl_.tab.equal(ct_, cw_):
                    disc[nm] = label
                    if fw_:
                        lin_, log_ = log_, lin_
            forms[nm] = (fmt(fl_, lin_).replace('%b0', 'c'), fmt(fl_, log_).replace('%b0', 'c'))
            forms['@' + nm] = (fl_, lin_, log_, row)
    want = {
        'fit_values': ('c[2]()', 'math.log10(c[2]())'),
        'fit_boundaries': ('c[-1]', '(math.log10(c[-1][0]), math.log10(c[-1][1]))'),
        'fit_names': ('c[0]', "'log_{}'.format(c[0])"),
        'fit_latex': ('c[1]', "'log({})'.format(c[1])"),
    }
    alt = {'fit_boundaries': ('c[6]', '(math.log10(c[6][0]), math.log10(c[6][1]))')}
    for nm, w in want.items():
        got = forms.get(nm)
        R.check('3b.form', 'ALG', OPT + '.' + nm,
                '%s: linear -> %s, log -> %s' % (nm, w[0], w[1]),
                _same_forms(forms, nm, [w, alt.get(nm)]),
                key='%s' % (got,), detail='linear/log forms are %s' % (got,))
    ds = set(disc.values())
    R.check('3.disc', 'SIB', OPT,
            'the four views (values, boundaries, names, latex) and update_model decide linear/log by one '
            'discriminator, so a reported value is in the space of its name and prior',
            len(ds) == 1 and ds == {'prior mode'},
            key='discriminators %s' % sorted(disc.items()),
            detail='fit_names/fit_latex and update_model follow the PRIOR mode, fit_values/fit_boundaries follow '
                   'the TUPLE mode: %s; with a prior whose space differs from the parameter mode the reported '
                   'value is not in the space of its name, and writing fit_values back changes the model' % disc)


def _same_forms(forms, nm, wants):
    """the two arms of a view, compared as expressions (f-string / .format, np. / math. spellings are one form)"""
    got = forms.get('@' + nm)
    if got is None:
        return False
    fl_, lin_, log_, row = got
    for w in wants:
        if w is None:
            continue
        if fl_.tab.equal(lin_, spec(fl_, w[0], row)) and fl_.tab.equal(log_, spec(fl_, w[1], row)):
            return True
    return False


def tuple_layout(ix, R):
    """8. every unpacking / positional access agrees with Fittable's layout."""
    site = FT + '::Fittable.add_fittable_param'
    with R.guard('8.def', 'SIB', site, 'tuple definition'):
        f = ix.func(site)
        ps = f.params()[1:]
        st = one([n for n in walk_no_nested(f.node) if isinstance(n, ast.Assign) and
                  isinstance(n.targets[0], ast.Subscript)], 'store')
        elts = [unparse(e) for e in st.value.elts]
        want = [ps[0], ps[1], ps[2] + '.__get__(self)', ps[3] + '.__get__(self)', ps[4], ps[5], ps[6]]
        R.check('8.def', 'SIB', site, 'fitting tuple = (name, latex, getter, setter, mode, fit flag, bounds)',
                elts == want and unparse(st.targets[0]) == 'self._param_dict[%s]' % ps[0],
                key=str(elts), detail='tuple is %s' % elts, loc=f.loc(st))
    site = FT + '::Fittable.add_derived_param'
    with R.guard('8.def.d', 'SIB', site, 'derived tuple definition'):
        f = ix.func(site)
        ps = f.params()[1:]
        st = one([n for n in walk_no_nested(f.node) if isinstance(n, ast.Assign) and
                  isinstance(n.targets[0], ast.Subscript)], 'store')
        elts = [unparse(e) for e in st.value.elts]
        R.check('8.def.d', 'SIB', site, 'derived tuple = (name, latex, getter, compute flag)',
                elts == [ps[0], ps[1], ps[2] + '.__get__(self)', ps[3]] and
                unparse(st.targets[0]) == 'self._derived_dict[%s]' % ps[0],
                key=str(elts), detail='tuple is %s' % elts, loc=f.loc(st))
    # the two definitions are only skipped for a duplicate name (which raises); modify_bounds rewrites slot 6
    for nm in ('add_fittable_param', 'add_derived_param'):
        site = FT + '::Fittable.' + nm
        with R.guard('8.def.uncond', 'DOM', site, 'registration'):
            f = ix.func(site)
            fl = mkflow(ix, site)
            st = one(fl.of('store'), 'store')
            bad = [g for g in st.guards if not validated(g)] or st.loops
            rs = fl.of('raise')
            R.check('8.def.uncond', 'DOM', site,
                    'the tuple is registered unless the name already exists, in which case the call raises',
                    not bad and len(rs) == 1 and fl.events.index(rs[0]) < fl.events.index(st),
                    key='conditional registration', detail='store under %s, %d raises' % ([g.text() for g in st.guards], len(rs)),
                    loc=f.loc(st.node))
    site = FT + '::Fittable.modify_bounds'
    with R.guard('5.slot.bounds', 'EFF', site, 'modify_bounds'):
        f = ix.func(site)
        fl = mkflow(ix, site)
        ps = f.params()
        sts = fl.of('store')
        why = []
        if len(sts) != 1:
            why.append('%d stores' % len(sts))
        else:
            st = sts[0]
            par = fl.tab.name(ps[1])
            src = spec(fl, 'self._param_dict[p]', {'p': par})
            va = atom_of(fl, st.value)
            if not fl.tab.equal(st.target, src) or st.guards or st.loops:
                why.append('stores at %s under %s' % (unparse(st.target_ast), [g.text() for g in st.guards]))
            if va is None or va.head != 'tuple' or len(va.args) != 7:
                why.append('stores %s' % fmt(fl, st.value))
            else:
                for k, x in enumerate(va.args):
                    want = fl.tab.name(ps[2]) if k == 6 else fl.tab.atom('idx', (src, fl.tab.const(k)))
                    if not fl.tab.equal(x, want):
                        why.append('slot %d (%s) becomes %s' % (k, FIT_LAYOUT[k], fmt(fl, x)))
        R.check('5.slot.bounds', 'EFF', site,
                'modify_bounds rewrites exactly slot 6 (bounds) of the registered tuple with the new bounds and passes the other 6 through',
                not why, key='; '.join(why), detail='; '.join(why), loc=f.loc())
    # unpackings
    n7 = n4 = 0
    for fn in list(ix.functions_in(OP)) + list(ix.functions_in(FT)):
        for n in ast.walk(fn.node):
            if isinstance(n, ast.Assign) and isinstance(n.targets[0], ast.Tuple):
                names = [e.id if isinstance(e, ast.Name) else None for e in n.targets[0].elts]
                src = unparse(n.value)
                # a bare name is classified by the loop it is the target of
                prov = ''
                if isinstance(n.value, ast.Name):
                    for lp_ in ast.walk(fn.node):
                        if isinstance(lp_, ast.For) and any(isinstance(x, ast.Name) and x.id == n.value.id
                                                            for x in ast.walk(lp_.target)) and \
                                any(y is n for y in ast.walk(lp_)):
                            prov = unparse(lp_.iter)      # innermost enclosing loop wins (walk is outside-in)
                fitw = ('fittingParameters', 'fitparams', 'fitting_parameters', '_param_dict')
                derw = ('derivedParameters', 'driveparams', 'derived_parameters', '_derived_dict')
                is_fit = any(w + '[' in src for w in ('fittingParameters', '_param_dict')) or any(w in prov for w in fitw)
                is_der = 'derivedParameters[' in src or (any(w in prov for w in derw) and not is_fit)
                if is_fit and len(names) != 4:
                    n7 += 1
                    ok = len(names) == 7
                    R.check('8.unpack', 'SIB', fn.site,
                            'fitting tuple unpacked into exactly 7 names (slot use is checked by the slot obligations)',
                            ok, key='unpacks %s' % names, detail='unpacks into %s' % names, loc=fn.loc(n))
                elif is_der:
                    n4 += 1
                    ok = len(names) == 4
                    R.check('8.unpack.d', 'SIB', fn.site, 'derived tuple unpacked into exactly 4 names',
                            ok, key='unpacks %s' % names, detail='unpacks into %s' % names, loc=fn.loc(n))
    if n7 < 2 or n4 < 1:
        R.error('8.unpack.count', 'SIB', OP, 'the confirmed unpacking sites exist', 'found %d/%d' % (n7, n4))
    # positional accesses in getitem/setitem
    for site, idx, argc in ((FT + '::Fittable.__getitem__', 2, 0), (FT + '::Fittable.__setitem__', 3, 1),
                            ('taurex/model/model.py::ForwardModel.__getitem__', 2, 0),
                            ('taurex/model/model.py::ForwardModel.__setitem__', 3, 1)):
        with R.guard('8.pos', 'SIB', site, 'positional access'):
            f = ix.func(site)
            fl = mkflow(ix, site)
            r = the_return(fl)
            ca = atom_of(fl, r.value)
            # the returned value is <table>[key][slot](<arguments>), however many temporaries it goes through
            if ca is None or ca.head != 'callexpr' or ca.extra:
                raise AnalysisError('the returned value is not a call through a tuple slot: %s' % fmt(fl, r.value))
            sa_ = atom_of(fl, ca.args[0])
            if sa_ is None or sa_.head != 'idx' or len(sa_.args) != 2 or (sa_.args[1].const() if isinstance(sa_.args[1], RF) else None) is None:
                raise AnalysisError('the called object is not a constant slot of an entry: %s' % fmt(fl, ca.args[0]))
            ea = atom_of(fl, sa_.args[0])
            ps = f.params()
            if ea is None or ea.head != 'idx' or not fl.tab.equal(ea.args[1], fl.tab.name(ps[1])):
                raise AnalysisError('the entry is not looked up under the given key: %s' % fmt(fl, sa_.args[0]))
            k = sa_.args[1].const()
            nargs = len(ca.args) - 1
            okv = argc == 0 or (nargs == 1 and fl.tab.equal(ca.args[1], fl.tab.name(ps[2])))
            R.check('8.pos', 'SIB', site,
                    '%s calls slot %d (%s) with %d argument(s)%s' % (f.name, idx, FIT_LAYOUT[idx], argc,
                                                                     ' (the given value)' if argc else ''),
                    k == idx and nargs == argc and okv,
                    key=fmt(fl, r.value), detail=fmt(fl, r.value), loc=f.loc(r.node))
    # views of derived
    for nm, k in (('derived_names', 0), ('derived_latex', 1), ('derived_values', 2), ('fit_values_nomode', 2)):
        site = OPT + '.' + nm
        with R.guard('8.dview', 'SIB', site, 'derived views'):
            f = ix.func(site)
            fl_ = mkflow(ix, site)
            r = the_return(fl_)
            src = 'self.fitting_parameters' if nm == 'fit_values_nomode' else 'self.derived_parameters'
            want_ = spec(fl_, '[c_[%d]%s for c_ in %s]' % (k, '()' if k == 2 else '', src))
            ca = atom_of(fl_, r.value)
            if ca is None or ca.head != 'comp':
                raise AnalysisError('%s does not return a comprehension: %s' % (nm, fmt(fl_, r.value)[:100]))
            lc = r.value_ast
            R.check('8.dview', 'SIB', site, '%s reads slot %d of %s' % (nm, k, src),
                    fl_.tab.equal(r.value, want_),
                    key=unparse(lc), detail=unparse(lc), loc=f.loc(r.node))


def _roles_ok(names, layout):
    """names follow the layout: each name is the layout word or a synonym."""
    syn = {'name': {'name', 'param_name'}, 'latex': {'latex', 'param_latex'},
           'fget': {'fget', 'get_func', 'getter'}, 'fset': {'fset', 'set_func', 'setter'},
           'mode': {'mode', 'new_mode', 'default_mode'}, 'to_fit': {'to_fit', 'fit', 'default_fit'},
           'bounds': {'bounds', 'new_bounds', 'default_bounds'}, 'compute': {'compute'}}
    return all(n in syn[l] for n, l in zip(names, layout))


def getters_setters(ix, R):
    """6. every @fitparam getter has a setter touching the same attribute;
    names unique."""
    n = 0
    names = {}
    for c in ix.all_classes():
        if c.module.relpath.startswith(('taurex/plot', 'taurex/mixin')):
            continue
        for mname, lst in c.methods.items():
            g = lst[0]
            fp = [d for d in g.decorators() if d.startswith('fitparam')]
            if not fp:
                continue
            n += 1
            dec = [d for d in g.node.decorator_list if unparse(d).startswith('fitparam')][0]
            pn = None
            if isinstance(dec, ast.Call):
                for k in dec.keywords:
                    if k.arg == 'param_name' and isinstance(k.value, ast.Constant):
                        pn = k.value.value
            names.setdefault(pn, []).append(c)
            setters = [f for f in lst[1:] if any(d == mname + '.setter' for d in f.decorators())]
            why = []
            if len(setters) != 1:
                why.append('%d setters' % len(setters))
            else:
                s = setters[0]
                gb, sb = g.body(), s.body()
                val = s.params()[1] if len(s.params()) > 1 else None
                # by flow, so that an unrelated extra statement or a temporary does not matter
                gfl = mkflow(ix, g)
                sfl = mkflow(ix, s)
                try:
                    gr = the_return(gfl)
                except AnalysisError:
                    gr = None
                ga = atom_of(gfl, gr.value) if gr is not None and gr.value is not None else None
                if ga is not None and ga.head in ('attr', 'name') and str(ga.args[0]).startswith('self.'):
                    attr = ga.args[0]
                    # the setter writes the given value, unconditionally, to the attribute the getter returns; it may
                    # do other book-keeping besides (drop a derived cache ...), which is not this obligation's business
                    sts = [e for e in sfl.of('store') + sfl.of('aug') if fmt(sfl, getattr(e, 'target', None)) == attr]
                    ok = len(sts) == 1 and val is not None and \
                        sfl.tab.equal(sts[0].value, sfl.tab.name(val)) and not sts[0].guards and not sts[0].loops \
                        and getattr(sts[0], 'op', None) is None
                    if not ok:
                        why.append('getter returns %s, setter does %s' % (attr, '; '.join(unparse(x) for x in sb)))
                else:
                    # non-simple pair: getter/setter must be mirror helper calls
                    gt = unparse(gb[-1].value) if isinstance(gb[-1], ast.Return) else ''
                    stx = unparse(sb[-1]) if sb else ''
                    mirror = gt.replace('get_', 'set_', 1).replace('(', '(%s, ' % val, 1)
                    if stx != mirror:
                        why.append('getter %s / setter %s are not mirror calls' % (gt, stx))
            R.check('6.pair', 'TAB', g.site,
                    'fit parameter %r: getter and setter exist and read/write the same state' % pn,
                    not why, key='; '.join(why), detail='; '.join(why), loc=g.loc())
    if n < 30:
        R.error('6.count', 'TAB', 'taurex', 'fitparam getters are found', 'only %d' % n)
    # uniqueness across classes that can co-reside in one model (different families always co-reside;
    # within a family only one instance is present, except contributions)
    fam_roots = ['BasePlanet', 'Star', 'TemperatureProfile', 'Chemistry', 'PressureProfile',
                 'Contribution', 'ForwardModel', 'Gas', 'BaseSpectrum']
    roots = {}
    for r in fam_roots:
        try:
            roots[r] = ix.find_class(r)
        except AnalysisError:
            pass

    def family_of(c):
        for r, rc in roots.items():
            if ix.is_subclass(c, rc):
                return r
        return c.name
    for pn, cl in sorted(names.items(), key=lambda kv: str(kv[0])):
        fams = {}
        for c in cl:
            fams.setdefault(family_of(c), []).append(c.name)
        clash = len(fams) > 1 or any(f == 'Contribution' and len(v) > 1 for f, v in fams.items())
        # same name reused inside one exclusive family (e.g. two temperature profiles) is fine
        R.check('6.unique', 'TAB', 'param:%s' % pn,
                'parameter name %r cannot be claimed by two components of one model '
                '(collect_fitting_parameters merges with dict.update)' % pn,
                not clash, key='name %s in %s' % (pn, fams), detail='name %r is declared by %s' % (pn, fams))


def _generated_items(ix, f, fl, rf):
    """[(kind, flow of the generator, value, guards)] for the items of `self.<generator method>()`: 'one' for a single
    yield of `value`, 'each' for a loop that yields every element of the sequence `value` (or `yield from`);
    None when rf is not such a call or the generator does anything besides yielding"""
    at = atom_of(fl, rf)
    if at is None or at.head not in ('call', 'mcall') or not at.extra or not at.extra[0].startswith('fn:self.') or at.args \
            or f.cls is None:
        return None
    g = ix.lookup_method(f.cls, at.extra[0][8:])
    if g is None or not any(isinstance(n, ast.Yield) for n in ast.walk(g.node)):
        return None
    gfl = mkflow(ix, g)
    if any(e.kind not in ('yield', 'loop', 'if', 'assign') for e in gfl.events):
        return None
    out = []
    for y in gfl.of('yield'):
        if any(g_.rf is None or g_.early for g_ in y.guards):
            return None
        if y.loops:
            lp = y.loops[0]
            if len(y.loops) != 1 or y.value is None or not gfl.tab.equal(y.value, gfl.tab.atom('elem', (lp.iter_rf[0], lp.index))):
                return None
            out.append(('each', gfl, lp.iter_rf[0], list(y.guards)))
        else:
            if y.value is None:
                return None
            out.append(('one', gfl, y.value, list(y.guards)))
    return out


def collect(ix, R):
    site = 'taurex/model/simplemodel.py::SimpleForwardModel.collect_fitting_parameters'
    stmt = ('fitting parameters are collected from the model, planet, star, pressure, temperature, '
            'chemistry and every contribution, into a fresh dictionary')
    with R.guard('6.collect', 'TAB', site, stmt):
        f = ix.func(site)
        fl = mkflow(ix, site)
        ups = [e for e in calls(fl, 'update') if e.recv_rf is not None and
               fl.tab.equal(e.recv_rf, code(fl, 'self._fitting_parameters'))]
        why = []
        srcs = {'self': None, 'self._planet': None, 'self._star': 'self._star is not None', 'self.pressure': None,
                'self._temperature_profile': None, 'self._chemistry': None}
        seen = set()
        contrib = 0
        for e in ups:
            at = atom_of(fl, e.args[0]) if e.args else None
            # the argument is <component>.fitting_parameters()
            node = e.node.args[0] if e.node.args else None
            if not (isinstance(node, ast.Call) and isinstance(node.func, ast.Attribute) and
                    node.func.attr == 'fitting_parameters' and not node.args):
                why.append('update(%s)' % (unparse(node) if node is not None else ''))
                continue
            comp = fl.conv.expr(node.func.value) if not e.loops else None
            if e.loops:
                lp = e.loops[0]
                if len(e.loops) == 1 and fl.tab.equal(lp.iter_rf[0], code(fl, 'self.contribution_list')) and \
                        isinstance(node.func.value, ast.Name) and isinstance(lp.node.target, ast.Name) and \
                        node.func.value.id == lp.node.target.id and not e.guards:
                    contrib += 1
                elif len(e.loops) == 1 and not e.guards and isinstance(node.func.value, ast.Name) and \
                        isinstance(lp.node.target, ast.Name) and node.func.value.id == lp.node.target.id and \
                        _generated_items(ix, f, fl, lp.iter_rf[0]) is not None:
                    # the components come from a generator method of the model: what it yields, and when
                    for kind_, gfl_, val_, gs_ in _generated_items(ix, f, fl, lp.iter_rf[0]):
                        if kind_ == 'each' and gfl_.tab.equal(val_, code(gfl_, 'self.contribution_list')) and not gs_:
                            contrib += 1
                            continue
                        key_ = [k_ for k_ in srcs if kind_ == 'one' and gfl_.tab.equal(val_, code(gfl_, k_))]
                        if key_ and all(srcs[key_[0]] is not None and guard_is(gfl_, g_, spec(gfl_, srcs[key_[0]]), True) for g_ in gs_):
                            seen.add(key_[0])
                        else:
                            why.append('collects from %s%s' % (fmt(gfl_, val_), ' under %s' % [g_.text() for g_ in gs_] if gs_ else ''))
                elif len(e.loops) == 1 and not e.guards and atom_of(fl, lp.iter_rf[0]) is not None and \
                        atom_of(fl, lp.iter_rf[0]).head in ('alloc', 'phi', 'call', 'mcall', 'guard', 'mutated'):
                    # the components are first gathered into a sequence (appends, a helper) and then walked:
                    # which components that sequence holds is not something this extractor enumerates
                    raise AnalysisError('components are collected through the sequence %s, which is built at run time' %
                                        fmt(fl, lp.iter_rf[0])[:80])
                else:
                    why.append('%s in loop %s under %s' % (unparse(node), unparse(lp.iter_ast), [g.text() for g in e.guards]))
                continue
            key = unparse(node.func.value)
            if key not in srcs:
                why.append('collects from %s' % key)
                continue
            seen.add(key)
            lic = srcs[key]
            bad = [g for g in e.guards if not (lic is not None and guard_is(fl, g, spec(fl, lic), True))]
            if bad:
                why.append('%s collected only under %s' % (key, [g.text() for g in bad]))
        if seen != set(srcs):
            why.append('not collected: %s' % sorted(set(srcs) - seen))
        if contrib != 1:
            why.append('contributions are not collected in one unconditional loop over contribution_list')
        init = [e for e in fl.of('store') if fmt(fl, e.target) == 'self._fitting_parameters']
        fresh = len(init) == 1 and not init[0].guards and not init[0].loops and \
            fmt(fl, unalloc(fl, init[0].value)) in ('dict()', 'tuple()') and \
            (not ups or fl.events.index(init[0]) < fl.events.index(ups[0]))
        if not fresh and len(init) == 1 and not init[0].guards and not init[0].loops and \
                (not ups or fl.events.index(init[0]) < fl.events.index(ups[0])):
            # a fresh dictionary created FROM one source: dict(X.fitting_parameters())
            v0 = unalloc(fl, init[0].value)
            a0 = atom_of(fl, v0)
            if a0 is not None and a0.head == 'call' and a0.extra[0] == 'fn:dict' and len(a0.args) == 1:
                for key in srcs:
                    if fl.tab.equal(a0.args[0], spec(fl, '%s.fitting_parameters()' % key)) and srcs[key] is None:
                        fresh = True
                        seen.add(key)
        # (`seen` is checked here, after the constructor form has had its say)
        why = [w for w in why if not w.startswith('not collected:')]
        if seen != set(srcs):
            why.append('not collected: %s' % sorted(set(srcs) - seen))
        if not fresh:
            why.append('the dictionary is not created afresh first')
        R.check('6.collect', 'TAB', site, stmt, not why,
                key='; '.join(why), detail='; '.join(why), loc=f.loc())


def setup_flags(ix, R):
    """9.setup: the input file's `<param>:fit` decides whether a parameter is fitted - True enables it, False disables it,
    whatever the optimizer happens to be fitting at that moment (before the first compile fit_names is empty, and
    log-space parameters are listed as log_<name>)."""
    site = 'taurex/parameter/parameterparser.py::ParameterParser.setup_optimizer'
    f = ix.func(site)
    fl = mkflow(ix, site)
    stmt = "`<param>:fit = True` enables the fit of that parameter and `= False` disables it, unconditionally"
    en = [e for e in calls(fl, 'enable_fit') if e.loops]
    di = [e for e in calls(fl, 'disable_fit') if e.loops]
    if len(en) != 1 or len(di) != 1:
        R.error('9.setup', 'DOM', site, stmt, '%d enable_fit / %d disable_fit calls in the loop' % (len(en), len(di)), loc=f.loc())
        return
    lp = en[0].loops[0]
    item = fl.tab.atom('elem', (lp.iter_rf[0], lp.index))
    why = []
    flag = None
    for e, pos in ((en[0], True), (di[0], False)):
        gs = [g for g in e.guards if g.rf is not None and not validated(g)]
        flags = [g for g in gs if 'fit' in fmt(fl, g.rf) and 'fit_names' not in fmt(fl, g.rf)]
        if len(flags) != 1 or flags[0].positive != pos:
            why.append('%s(...) is not decided by the fit flag: %s' % (e.name, [g.text() for g in gs]))
            continue
        if flag is None:
            flag = flags[0].rf
        elif not fl.tab.equal(flag, flags[0].rf):
            why.append('enable_fit and disable_fit are decided by different flags')
        extra = [g for g in gs if g is not flags[0]]
        if extra:
            why.append('%s(key) also requires %s' % (e.name, ' and '.join(g.text()[:60] for g in extra)))
        if not e.args or not fl.tab.equal(e.args[0], fl.tab.atom('idx', (item, fl.tab.const(0)))):
            why.append('%s is called with %s, not the parameter name' % (e.name, [fmt(fl, a)[:40] for a in e.args]))
    R.check('9.setup', 'DOM', site, stmt, not why, key='; '.join(w[:90] for w in why), detail='; '.join(why), loc=f.loc(di[0].node))
    # the [Derive] section: `<param>:compute = True` switches the derived parameter on, `= False` switches it off (what is
    # on by default, or was switched on by an earlier set-up of the same optimizer, must be switched off when the file says so)
    stmt_d = "`<param>:compute = True` enables the derived parameter and `= False` disables it"
    en = [e for e in calls(fl, 'enable_derived') if e.loops]
    di = [e for e in calls(fl, 'disable_derived') if e.loops]
    if len(en) != 1:
        R.error('9.setup.derived', 'DOM', site, stmt_d, '%d enable_derived calls in the loop' % len(en), loc=f.loc())
        return
    why = []
    if not di:
        why.append('disable_derived is never called: `compute = False` leaves the parameter as it was')
    else:
        gs_e = [g for g in en[0].guards if g.rf is not None and not validated(g) and 'compute' in fmt(fl, g.rf) and
                atom_of(fl, g.rf) is not None and atom_of(fl, g.rf).head != 'cmp']
        gs_d = [g for g in di[0].guards if g.rf is not None and not validated(g) and 'compute' in fmt(fl, g.rf) and
                atom_of(fl, g.rf) is not None and atom_of(fl, g.rf).head != 'cmp']
        if len(gs_e) != 1 or len(gs_d) != 1:
            raise AnalysisError('enable_derived / disable_derived are not decided by one test of the compute flag each')
        if not fl.tab.equal(gs_e[0].rf, gs_d[0].rf) or gs_e[0].positive is not True or gs_d[0].positive is not False:
            why.append('enable_derived runs under %s and disable_derived under %s' % (gs_e[0].text(), gs_d[0].text()))
    R.check('9.setup.derived', 'DOM', site, stmt_d, not why, key='; '.join(w[:90] for w in why), detail='; '.join(why),
            loc=f.loc(en[0].node))


def run(ix, R):
    with R.guard('9.setup', 'DOM', 'taurex/parameter/parameterparser.py', 'fit flags'):
        setup_flags(ix, R)
    _run(ix, R)
    from rules.common import memo_obligation
    memo_obligation(ix, R, 'M.memo', ['taurex/optimizer/optimizer.py', 'taurex/data/fittable.py'], 'the retrieval set-up')


def _run(ix, R):
    mutators(ix, R)
    prior_table(ix, R)
    compile_fn(ix, R)
    views(ix, R)
    from rules.C06 import update_model
    update_model(ix, R)
    tuple_layout(ix, R)
    getters_setters(ix, R)
    collect(ix, R)
    from rules.common import loop_closures
    loop_closures(ix, R, '6.closure', ['taurex/data/', 'taurex/contributions/', 'taurex/model/'],
                  'the fittable components (generated fitting-parameter getters / setters)')


MUTANTS = [
    ('seed-c07-a', OP, "        self._fit_priors.update(_obs_priors)\n", "", '2.merge'),
    ('regress-f7', OP, "    def disable_derived(self, parameter):\n        obj = self._model if parameter in self._model.derivedParameters else self._observed", "    def disable_derived(self, parameter):\n        obj = self._model if parameter in self._model.fittingParameters else self._observed", '1.table'),
    ('enable-wrong-table', OP, "    def enable_derived(self, parameter):\n        obj = self._model if parameter in self._model.derivedParameters else self._observed", "    def enable_derived(self, parameter):\n        obj = self._model if parameter in self._model.fittingParameters else self._observed", '1.table'),
    ('boundary-drops-mode', OP, "        bounds = new_boundaries\n        obj.fittingParameters[parameter] = (name, latex, fget, fset, mode, to_fit, bounds)\n\n    def set_factor_boundary", "        bounds = new_boundaries\n        obj.fittingParameters[parameter] = (name, latex, fget, fset, 'linear', to_fit, bounds)\n\n    def set_factor_boundary", '5.slot'),
    ('disable-sets-true', OP, "        to_fit = False\n", "        to_fit = True\n", '5.slot'),
    ('factor-wrong', OP, 'new_boundaries = (factors[0] * value, factors[1] * value)', 'new_boundaries = (factors[0] * value, factors[1])', '5.slot'),
    ('mode-novalidate', OP, "        if new_mode not in ('log', 'linear'):\n            self.error('Incorrect mode set for fit parameter,')\n            raise ValueError\n", "", '5.mode'),
    ('swap-getset', OP, "        to_fit = True\n        obj.fittingParameters[parameter] = (name, latex, fget, fset, mode, to_fit, bounds)", "        to_fit = True\n        obj.fittingParameters[parameter] = (name, latex, fset, fget, mode, to_fit, bounds)", '5.slot'),
    ('default-prior-swap', OP, "                if mode == 'log':\n                    prior = LogUniform(lin_bounds=bounds)", "                if mode == 'linear':\n                    prior = LogUniform(lin_bounds=bounds)", '4.default'),
    ('default-prior-bounds', OP, 'prior = LogUniform(lin_bounds=bounds)', 'prior = LogUniform(bounds=bounds)', '4.default'),
    ('select-all', OP, "        if to_fit:\n            fitting_parameters.append(params)", "        if True:\n            fitting_parameters.append(params)", '4.select'),
    ('fitvalues-ln', OP, "return [c[2]() if c[4] == 'linear' else math.log10(c[2]()) for c in self.fitting_parameters]", "return [c[2]() if c[4] == 'linear' else math.log(c[2]()) for c in self.fitting_parameters]", '3b.form'),
    ('bounds-slot', OP, "return [c[-1] if c[4] == 'linear' else (math.log10(c[-1][0]), math.log10(c[-1][1])) for c in self.fitting_parameters]", "return [c[-1] if c[4] == 'linear' else (math.log10(c[-1][0]), math.log10(c[-1][0])) for c in self.fitting_parameters]", '3b.form'),
    ('getitem-slot', FT, "        param = self._param_dict[key]\n        return param[2]()", "        param = self._param_dict[key]\n        return param[3]()", '8.pos'),
    ('layout-swap', FT, "(param_name, param_latex, fget.__get__(self), fset.__get__(self), default_mode, default_fit, default_bounds)", "(param_name, param_latex, fget.__get__(self), fset.__get__(self), default_fit, default_mode, default_bounds)", '8.def'),
    ('setter-other-attr', 'taurex/contributions/leemie.py', "    def mieQ(self, value):\n        self._mie_q = value", "    def mieQ(self, value):\n        self._mie_radius = value", '6.pair'),
    ('dup-name', 'taurex/contributions/leemie.py', "@fitparam(param_name='lee_mie_q'", "@fitparam(param_name='clouds_pressure'", '6.unique'),
    ('collect-drop-star', 'taurex/model/simplemodel.py', "        if self._star is not None:\n            self._fitting_parameters.update(self._star.fitting_parameters())\n", "", '6.collect'),
    ('regress-f8', OP, "        self._fit_priors = dict(self._user_priors)\n", "", '2.priors'),
    ('set-prior-nocheck', OP, "        if parameter not in obj.fittingParameters:\n            self.error('Fitting parameter %s does not exist', parameter)\n            raise ValueError('Fitting parameter does not exist')\n", "", '1.set_prior'),
]
EQUIVALENTS = [
    ('views-rename', OP, r're:\bfor c in self\.fitting_parameters\b', 'for c in self.fitting_parameters'),
    ('unpack-rename', OP, r're:\bto_fit\b', 'is_fitted'),
    ('latex-rename', OP, r're:\blatex\b', 'tex'),
    ('enable-inline', OP, "        to_fit = True\n        obj.fittingParameters[parameter] = (name, latex, fget, fset, mode, to_fit, bounds)", "        obj.fittingParameters[parameter] = (name, latex, fget, fset, mode, True, bounds)"),
    ('default-prior-else', OP, "                if mode == 'log':\n                    prior = LogUniform(lin_bounds=bounds)\n                else:\n                    prior = Uniform(bounds=bounds)", "                if mode == 'linear':\n                    prior = Uniform(bounds=bounds)\n                else:\n                    prior = LogUniform(lin_bounds=bounds)"),
]
UNCONDITIONAL = [
    (OP, 'fitting_priors.append(prior)'),
    (OP, '_fit_priors[name] = prior'),
    (OP, 'self._user_priors[parameter] = prior'),
    (OP, 'self.fitting_parameters.extend(obs_fit)'),
    (OP, 'self._fit_priors.update(_model_priors)'),
    (FT, 'self._param_dict[parameter] = (name, latex, fget, fset, mode, to_fit, bounds)'),
    ('taurex/model/simplemodel.py', 'self._fitting_parameters.update(self._chemistry.fitting_parameters())'),
]
