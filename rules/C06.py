"""C06 Every sampler is handed the Gaussian log-likelihood of the binned model."""
import ast

from sa.helpers import (guard_is, same_cond, the_return, mkflow, spec, code, one, calls, bind_call, param_env,
                        fmt, atom_of, unparse, walk_no_nested)
from sa.index import AnalysisError, FuncInfo, ClassInfo
from sa.algebra import RF, Conv, Table
from sa.flow import Flow
from sa.canon import make_canon
from sa.callgraph import CallGraph, raises_in

FLOOR = 24
OP = 'taurex/optimizer/optimizer.py'
FILES = [OP, 'taurex/optimizer/', 'taurex/exceptions.py']
EXPLANATION = (
    'Static rule conformance for the sampler callbacks: the log-likelihood '
    'closure of every wrapped sampler normalises to -sum(log(sigma sqrt(2 pi))) '
    '- chi2/2 with sigma the observation error bar and chi2 = chisq_trans of the '
    'callback vector in index order; each prior closure pairs output element i '
    'with fitting_priors[i].sample(input[i]); the closures are the objects '
    'passed to the sampler entry point; chisq_trans updates the model first, '
    'evaluates it on the observation grid, bins with the observation binner, '
    'returns NaN on the base invalid-model exception; and every explicit raise '
    'reachable (class-hierarchy call graph) from the model evaluation is an '
    'invalid-model exception or an allow-listed configuration/abstract error.')
ASSUMPTIONS = ['what nestle / pymultinest / pypolychord do with the callbacks',
               'call graph: name-based CHA over the model-path directories (over-approximation)',
               'exceptions raised implicitly by numpy on unphysical values are not modelled']
NOT_DECIDED = ['sampler internals', 'implicit numpy errors (ValueError, FloatingPointError)',
               'nansum masking NaN bins (N4)']

SAMPLERS = [
    ('nestle', 'taurex/optimizer/nestle.py::NestleOptimizer.compute_fit', 'nestle_loglike',
     'nestle_uniform_prior', ('sample', 0, 1, None, None, 2, None)),
    ('multinest', 'taurex/optimizer/multinest.py::MultiNestOptimizer.compute_fit', 'multinest_loglike',
     'multinest_uniform_prior', ('run', None, None, 'LogLikelihood', 'Prior', None, 'n_dims')),
    ('polychord', 'taurex/optimizer/polychord.py::PolyChordOptimizer.compute_fit', 'polychord_loglike',
     'polychord_uniform_prior', ('run_polychord', 0, 4, None, None, 1, None)),
]
DYPOLY = ('dypolychord', 'taurex/optimizer/dypolychord.py::dyPolyChordOptimizer.compute_fit',
          'polychord_loglike', 'polychord_uniform_prior', None)


def closure_flow(ix, outer_site, name):
    outer = mkflow(ix, outer_site)
    try:
        f = ix.func(outer_site + '.' + name)
        # free variables of the closure take the enclosing function's definitions
        env = {k: v for k, v in outer.env.items() if isinstance(v, RF)}
        for p in f.params():
            env.pop(p, None)
    except AnalysisError:
        # the callable is `partial(self.<method>, a, b, ...)`: the method with its leading parameters bound
        v = outer.env.get(name)
        va = atom_of(outer, v) if isinstance(v, RF) else None
        if va is None or va.head != 'call' or not va.extra or va.extra[0] not in ('fn:partial', 'fn:functools.partial') or \
                len(va.extra) > 1 or not va.args:
            raise
        tgt = fmt(outer, va.args[0])
        of = ix.func(outer_site)
        if not tgt.startswith('self.') or of.cls is None:
            raise
        f = ix.lookup_method(of.cls, tgt[5:])
        if f is None:
            raise
        ps = f.params()[1:]
        if len(va.args) - 1 > len(ps):
            raise
        env = dict(zip(ps, va.args[1:]))
    conv = Conv(outer.tab, env, outer.canon)
    fl = Flow(f, conv)
    fl.canon = outer.canon
    fl.ix, fl.known = outer.ix, outer.known      # helpers new to the reviewed tree are followed, as in mkflow
    fl.run()
    # a callable that only hands back `self.<generator method>(args)`: what is iterated is that generator with its
    # parameters bound to the arguments (generators are not followed as ordinary helpers)
    body = [st for st in f.body() if not (isinstance(st, ast.Expr) and isinstance(st.value, ast.Constant))]
    of = ix.func(outer_site)
    if len(body) == 1 and isinstance(body[0], ast.Return) and isinstance(body[0].value, ast.Call) and of.cls is not None:
        c_ = body[0].value
        d_ = unparse(c_.func)
        if d_.startswith('self.') and d_.count('.') == 1 and not c_.keywords and \
                not any(isinstance(a_, ast.Starred) for a_ in c_.args):
            g = ix.lookup_method(of.cls, d_[5:])
            if g is not None and any(isinstance(n_, (ast.Yield, ast.YieldFrom)) for n_ in ast.walk(g.node)) and \
                    (outer.known is None or g.site not in outer.known) and len(c_.args) <= len(g.params()) - 1:
                env2 = dict(zip(g.params()[1:], [fl.conv.expr(a_) for a_ in c_.args]))
                fl2 = Flow(g, Conv(outer.tab, env2, outer.canon))
                fl2.canon = outer.canon
                fl2.ix, fl2.known = outer.ix, outer.known
                fl2.run()
                f, fl = g, fl2
    if getattr(fl, 'unfollowed', None):
        from sa.helpers import UNFOLLOWED
        UNFOLLOWED.setdefault(f.site, set()).update(fl.unfollowed)
    return outer, f, fl


def index_vector(f, node, param):
    """node is `[param[i] for i in range(len(self.fitting_parameters))]`"""
    if isinstance(node, ast.Call) and unparse(node.func) in ('np.array', 'np.asarray', 'numpy.array') \
            and node.args:
        node = node.args[0]
    if isinstance(node, ast.Name):
        return node.id == param
    if isinstance(node, ast.ListComp) and len(node.generators) == 1:
        g = node.generators[0]
        return (isinstance(g.target, ast.Name) and not g.ifs and
                unparse(g.iter) == 'range(len(self.fitting_parameters))' and
                unparse(node.elt) == '%s[%s]' % (param, g.target.id))
    return False


def loglike(ix, R, tag, site, name, thorough=False):
    s = site + '.' + name
    stmt = ('log-likelihood == -sum(log(sigma*sqrt(2 pi))) - chisq_trans(cube in index order, '
            'observed spectrum, sigma)/2 with sigma = observed.errorBar')
    with R.guard('1.%s' % tag, 'ALG', s, stmt):
        outer, f, fl = closure_flow(ix, site, name)
        r = the_return(fl)
        v = r.value
        at = atom_of(fl, v)
        if at is not None and at.head == 'tuple':
            v = at.args[0]
        cs = one(calls(fl, 'chisq_trans'), 'chisq_trans call')
        from sa.helpers import pos_args
        import types as _types
        _pa, _kd = pos_args(fl, cs)            # chisq_trans(fit_params=.., data=.., datastd=..) is the positional call
        if _kd:
            raise AnalysisError('chisq_trans is called with keyword arguments %s this rule cannot place' % sorted(_kd))
        cs_ev = cs
        cs = _types.SimpleNamespace(args=_pa, guards=cs.guards, loops=cs.loops, node=cs.node)
        chi = fl.tab.atom('call', tuple(cs.args), extra=('fn:self.chisq_trans',))
        b = {'sigma': code(fl, 'self._observed.errorBar'), 'chi': chi}
        want = spec(fl, '-np.sum(log(sigma*sqrt(2*pi))) - chi/2', b)
        why = []
        if not fl.tab.equal(v, want):
            why.append('returns %s; expected %s' % (fmt(fl, v), fmt(fl, want)))
        if len(cs.args) != 3 or not fl.tab.equal(cs.args[1], code(fl, 'self._observed.spectrum')) \
                or not fl.tab.equal(cs.args[2], b['sigma']):
            why.append('chisq_trans(%s)' % ', '.join(fmt(fl, a) for a in cs.args))
        # the parameter vector
        p0 = f.params()[0]
        pb = {'P': fl.tab.name(p0)}
        forms = ['P', 'array(P)', 'asarray(P)', '[P[i] for i in range(len(self.fitting_parameters))]',
                 'array([P[i] for i in range(len(self.fitting_parameters))])',
                 'asarray([P[i] for i in range(len(self.fitting_parameters))])']
        if not cs.args or not any(fl.tab.equal(cs.args[0], spec(fl, t_, pb)) for t_ in forms):
            why.append('parameter vector is %s' % (fmt(fl, cs.args[0]) if cs.args else None))
        for e, what in ((r, 'the result is returned'), (cs, 'chisq_trans is called')):
            if e.guards or e.loops:
                why.append('%s conditionally (%s)' % (what, [g.text() for g in e.guards]))
        for e in fl.of('assign'):
            if e.guards and e.name in {n.id for n in ast.walk(cs.node) if isinstance(n, ast.Name)} | \
                    {n.id for n in ast.walk(r.node) if isinstance(n, ast.Name)}:
                why.append('%s is assigned conditionally' % e.name)
        R.check('1.%s' % tag, 'ALG', s, stmt, not why, key='; '.join(why), detail='; '.join(why),
                loc=f.loc(r.node), extracted=fmt(fl, v))


def prior(ix, R, tag, site, name, known=False):
    s = site + '.' + name
    stmt = 'prior callback: out[i] = fitting_priors[i].sample(in[i]) for every i, same i on both sides'
    with R.guard('2.%s' % tag, 'ARG', s, stmt):
        outer, f, fl = closure_flow(ix, site, name)
        p0 = fl.tab.name(f.params()[0])
        why = []
        sc = calls(fl, 'sample')
        # the comprehension spelling: the returned sequence is [prior_i.sample(in[i]) for i, prior_i in enumerate(priors)]
        wantc = spec(fl, '[q_.sample(T_[i_]) for i_, q_ in enumerate(self.fitting_priors)]', {'T_': p0})
        rets_ = [x for x in fl.of('return') if x.value is not None]
        as_comp = False
        if len(rets_) == 1 and not rets_[0].guards and not rets_[0].loops:
            rv_ = rets_[0].value
            ra_ = atom_of(fl, rv_)
            if ra_ is not None and ra_.head == 'call' and ra_.extra[0] in ('fn:tuple', 'fn:list', 'fn:array') and len(ra_.args) == 1:
                rv_ = ra_.args[0]
            as_comp = fl.tab.equal(rv_, wantc)
        if as_comp and tag == 'multinest':
            # the hand-off protocol of this sampler: pymultinest calls Prior(cube, ndim, nparams) for its side effect on
            # `cube` (a C array it owns) and ignores what the callback returns
            why.append('the transformed values are returned as a new sequence, but pymultinest ignores the value its prior '
                       'callback returns: the cube has to be overwritten in place')
        elif as_comp:
            pass
        elif len(sc) != 1:
            why.append('%d sample() calls (output is not produced by fitting_priors[i].sample)' % len(sc))
        else:
            e = sc[0]
            lp = e.loops
            if len(lp) != 1 or lp[0].kind != 'enumerate' or not fl.tab.equal(
                    lp[0].iter_rf[0], code(fl, 'self.fitting_priors')) or e.guards:
                why.append('sample() not in an unconditional loop over enumerate(self.fitting_priors)')
            else:
                i = lp[0].index
                if e.recv_rf is None or not fl.tab.equal(e.recv_rf, fl.tab.atom(
                        'elem', (lp[0].iter_rf[0], i))):
                    why.append('receiver %s' % unparse(e.recv))
                if len(e.args) != 1 or not fl.tab.equal(e.args[0], fl.tab.atom('idx', (p0, i))):
                    why.append('argument %s' % [fmt(fl, a) for a in e.args])
                res = fl.tab.atom('call', tuple(e.args), extra=('fn:sample',))
                # destination
                sts = [x for x in fl.of('store') if x.loops == e.loops]
                apps = [x for x in calls(fl, 'append') if x.loops == e.loops]
                if sts:
                    ta = atom_of(fl, sts[0].target)
                    if ta is None or ta.head != 'idx' or not fl.tab.equal(ta.args[1], i):
                        why.append('stored at %s' % unparse(sts[0].target_ast))
                    dest = ta.args[0] if ta is not None else None
                elif apps:
                    dest = apps[0].recv_rf
                else:
                    why.append('result of sample() is not stored')
                    dest = None
                rets = [x for x in fl.of('return') if x.value is not None]
                if rets and dest is not None:
                    rv = rets[0].value
                    ra = atom_of(fl, rv)
                    if ra is not None and ra.head == 'call' and ra.extra[0] == 'fn:tuple':
                        rv = ra.args[0]
                    if not isinstance(rets[0].value_ast, (ast.Name, ast.Call)):
                        why.append('returns %s' % unparse(rets[0].value_ast))
                elif not rets and dest is not None:
                    if not fl.tab.equal(dest, p0):
                        why.append('nothing returned and the input cube is not updated in place')
                for x in rets + sts + apps:
                    if x.guards or (x in rets and x.loops):
                        why.append('%s runs conditionally' % unparse(x.node)[:40])
                if rets and dest is not None and not fl.tab.equal(dest, p0):
                    # what is returned is the container that was filled
                    rv = rets[0].value
                    ra = atom_of(fl, rv)
                    if ra is not None and ra.head == 'call' and ra.extra[0] == 'fn:tuple':
                        rv = ra.args[0]
                    if not fl.tab.equal(rv, dest):
                        why.append('returns %s, not the container the samples were put in' % fmt(fl, rets[0].value)[:60])
        if known and why:
            R.fail('2.%s' % tag, 'ARG', s, stmt, 'prior callback bypasses fitting_priors',
                   '; '.join(why), f.loc())
        else:
            R.check('2.%s' % tag, 'ARG', s, stmt, not why, key='; '.join(why), detail='; '.join(why),
                    loc=f.loc())


def handoff(ix, R, tag, site, ll, pr, how):
    fn, ll_pos, pr_pos, ll_kw, pr_kw, nd_pos, nd_kw = how
    stmt = 'the two closures and ndim = len(fitting_parameters) are what the sampler entry point receives'
    with R.guard('2.%s.handoff' % tag, 'ARG', site, stmt):
        f = ix.func(site)
        fl = mkflow(ix, site)
        e = one(calls(fl, fn), '%s call' % fn)

        def arg(pos, kw):
            if kw is not None and kw in e.kw:
                return e.kw[kw]
            if pos is not None and pos < len(e.args):
                return e.args[pos]
            return None
        why = []
        for nm, a in ((ll, arg(ll_pos, ll_kw)), (pr, arg(pr_pos, pr_kw))):
            at = atom_of(fl, a) if a is not None else None
            if at is None or at.head != 'localdef' or at.args[0] != nm:
                why.append('%s slot receives %s' % (nm, fmt(fl, a)))
        nd = arg(nd_pos, nd_kw)
        if nd is None or not fl.tab.equal(nd, spec(fl, 'len(self.fitting_parameters)')):
            why.append('ndim is %s' % fmt(fl, nd))
        if e.guards or e.loops:
            why.append('the sampler is started conditionally (%s)' % [g.text() for g in e.guards])
        R.check('2.%s.handoff' % tag, 'ARG', site, stmt, not why, key='; '.join(why),
                detail='; '.join(why), loc=f.loc(e.node))


def chisq(ix, R):
    site = OP + '::Optimizer.chisq_trans'
    f = ix.func(site)
    fl = mkflow(ix, site)
    pe = param_env(fl, f, ['p', 'data', 'std'])
    # 3.1 update first
    um = calls(fl, 'update_model')
    mc = calls(fl, 'model')
    ok = len(um) == 1 and not um[0].guards and not um[0].loops and len(um[0].args) == 1 and \
        fl.tab.equal(um[0].args[0], pe['p']) and mc and \
        fl.events.index(um[0]) < fl.events.index(mc[0])
    R.check('3.update', 'DOM', site, 'update_model(callback vector) runs unconditionally before the model is evaluated',
            ok, key='update_model calls %d' % len(um), detail='update_model / model order is wrong or conditional',
            loc=f.loc(um[0].node) if um else f.loc())
    # 3.2 evaluation
    m = one(mc, 'model call')
    bm = one(calls(fl, 'bin_model'), 'bin_model call')
    why = []
    if not (m.kw.get('wngrid') is not None and fl.tab.equal(m.kw['wngrid'], code(fl, 'self._observed.wavenumberGrid'))):
        why.append('model(%s)' % {k: fmt(fl, v) for k, v in m.kw.items()})
    if m.fn is None or fl.canon(m.fn) != fl.canon('self._model.model'):
        why.append('evaluates %s' % unparse(m.node.func))
    a0 = atom_of(fl, bm.args[0]) if len(bm.args) == 1 else None
    if bm.fn is None or fl.canon(bm.fn) != fl.canon('self._binner.bin_model') or a0 is None or a0.head != 'call' or \
            a0.extra[0] != 'fn:' + fl.canon('self._model.model'):
        why.append('binning is %s' % unparse(bm.node))
    R.check('3.eval', 'ARG', site,
            'the forward model is evaluated on the observation grid and binned by the observation binner',
            not why, key='; '.join(why), detail='; '.join(why), loc=f.loc(m.node))
    # 3.3 chi2 formula
    # the value the function comes to outside the exception handler (one return, or several merged by their conditions)
    r = the_return(fl, 'return outside the exception handler',
                   rets=[e for e in fl.of('return') if not any(g.test is None for g in e.guards)])
    binned = fl.tab.atom('idx', (fl.tab.atom('call', tuple(bm.args), extra=('fn:self._binner.bin_model',)),
                                 fl.tab.const(1)))
    b = dict(pe, obs=code(fl, 'self._observed.spectrum'), B=binned)
    chi_n = spec(fl, 'nansum(((obs - B)/std)*((obs - B)/std))', b)
    chi_s = spec(fl, 'np.sum(((obs - B)/std)*((obs - B)/std))', b)
    okf = False
    from sa.helpers import unalloc_deep
    rval = unalloc_deep(fl, r.value)        # (a residual squared in place in its own buffer has the same value)
    for chi in (chi_n, chi_s):
        for w in (chi, spec(fl, '_guard(chi == 0, nan, chi)', {'chi': chi, 'nan': spec(fl, 'np.nan')})):
            okf = okf or fl.tab.equal(rval, w)
    okf = okf and not [g for g in getattr(r, 'guards', ()) if not g.early] and not getattr(r, 'loops', ())
    R.check('3.chi', 'ALG', site, 'chi2 = sum(((observed - binned model)/sigma)^2), binned model = bin_model(...)[1]',
            okf, key='returns %s' % fmt(fl, r.value), detail='returns %s' % fmt(fl, r.value),
            loc=f.loc(r.node), extracted=fmt(fl, r.value))
    # 3.4 handler
    tries = [n for n in walk_no_nested(f.node) if isinstance(n, ast.Try)]
    why = []
    t = one(tries, 'try')
    inside = any(x is t for x in m.trys) and any(x is t for x in bm.trys)
    if not inside:
        why.append('model evaluation is outside the try')
    hs = t.handlers
    base = ix.cls('taurex/exceptions.py::InvalidModelException')
    good = False
    for h in hs:
        names = [h.type] if not isinstance(h.type, ast.Tuple) else list(h.type.elts)
        for nme in names:
            if nme is None:
                continue
            r_ = None
            if isinstance(nme, ast.Name):
                r_ = ix.resolve_name(f.module, nme.id)
            if r_ is base or unparse(nme) in ('Exception', 'BaseException'):
                rets = [s for s in h.body if isinstance(s, ast.Return)]
                rv_ = rets[0].value if rets else None
                if isinstance(rv_, ast.Call) and isinstance(rv_.func, ast.Name) and rv_.func.id == 'float' and \
                        len(rv_.args) == 1 and not rv_.keywords and not isinstance(rv_.args[0], ast.Constant):
                    rv_ = rv_.args[0]               # float(np.nan) is np.nan
                if rets and rv_ is not None and unparse(rv_) in ('np.nan', 'numpy.nan', "float('nan')", 'math.nan'):
                    good = True
                else:
                    why.append('handler does not return NaN')
    if not good:
        why.append('no handler for the base InvalidModelException returning NaN')
    R.check('3.nan', 'EXC', site, 'InvalidModelException (base class) around the model evaluation returns NaN',
            not why, key='; '.join(why), detail='; '.join(why), loc=f.loc(t))
    # 3.5 binner provenance
    opt = ix.cls(OP + '::Optimizer')
    writes = []
    for c in ix.subclasses(opt):
        for lst in c.methods.values():
            for fn in lst:
                for n in ast.walk(fn.node):
                    if isinstance(n, ast.Assign):
                        for tg in n.targets:
                            if isinstance(tg, ast.Attribute) and tg.attr == '_binner':
                                writes.append((fn, n))
    bad = [(fn, n) for fn, n in writes if unparse(n.value) != 'observed.create_binner()'
           or fn.name != 'set_observed']
    R.check('3.binner', 'DOM', OP, 'self._binner is only ever the observation\'s own create_binner()',
            writes and not bad, key='; '.join(unparse(n) for _, n in bad) or 'no write',
            detail='_binner assigned by %s' % [(fn.qualname, unparse(n)) for fn, n in bad],
            loc=bad[0][0].loc(bad[0][1]) if bad else None)


def update_model(ix, R):
    site = OP + '::Optimizer.update_model'
    stmt = ('update_model: for each i, fitting_parameters[i].setter(fitting_priors[i].prior(vector[i])); '
            'length mismatch raises; nothing else is written')
    with R.guard('3.setter', 'ARG', site, stmt):
        f = ix.func(site)
        fl = mkflow(ix, site)
        pe = param_env(fl, f, ['p'])
        why = []
        cs = [e for e in fl.of('call') if e.loops]
        pr = [e for e in cs if e.name == 'prior']
        lp = None
        if len(pr) != 1:
            why.append('%d prior() calls' % len(pr))
        else:
            e = pr[0]
            lp = e.loops[0]
            if lp.kind != 'zip' or len(lp.iter_rf) != 3:
                why.append('loop is %s' % unparse(lp.iter_ast))
            else:
                i = lp.index
                roles = {}
                for q in lp.iter_rf:
                    if fl.tab.equal(q, pe['p']):
                        roles['v'] = q
                    elif fl.tab.equal(q, code(fl, 'self.fitting_parameters')):
                        roles['par'] = q
                    elif fl.tab.equal(q, code(fl, 'self.fitting_priors')):
                        roles['pri'] = q
                if len(roles) != 3:
                    why.append('zip over %s' % unparse(lp.iter_ast))
                else:
                    el = lambda q: fl.tab.atom('elem', (q, i))
                    if e.recv_rf is None or not fl.tab.equal(e.recv_rf, el(roles['pri'])) or \
                            len(e.args) != 1 or not fl.tab.equal(e.args[0], el(roles['v'])):
                        why.append('prior call is %s' % unparse(e.node))
                    # the setter call
                    setter = fl.tab.atom('idx', (el(roles['par']), fl.tab.const(3)))
                    LOGGING = ('error', 'debug', 'info', 'warning', 'critical', 'print')
                    want = fl.tab.atom('mcall', (el(roles['pri']), el(roles['v'])), extra=('fn:prior',))
                    setcalls = [x for x in fl.of('call') if x.loops == e.loops and x is not e and
                                getattr(x, 'func_rf', None) is not None and fl.tab.equal(x.func_rf, setter)]
                    if len(setcalls) != 1:
                        slots = [fmt(fl, x.func_rf) for x in fl.of('call') if x.loops and getattr(x, 'func_rf', None) is not None]
                        why.append('the setter (slot 3 of the fitting tuple) is called %d times in the loop; local callables '
                                   'called: %s' % (len(setcalls), slots))
                    elif len(setcalls[0].args) != 1 or setcalls[0].kw or not fl.tab.equal(setcalls[0].args[0], want):
                        why.append('prior-transformed value is not passed straight to the setter: %s' % unparse(setcalls[0].node))
                    elif [g.node for g in setcalls[0].guards] != [g.node for g in e.guards]:
                        why.append('the setter runs under %s' % [g.text() for g in setcalls[0].guards])
                    others = [x for x in fl.of('call') if x.loops and x is not e and x not in setcalls and
                              x.name not in LOGGING and x.name != 'format' and
                              not (x.name == '_make' and x.fn and getattr(fl.tab, 'records', None) is not None and
                                   fl.tab.records(x.fn[:-6]) is not None)]    # building a record view of the row writes nothing
                    if others:
                        why.append('other calls in the loop: %s' % [unparse(x.node)[:40] for x in others])
        lenchk = spec(fl, 'len(p) != len(self.fitting_parameters)', pe)
        lenchk_c, _ = fl.tab.canon_cond(lenchk)
        for e in pr:
            extra = [g for g in e.guards if not (g.early and g.rf is not None and (
                guard_is(fl, g, lenchk, False)))]
            if extra:
                why.append('the parameter is set only under %s' % [g.text() for g in extra])
        rs = fl.of('raise')
        if not rs or not any(guard_is(fl, g, spec(fl, 'len(p) != len(self.fitting_parameters)', pe), True)
                             for r_ in rs for g in r_.guards):
            why.append('length mismatch does not raise')
        if fl.of('store'):
            why.append('stores: %s' % [unparse(e.node) for e in fl.of('store')])
        R.check('3.setter', 'ARG', site, stmt, not why, key='; '.join(why), detail='; '.join(why), loc=f.loc())


# (function qualname, exception) -> reason it cannot be triggered by a parameter vector
ALLOW = {
    ('Chemistry.get_gas_mix_profile', 'KeyError'): 'gas not part of the chemistry: fixed by configuration',
    ('AutoChemistry.activeGasMixProfile', 'Exception'): 'profile requested before initialize_chemistry: call-order error, model() initialises first',
    ('AutoChemistry.inactiveGasMixProfile', 'Exception'): 'as above',
    ('ArrayGas.initialize_profile', 'ValueError'): 'nlayers argument missing: programming error, model always passes it',
    ('PowerGas.initialize_profile', 'ValueError'): 'no coefficients for the configured molecule: configuration',
    ('InterpolatingOpacity.interp_bilinear_grid', 'ValueError'): 'unknown interpolation mode: configuration',
    ('InterpolatingOpacity.interp_temp_only', 'ValueError'): 'unknown interpolation mode: configuration',
    ('OpacityCache.__getitem__', 'Exception'): 'opacity file missing: configuration',
    ('OpacityCache.load_opacity', 'Exception'): 'bad opacities argument: configuration',
    ('KTableCache.__getitem__', 'Exception'): 'k-table missing: configuration',
    ('KTableCache.load_opacity', 'Exception'): 'bad argument: configuration',
    ('CIACache.__getitem__', 'Exception'): 'CIA file missing: configuration',
    ('CIACache.load_cia', 'Exception'): 'bad argument: configuration',
    ('Singleton.__new__', None): 'n/a',
}

SCOPE = ['taurex/model/', 'taurex/contributions/', 'taurex/data/', 'taurex/opacity/', 'taurex/cia/',
         'taurex/cache/', 'taurex/util/', 'taurex/binning/', 'taurex/core/', 'taurex/exceptions.py',
         'taurex/constants.py']


def exc_escape(ix, R):
    base = ix.cls('taurex/exceptions.py::InvalidModelException')
    cg = CallGraph(ix, SCOPE, family={'contribution_list': 'Contribution',
                                      '_opacity_cache': 'OpacityCache', '_cia_cache': 'CIACache'})
    roots = [ix.func('taurex/model/simplemodel.py::SimpleForwardModel.model'),
             ix.func('taurex/binning/binner.py::Binner.bin_model')]
    for c in ix.subclasses(ix.find_class('Binner')):
        roots.extend(c.methods.get('bindown', []))
    for c in ix.subclasses(ix.find_class('OpacityCache')) + ix.subclasses(ix.find_class('KTableCache')) \
            + ix.subclasses(ix.find_class('CIACache')):
        roots.extend(c.methods.get('__getitem__', []))
    # data loading boundary: loaders run once per molecule / pair and fail on
    # configuration (missing or malformed files), never on a parameter vector
    stop = lambda fn: fn.module.relpath.startswith('taurex/cache/') and fn.name != '__getitem__'
    reach = cg.reach(roots, stop=stop)
    R.info['exc_reachable_functions'] = len(reach)
    n_caught = n_abs = n_allow = n_builtin = 0
    sub_ok = True
    for k, (f, par) in sorted(reach.items(), key=lambda kv: kv[1][0].site):
        for node, exc in raises_in(f):
            site = f.site
            if exc is None:
                # bare re-raise inside a handler
                continue
            r = ix.resolve_name(f.module, exc.split('.')[0]) if exc else None
            if isinstance(r, FuncInfo):
                # `raise make_error(...)`: a helper that only builds the exception - the class it constructs is what is raised
                body_ = [st for st in r.body() if not (isinstance(st, ast.Expr) and isinstance(st.value, ast.Constant))]
                if len(body_) == 1 and isinstance(body_[0], ast.Return) and isinstance(body_[0].value, ast.Call):
                    from sa.algebra import dotted as _dotted
                    exc = _dotted(body_[0].value.func) or exc
                    r = ix.resolve_name(r.module, exc.split('.')[0])
            if isinstance(r, ClassInfo) and ix.is_subclass(r, base):
                n_caught += 1
                R.ok('4.exc', 'EXC', site, 'raise %s is an InvalidModelException (returns NaN)' % exc,
                     loc=f.loc(node))
                continue
            if exc == 'NotImplementedError':
                n_abs += 1
                continue
            why = ALLOW.get((f.qualname, exc))
            if why:
                n_allow += 1
                R.ok('4.exc.allow', 'EXC', site, 'raise %s allow-listed: %s' % (exc, why), loc=f.loc(node))
                continue
            import builtins
            if r is None and isinstance(getattr(builtins, exc.split('(')[0], None), type):
                # ValueError / TypeError / RuntimeError ...: the classes the interpreter and numpy raise implicitly for
                # programming and configuration errors (not decided, see NOT_DECIDED).  An explicit check that turns an
                # already crashing input into a clearer built-in error states nothing about invalid atmospheres; the
                # known validity checks are pinned to InvalidModelException by C10.1 / C12.1 and n_caught below.
                n_builtin += 1
                R.note('raise %s in %s (built-in class: input / configuration error, listed, not judged)' % (exc, f.qualname))
                continue
            R.fail('4.exc', 'EXC', site,
                   'every raise reachable from the likelihood callback is an InvalidModelException '
                   '(or an allow-listed configuration error)',
                   'raise %s in %s' % (exc, f.qualname),
                   'raise %s is reachable from the model evaluation (%s) and is neither an '
                   'InvalidModelException subclass nor allow-listed: it escapes the likelihood callback' % (
                       exc, cg.path_to(reach, f)), f.loc(node))
    R.info['exc'] = {'invalid_model_raises': n_caught, 'abstract': n_abs, 'allow_listed': n_allow}
    if n_caught < 9:
        R.error('4.exc.count', 'EXC', 'taurex', 'the confirmed invalid-model raise sites are reachable',
                'only %d found (confirmed by hand: 9 or more)' % n_caught)
    # subclass relation of the two specialised exceptions
    for site in ('taurex/data/profiles/chemistry/taurexchemistry.py::InvalidChemistryException',
                 'taurex/data/profiles/temperature/npoint.py::InvalidTemperatureException'):
        with R.guard('4.sub', 'EXC', site, 'is an InvalidModelException'):
            c = ix.cls(site)
            R.check('4.sub', 'EXC', site, '%s is a subclass of InvalidModelException' % c.name,
                    ix.is_subclass(c, base), key='bases %s' % c.base_exprs,
                    detail='bases are %s' % c.base_exprs, loc=c.module.relpath)
    # setters (run outside the try) are raise-free
    setters = []
    for c in ix.all_classes():
        if not c.module.relpath.startswith(tuple(SCOPE)):
            continue
        for name, lst in c.methods.items():
            for fn in lst:
                if any(d.endswith('.setter') for d in fn.decorators()):
                    getter = lst[0]
                    if any(d.startswith('fitparam') for d in getter.decorators()):
                        setters.append(fn)
        # dynamically registered setters: functions passed to add_fittable_param
        for lst in c.methods.values():
            for fn in lst:
                for n in ast.walk(fn.node):
                    if isinstance(n, ast.Call) and isinstance(n.func, ast.Attribute) and \
                            n.func.attr == 'add_fittable_param' and len(n.args) >= 4 and \
                            isinstance(n.args[3], ast.Name):
                        for d in ast.walk(fn.node):
                            if isinstance(d, ast.FunctionDef) and d.name == n.args[3].id:
                                setters.append(FuncInfo(fn.module, fn.qualname + '.' + d.name, d, cls=c, parent=fn))
    sreach = cg.reach(setters)
    bad = []
    for k, (f, par) in sreach.items():
        for node, exc in raises_in(f):
            if exc in ('NotImplementedError',):
                continue
            bad.append('%s raises %s (%s)' % (f.site, exc, cg.path_to(sreach, f)))
    R.info['setters_analysed'] = len(setters)
    if len(setters) < 30:
        R.error('4.setters.count', 'EXC', 'taurex', 'fit-parameter setters are found', 'only %d' % len(setters))
    R.check('4.setters', 'EXC', 'taurex/**/@fitparam.setter',
            'setters reached by update_model (outside the try) contain no explicit raise (%d setters, %d functions)' % (
                len(setters), len(sreach)), not bad, key='; '.join(sorted(bad)), detail='; '.join(sorted(bad)))


def run(ix, R):
    for tag, site, ll, pr, how in SAMPLERS:
        loglike(ix, R, tag, site, ll)
        prior(ix, R, tag, site, pr)
        handoff(ix, R, tag, site, ll, pr, how)
    with R.guard('3', 'ALG', OP + '::Optimizer.chisq_trans', 'chisq_trans'):
        chisq(ix, R)
    update_model(ix, R)
    with R.guard('4', 'EXC', 'taurex', 'exception escape'):
        exc_escape(ix, R)


def run_thorough(ix, R):
    tag, site, ll, pr, how = DYPOLY
    loglike(ix, R, tag, site, ll)
    prior(ix, R, tag, site, pr, known=True)


NE = 'taurex/optimizer/nestle.py'
MN = 'taurex/optimizer/multinest.py'
PC = 'taurex/optimizer/polychord.py'
MUTANTS = [
    ('nestle-half', NE, 'loglike = -np.sum(np.log(datastd * sqrtpi)) - 0.5 * chi_t', 'loglike = -np.sum(np.log(datastd * sqrtpi)) - chi_t', '1.nestle'),
    ('nestle-sqrtpi', NE, 'sqrtpi = np.sqrt(2 * np.pi)', 'sqrtpi = np.sqrt(np.pi)', '1.nestle'),
    ('multinest-sign', MN, 'loglike = -np.sum(np.log(datastd * sqrtpi)) - 0.5 * chi_t', 'loglike = np.sum(np.log(datastd * sqrtpi)) - 0.5 * chi_t', '1.multinest'),
    ('multinest-sigma', MN, "            datastd = self._observed.errorBar\n            fit_params_container", "            datastd = self._observed.spectrum\n            fit_params_container", '1.multinest'),
    ('polychord-vector', PC, 'fit_params_container = np.array([cube[i] for i in range(len(self.fitting_parameters))])', 'fit_params_container = np.array([cube[i] for i in range(len(self.fitting_parameters) - 1)])', '1.polychord'),
    ('nestle-prior-index', NE, 'cube.append(prior.sample(theta[idx]))', 'cube.append(prior.sample(theta[0]))', '2.nestle'),
    ('multinest-prior-store', MN, 'cube[idx] = priors.sample(cube[idx])', 'cube[0] = priors.sample(cube[idx])', '2.multinest'),
    ('polychord-prior-skip', PC, "            for idx, priors in enumerate(self.fitting_priors):\n                cube[idx] = priors.sample(hypercube[idx])", "            for idx, priors in enumerate(self.fitting_priors):\n                if idx > 0:\n                    cube[idx] = priors.sample(hypercube[idx])", '2.polychord'),
    ('nestle-handoff-swap', NE, 'res = nestle.sample(nestle_loglike, nestle_uniform_prior, ndims,', 'res = nestle.sample(nestle_uniform_prior, nestle_loglike, ndims,', '2.nestle.handoff'),
    ('multinest-ndim', MN, "        ndim = len(self.fitting_parameters)\n        self.warning('Number of dimensions", "        ndim = len(self.fitting_priors) + 1\n        self.warning('Number of dimensions", '2.multinest.handoff'),
    ('chisq-no-update', OP, "        self.update_model(fit_params)\n        mydata = self._observed.spectrum", "        mydata = self._observed.spectrum", '3.update'),
    ('chisq-native-grid', OP, 'self._model.model(wngrid=obs_bins)', 'self._model.model(wngrid=None)', '3.eval'),
    ('chisq-abs', OP, 'res = np.nansum(res * res)', 'res = np.nansum(np.abs(res))', '3.chi'),
    ('chisq-index', OP, '_, final_model, _, _ = self._binner.bin_model(', 'final_model, _, _, _ = self._binner.bin_model(', '3.chi'),
    ('chisq-handler-sub', OP, "        from taurex.exceptions import InvalidModelException\n        self.update_model(fit_params)", "        from taurex.data.profiles.temperature.npoint import InvalidTemperatureException as InvalidModelException\n        self.update_model(fit_params)", '3.nan'),
    ('chisq-handler-zero', OP, "        except InvalidModelException:\n            return np.nan", "        except InvalidModelException:\n            return 0.0", '3.nan'),
    ('update-no-prior', OP, 'fset(priors.prior(value))', 'fset(value)', '3.setter'),
    ('update-wrong-slot', OP, "            name, latex, fget, fset, mode, to_fit, bounds = param\n            fset(priors.prior(value))", "            name, latex, fset, fget, mode, to_fit, bounds = param\n            fset(priors.prior(value))", '3.setter'),
    ('exc-valueerror', 'taurex/data/profiles/temperature/npoint.py', "class InvalidTemperatureException(InvalidModelException):", "class InvalidTemperatureException(ValueError):", '4.sub'),
    ('exc-new-raise', 'taurex/data/profiles/temperature/guillot.py', "raise InvalidModelException('Negative temperature input')", "raise ValueError('Negative temperature input')", '4.exc'),
    ('exc-setter-raise', 'taurex/contributions/simpleclouds.py', "    def cloudsPressure(self, value):\n        self._cloud_pressure = value", "    def cloudsPressure(self, value):\n        if value < 0:\n            raise ValueError('negative pressure')\n        self._cloud_pressure = value", '4.setters'),
    ('binner-other', OP, 'self._binner = observed.create_binner()', 'self._binner = observed.create_binner() if observed.spectrum.size else None', '3.binner'),
]
EQUIVALENTS = [
    ('nestle-reorder', NE, 'loglike = -np.sum(np.log(datastd * sqrtpi)) - 0.5 * chi_t', 'loglike = -0.5 * chi_t - np.sum(np.log(sqrtpi * datastd))'),
    ('multinest-inline', MN, 'loglike = -np.sum(np.log(datastd * sqrtpi)) - 0.5 * chi_t', 'loglike = -np.sum(np.log(datastd * np.sqrt(2.0 * np.pi))) - chi_t / 2.0'),
    ('chisq-square', OP, 'res = np.nansum(res * res)', 'res = np.nansum(res ** 2)'),
]
UNCONDITIONAL = [
    (OP, 'fset(priors.prior(value))'),
    (OP, 'return res$'),
    (NE, 'return loglike'),
    (NE, 'return tuple(cube)'),
    (NE, 'cube.append(prior.sample(theta[idx]))'),
    (NE, 'res = nestle.sample('),
    (MN, 'return loglike'),
    (PC, 'return (loglike, [0.0])'),
    (PC, 'return cube'),
]
