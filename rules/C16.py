"""C16 Output files hold what was computed and reload to the same model."""
import ast

from sa.helpers import (mkflow, spec, code, one, calls, bind_call, param_env,
                        fmt, atom_of, unparse, walk_no_nested, guard_is, the_return)
from sa.index import AnalysisError, ClassInfo
from sa.algebra import RF, dotted
from sa.api import api_obligations
from rules.C15 import families, family_classes, ctor_keywords

FLOOR = 60
UH = 'taurex/util/hdf5.py'
UU = 'taurex/util/util.py'
BB = 'taurex/binning/binner.py'
FB = 'taurex/binning/fluxbinner.py'
SB = 'taurex/binning/simplebinner.py'
NB = 'taurex/binning/nativebinner.py'
OH = 'taurex/output/hdf5.py'
OO = 'taurex/output/output.py'
FILES = [UH, UU, BB, FB, SB, NB, OH, OO, 'taurex/']
EXPLANATION = (
    'Static rule conformance for output and reload: for every built-in component '
    'class, each constructor keyword (what the loader offers back to the '
    'constructor) is a key emitted by the write() chain, and the value written '
    'is the attribute the constructor stored that keyword in (unit factors '
    'inverse of each other); the spectrum dictionaries of all binners use the '
    'stated formulas, and optical depths are present according to the output '
    'size; the type dispatch of the dictionary writer covers the documented '
    'types and raises otherwise; the HDF5 group implements every abstract '
    'write method; the loader uses no removed library names.')
ASSUMPTIONS = ['h5py stores and returns arrays, scalars and strings unchanged',
               'components outside taurex/ are not analysed']
NOT_DECIDED = ['byte-level round trip through h5py', 'the reloaded model produces the same spectrum (behavioural; '
               'the writer/reader table is its necessary condition)']

WRITERS = {'write_scalar', 'write_array', 'write_string', 'write_string_array', 'write_list'}

# constructor keywords that are legitimately not written, with the reason
EXEMPT = {
    ('*model*', 'planet'): 'component object, rebuilt from its own group and passed in',
    ('*model*', 'star'): 'component object', ('*model*', 'pressure_profile'): 'component object',
    ('*model*', 'temperature_profile'): 'component object', ('*model*', 'chemistry'): 'component object',
    ('*model*', 'nlayers'): 'subsumed by the stored pressure component',
    ('*model*', 'atm_min_pressure'): 'subsumed by the stored pressure component',
    ('*model*', 'atm_max_pressure'): 'subsumed by the stored pressure component',
    ('BasePlanet', 'planet_sma'): 'alias of the written planet_distance',
    ('Planet', 'planet_sma'): 'alias of the written planet_distance',
}


def _resolve_local(f, node):
    """value ast with a bare local Name replaced by what write() first
    assigned to it (e.g. P_surface = self._P_surface)"""
    if isinstance(node, ast.Name):
        for n in f.body():
            if isinstance(n, ast.Assign) and len(n.targets) == 1 and isinstance(n.targets[0], ast.Name) \
                    and n.targets[0].id == node.id:
                return n.value
    return node


def written_keys(ix, c):
    """{key: value ast} emitted by the write() chain of class c (following
    super().write); None if the class has no write."""
    out = {}
    seen = set()
    cur = c
    f = ix.lookup_method(c, 'write')
    while f is not None and id(f.node) not in seen:
        seen.add(id(f.node))
        nxt = None
        for n in walk_no_nested(f.node):
            if isinstance(n, ast.Call) and isinstance(n.func, ast.Attribute):
                if n.func.attr in WRITERS and n.args and isinstance(n.args[0], ast.Constant):
                    out.setdefault(n.args[0].value, _resolve_local(f, n.args[1]) if len(n.args) > 1 else None)
                if n.func.attr == 'write' and isinstance(n.func.value, ast.Call) and \
                        dotted(n.func.value.func) == 'super':
                    nxt = ix.lookup_method(f.cls, 'write', after=f.cls)
        f = nxt
    return out


def ctor_attr_map(ix, c):
    """{param: (attr, factor text or None)} from `self.A = param [* CONST]`,
    np.array(param), int(param) in the constructor chain of c."""
    out = {}
    f = ix.lookup_method(c, '__init__')
    if f is None:
        return out
    params = set(f.params())
    for n in f.body():          # unconditional, top-level statements only
        if isinstance(n, ast.Assign) and len(n.targets) == 1 and isinstance(n.targets[0], ast.Attribute) \
                and dotted(n.targets[0]) and dotted(n.targets[0]).startswith('self.'):
            v = n.value
            fac = None
            if isinstance(v, ast.Call) and len(v.args) == 1 and unparse(v.func) in (
                    'np.array', 'int', 'float', 'np.asarray', 'list'):
                v = v.args[0]
            if isinstance(v, ast.BinOp) and isinstance(v.op, ast.Mult) and isinstance(v.left, ast.Name) \
                    and isinstance(v.right, ast.Name):
                fac = v.right.id
                v = v.left
            if isinstance(v, ast.Name) and v.id in params and v.id not in out:
                out[v.id] = (n.targets[0].attr, fac)
    return out


def writer_reader(ix, R):
    fams = families(ix)
    groups = ['temperature', 'pressure', 'chemistry', 'gas', 'planet', 'star', 'model', 'contribution']
    nkeys = 0
    done = set()
    for fam in groups:
        if fam not in fams:
            raise AnalysisError('family %s not found' % fam)
        classes = family_classes(ix, fams[fam])
        extra = []
        for c in ix.subclasses(fams[fam][1], strict=True):
            if c not in classes and c.module.relpath.startswith('taurex/data') or c in classes:
                if c not in classes:
                    extra.append(c)
        for c in classes + extra:
            if c.site in done or c.module.relpath.startswith('taurex/mixin'):
                continue
            done.add(c.site)
            kw, init = ctor_keywords(ix, c)
            if init is None:
                continue
            wk = written_keys(ix, c)
            amap = ctor_attr_map(ix, c)
            for k in kw:
                ex = EXEMPT.get((c.name, k)) or (EXEMPT.get(('*model*', k)) if fam == 'model' else None)
                if ex:
                    continue
                nkeys += 1
                site = c.site + '{' + k + '}'
                if k not in wk:
                    R.fail('1.write', 'TAB', site,
                           'constructor keyword %r of %s is written by its write() chain (so the loader can hand it back)' % (k, c.name),
                           '%s.%s not written' % (c.name, k),
                           '%s(%s=...) is a constructor keyword; write() emits %s: after a reload the keyword falls '
                           'back to its default' % (c.name, k, sorted(wk)), init.loc())
                    continue
                # value agreement
                why = None
                if k in amap and wk[k] is not None:
                    attr, fac = amap[k]
                    vtxt = unparse(wk[k])
                    names = {x.attr for x in ast.walk(wk[k]) if isinstance(x, ast.Attribute)}
                    # a value that comes out of a private helper new to the reviewed tree: what that helper reads
                    from sa.helpers import known_functions as _kf
                    for x in ast.walk(wk[k]):
                        if isinstance(x, ast.Call) and isinstance(x.func, ast.Attribute) and isinstance(x.func.value, ast.Name) \
                                and x.func.value.id == 'self':
                            h_ = ix.lookup_method(c, x.func.attr)
                            if h_ is not None and _kf() is not None and h_.site not in _kf():
                                names |= {y.attr for y in ast.walk(h_.node) if isinstance(y, ast.Attribute)}
                    getters = {g for g in names if ix.trivial_getter(c, g) == attr}
                    if attr not in names and not getters and 'np.array(self.%s)' % attr not in vtxt:
                        why = 'key %r stores %s but the constructor keeps %r in self.%s' % (k, vtxt, k, attr)
                    elif fac is not None and not (isinstance(wk[k], ast.BinOp) and isinstance(wk[k].op, ast.Div)
                                                  and unparse(wk[k].right) == fac):
                        why = 'constructor multiplies %r by %s; write() stores %s (expected division by %s)' % (k, fac, vtxt, fac)
                R.check('1.write', 'TAB', site,
                        'constructor keyword %r of %s is written by its write() chain from the attribute that holds it' % (k, c.name),
                        why is None, key='%s.%s value' % (c.name, k), detail=why or '', loc=init.loc())
    if nkeys < 60:
        R.error('1.write.count', 'TAB', 'taurex', 'component constructor keywords are found', 'found %d' % nkeys)
    R.info['constructor_keywords_checked'] = nkeys
    # planet: constructor converts with a unit name, write() divides by the matching constant
    site = 'taurex/data/planet.py::BasePlanet.__init__'
    with R.guard('1.planet', 'TAB', site, 'planet units'):
        f = ix.func(site)
        src = unparse(f.node)
        w = written_keys(ix, ix.cls('taurex/data/planet.py::BasePlanet'))
        cm = ix.module('taurex/constants.py')
        from sa.helpers import pos_args
        flc = mkflow(ix, site)
        pec = {p_: flc.tab.name(p_) for p_ in f.params()}

        def ctor_calls(setter, wanted):
            """the constructor calls self.<setter>(<wanted>), unconditionally (keyword or positional arguments)"""
            evs = [e for e in calls(flc, setter)]
            if len(evs) != 1:
                return False
            a_, kd_ = pos_args(flc, evs[0])
            if kd_ or evs[0].guards or evs[0].loops or len(a_) != len(wanted):
                return False
            return all(flc.tab.equal(x_, spec(flc, w_, pec)) for x_, w_ in zip(a_, wanted))
        table = [('planet_mass', ('set_planet_mass', ['planet_mass', "'Mjup'"]), 'self._mass / MJUP', 'MJUP', "conversion_factor('Mjup', 'kg')"),
                 ('planet_radius', ('set_planet_radius', ['planet_radius', "'Rjup'"]), 'self._radius / RJUP', 'RJUP', "conversion_factor('Rjup', 'm')"),
                 ('planet_distance', ('set_planet_semimajoraxis', ['planet_sma or planet_distance']), 'self._distance / AU', 'AU', "conversion_factor('AU', 'm')")]
        why = []
        for k, (setter_, wanted_), wexpr, cname, cdef in table:
            if not ctor_calls(setter_, wanted_):
                why.append('constructor does not call self.%s(%s)' % (setter_, ', '.join(wanted_)))
            if k not in w or unparse(w[k]) != wexpr:
                why.append('%s written as %s' % (k, unparse(w[k]) if k in w and w[k] is not None else None))
            if unparse(cm.aliases.get(cname)) != cdef:
                why.append('%s = %s' % (cname, unparse(cm.aliases.get(cname))))
        for setter, attr, unit in (('set_planet_mass', '_mass', 'kg'), ('set_planet_radius', '_radius', 'm'),
                                   ('set_planet_semimajoraxis', '_distance', 'm')):
            ssite = 'taurex/data/planet.py::BasePlanet.' + setter
            sf = ix.func(ssite)
            fls = mkflow(ix, ssite)
            pes = param_env(fls, sf, ['value', 'unit'])
            sts_ = [e for e in fls.of('store') if fmt(fls, e.target) == 'self.' + attr]
            if len(sts_) != 1 or sts_[0].guards or sts_[0].loops or not fls.tab.equal(
                    sts_[0].value, spec(fls, "value * conversion_factor(unit, '%s')" % unit, pes)):
                why.append('%s does not store value * conversion_factor(unit, %r) in %s' % (setter, unit, attr))
        R.check('1.planet', 'TAB', site,
                'planet mass / radius / distance: stored in SI through conversion_factor(<unit>, SI) and written divided by '
                'the constant of the same unit (MJUP, RJUP, AU)', not why, key='; '.join(why), detail='; '.join(why), loc=f.loc())
    # type keys read by the loader are written
    want = {'temperature': 'temperature_type', 'pressure': 'pressure_type', 'chemistry': 'chemistry_type',
            'gas': 'gas_type', 'star': 'star_type', 'model': 'model_type'}
    for fam, key in want.items():
        base = fams[fam][1]
        wk = written_keys(ix, base)
        f = ix.lookup_method(base, 'write')
        val = unparse(wk.get(key)) if wk.get(key) is not None else None
        R.check('1.type', 'TAB', base.site, "base write() of family %s stores '%s' = the class name the loader instantiates" % (fam, key),
                val == 'self.__class__.__name__', key='%s = %s' % (key, val), detail='%s = %s' % (key, val),
                loc=f.loc() if f else None)
    # loader side
    site = UH + '::load_generic_profile_from_hdf5'
    with R.guard('1.loader', 'TAB', site, 'loader'):
        f = ix.func(site)
        from sa.helpers import need
        ps = f.params()
        need(R, '1.loader', 'TAB', site,
             'the loader offers the constructor exactly the stored keys that are constructor keywords, by name', f,
             ['V_pt = V_loc[V_id][()]', 'V_k = class_for_name(V_pt)', 'V_kws = get_klass_args(V_k)', 'V_keys = list(V_loc.keys())', '''
for V_kw in V_kws:
    if V_kw in V_keys:
        V_v = V_loc[V_kw][()]
        ...
''', 'V_args[V_kw] = V_v', 'return V_k(**V_args)'],
             binding={'V_loc': ps[0], 'V_id': ps[2], 'V_pt': ps[3]},
             under=['V_pt is None', 'V_kw in V_repl', 'V_kw in V_keys'])
    site = UH + '::get_klass_args'
    with R.guard('1.loader.args', 'TAB', site, 'keyword list'):
        f = ix.func(site)
        from sa.helpers import resolve_guards, has_guard
        fl = mkflow(ix, site)
        pe = param_env(fl, f, ['k'])
        A = spec(fl, 'inspect.getfullargspec(k.__init__)', pe)
        if not [e for e in calls(fl, 'getfullargspec')]:
            raise AnalysisError('the constructor is not inspected with inspect.getfullargspec')
        rv = the_return(fl).value
        nodef = spec(fl, 'A[3] is None', {'A': A})
        why = []
        for scen, want, what in ((True, spec(fl, '[]'), 'a constructor without defaults'),
                                 (False, spec(fl, 'A[0][-len(A[3]):]', {'A': A}), 'a constructor with defaults')):
            got = resolve_guards(fl, rv, lambda c: scen if fl.tab.equal(c, nodef) else None)
            if has_guard(got):
                raise AnalysisError('the keywords of %s are not settled: %s' % (what, fmt(fl, got)[:200]))
            if not fl.tab.equal(got, want):
                why.append('for %s the keywords are %s' % (what, fmt(fl, got)[:160]))
        R.check('1.loader.args', 'TAB', site, 'constructor keywords = the parameters that have defaults (the last len(defaults) '
                'positional parameters of __init__)', not why, key='; '.join(why), detail='; '.join(why), loc=f.loc())
    site = UH + '::load_model_from_hdf5'
    with R.guard('1.loader.model', 'TAB', site, 'model'):
        f = ix.func(site)
        from sa.helpers import need
        ps = f.params()
        need(R, '1.loader.model', 'TAB', site,
             'the reloaded model receives the five reloaded components under their constructor names and every stored contribution', f,
             ['V_c = load_chemistry_from_hdf5(V_loc, replacement_dict=V_r)', 'V_p = load_pressure_from_hdf5(V_loc, replacement_dict=V_r)',
              'V_t = load_temperature_from_hdf5(V_loc, replacement_dict=V_r)', 'V_pl = load_planet_from_hdf5(V_loc, replacement_dict=V_r)',
              'V_s = load_star_from_hdf5(V_loc, replacement_dict=V_r)',
              "V_m = load_generic_profile_from_hdf5(V_loc, 'taurex.model', 'model_type', premade_dict=V_kw, replacement_dict=V_r)",
              "V_cl = V_loc['Contributions']",
              'V_m.add_contribution(load_contrib_from_hdf5(V_cl, V_ci, replacement_dict=V_r))', 'return V_m'],
             binding={'V_loc': ps[0], 'V_r': ps[1]})
        # the five components reach the model constructor under its own keyword names, however the dictionary is built
        from sa.helpers import dict_facts
        fl = mkflow(ix, site)
        facts = dict_facts(fl)
        pe = param_env(fl, f, ['loc', 'r'])
        why = []
        for key, loader in (('planet', 'load_planet_from_hdf5'), ('star', 'load_star_from_hdf5'),
                            ('chemistry', 'load_chemistry_from_hdf5'), ('temperature_profile', 'load_temperature_from_hdf5'),
                            ('pressure_profile', 'load_pressure_from_hdf5')):
            got = facts.get(key, [])
            want = spec(fl, '%s(loc, replacement_dict=r)' % loader, pe)
            if len(got) != 1 or not fl.tab.equal(got[0][0], want) or got[0][1].guards or got[0][1].loops:
                why.append('%s <- %s' % (key, [fmt(fl, g_[0])[:60] for g_ in got] or None))
        R.check('1.loader.model.kw', 'TAB', site,
                'planet, star, chemistry, temperature_profile and pressure_profile are each given the component reloaded by '
                'its own loader', not why, key='; '.join(why), detail='; '.join(why), loc=f.loc())


def spectrum_dicts(ix, R):
    site = BB + '::Binner.generate_spectrum_output'
    with R.guard('3.base', 'ALG', site, 'base dictionary'):
        f = ix.func(site)
        fl = mkflow(ix, site)
        pe = param_env(fl, f, ['M', 'size'])
        wn = fl.tab.atom('idx', (pe['M'], fl.tab.const(0)))
        fx = fl.tab.atom('idx', (pe['M'], fl.tab.const(1)))
        tau = fl.tab.atom('idx', (pe['M'], fl.tab.const(2)))
        b = dict(pe, wn=wn, fx=fx, tau=tau)
        from sa.helpers import dict_facts
        facts = dict_facts(fl)
        want = {'native_wngrid': 'wn', 'native_wlgrid': '10000/wn', 'native_spectrum': 'fx',
                'binned_spectrum': 'self.bindown(wn, fx)[1]', 'native_wnwidth': 'compute_bin_edges(wn)[-1]',
                'native_wlwidth': 'compute_bin_edges(10000/wn)[-1]', 'binned_tau': 'self.bindown(wn, tau)[1]',
                'native_tau': 'tau'}
        why = []
        st = {}

        def readback(rf_):
            # an entry read back from the dictionary being built (`output['native_wlgrid']` after it was stored) is the
            # value that was stored under that key
            def f_(a_, at_, nargs_):
                if at_.head == 'idx' and len(nargs_) == 2 and isinstance(nargs_[1], RF):
                    ka_ = atom_of(fl, nargs_[1])
                    ba_ = atom_of(fl, nargs_[0]) if isinstance(nargs_[0], RF) else None
                    if ka_ is not None and ka_.head == 'const' and ba_ is not None and ba_.head in ('alloc', 'dict', 'call', 'tuple'):
                        key_ = ka_.args[0].strip("'\"")
                        vs_ = facts.get(key_, [])
                        if len(vs_) == 1 and isinstance(vs_[0][0], RF):
                            return vs_[0][0]
                return None
            return fl.tab.rewrite(rf_, f_) if isinstance(rf_, RF) else rf_
        for k, w in want.items():
            got = facts.get(k, [])
            if len(got) != 1 or not (fl.tab.equal(got[0][0], spec(fl, w, b)) or
                                     fl.tab.equal(readback(got[0][0]), spec(fl, w, b))):
                why.append('%s = %s' % (k, [fmt(fl, g_[0]) for g_ in got] or None))
            if len(got) == 1:
                st[k] = got[0][1]
        R.check('3.base', 'ALG', site,
                'native_wlgrid = 10000/wngrid; binned_spectrum = bindown(wngrid, flux)[1]; widths from mid-point edges; '
                'taus from the model output',
                not why, key='; '.join(why), detail='; '.join(why), loc=f.loc())
        # the sizes are an IntEnum: a chain of `size > X` tests is the test against the largest X
        levels = {}
        for m_ in ix.modules.values():
            c_ = m_.classes.get('OutputSize')
            if c_ is not None:
                for n_ in c_.node.body:
                    if isinstance(n_, ast.Assign) and len(n_.targets) == 1 and isinstance(n_.targets[0], ast.Name) and \
                            isinstance(n_.value, ast.Constant) and isinstance(n_.value.value, int):
                        levels[n_.targets[0].id] = n_.value.value
        if not {'light', 'lighter', 'heavy'} <= set(levels):
            raise AnalysisError('OutputSize levels not found')
        why = []
        und = []

        def threshold(e):
            """largest level L such that the entry is written only if size > L (None: written unconditionally)"""
            th = None
            for g in e.guards:
                hit = None
                for nm_, v_ in levels.items():
                    if guard_is(fl, g, spec(fl, 'OutputSize.%s < size' % nm_, pe), True):
                        hit = v_
                    elif guard_is(fl, g, spec(fl, 'OutputSize.%s <= size' % nm_, pe), True):
                        hit = v_ - 1
                if hit is None:
                    und.append(g.text())
                    continue
                th = hit if th is None else max(th, hit)
            return th
        for k, lv in (('binned_tau', 'lighter'), ('native_tau', 'light')):
            e = st.get(k)
            if e is None:
                continue
            th = threshold(e)
            if th != levels[lv]:
                why.append('%s under %s' % (k, [g.text() for g in e.guards]))
        for k in ('native_wngrid', 'native_spectrum', 'binned_spectrum'):
            if k in st and st[k].guards:
                why.append('%s is conditional' % k)
        if und and not why:
            R.error('3.base.size', 'GUARD', site, 'which entries are written for which output size',
                    'a condition this rule cannot place on the OutputSize scale: %s' % und, loc=f.loc())
        else:
            R.check('3.base.size', 'GUARD', site,
                    'binned_tau is stored iff size > lighter; native_tau iff size > light; spectra always',
                    not why, key='; '.join(why), detail='; '.join(why), loc=f.loc())
    for site, grid, width in ((FB + '::FluxBinner.generate_spectrum_output', 'self._wngrid', 'self._wngrid_width'),
                              (SB + '::SimpleBinner.generate_spectrum_output', 'self._wngrid', 'self._wn_width')):
        with R.guard('3.binned', 'SIB', site, 'binned dictionary'):
            f = ix.func(site)
            fl = mkflow(ix, site)
            st = {}
            for e in fl.of('store'):
                ta = atom_of(fl, e.target)
                if ta is not None and ta.head == 'idx':
                    ka = atom_of(fl, ta.args[1])
                    if ka is not None and ka.head == 'const':
                        st[ka.args[0].strip("'")] = e
            want = {'binned_wngrid': grid, 'binned_wlgrid': '10000/%s' % grid, 'binned_wnwidth': width,
                    'binned_wlwidth': '10000*%s/%s**2' % (width, grid)}
            why = []
            from sa.helpers import inline_calls
            for k, w in want.items():
                if k not in st:
                    why.append('%s missing' % k)
                    continue
                v = inline_calls(ix, fl, st[k].value, f.module.relpath, {'wnwidth_to_wlwidth'})
                if not fl.tab.equal(v, spec(fl, w)):
                    why.append('%s = %s' % (k, fmt(fl, st[k].value)))
            sup = [e for e in fl.of('call') if unparse(e.node.func) == 'super().generate_spectrum_output']
            if len(sup) != 1:
                why.append('base dictionary not included')
            R.check('3.binned', 'SIB', site,
                    'binned_wlgrid = 10000/binned_wngrid; binned_wlwidth = wavenumber width converted at the bin centre '
                    '(10000 w / x^2), on top of the base dictionary',
                    not why, key='; '.join(why), detail='; '.join(why), loc=f.loc())
    site = NB + '::NativeBinner.generate_spectrum_output'
    with R.guard('3.native', 'SIB', site, 'native dictionary'):
        f = ix.func(site)
        fl = mkflow(ix, site)
        pe = param_env(fl, f, ['M', 'size'])
        st = {}
        for e in fl.of('store'):
            ta = atom_of(fl, e.target)
            ka = atom_of(fl, ta.args[1]) if ta is not None and ta.head == 'idx' else None
            if ka is not None and ka.head == 'const':
                st[ka.args[0].strip("'")] = e
        b = dict(pe, wn=fl.tab.atom('idx', (pe['M'], fl.tab.const(0))), fx=fl.tab.atom('idx', (pe['M'], fl.tab.const(1))),
                 tau=fl.tab.atom('idx', (pe['M'], fl.tab.const(2))))
        why = []
        for k, w in {'native_wngrid': 'wn', 'native_wlgrid': '10000/wn', 'native_spectrum': 'fx', 'native_tau': 'tau'}.items():
            if k not in st or not fl.tab.equal(st[k].value, spec(fl, w, b)):
                why.append('%s = %s' % (k, fmt(fl, st[k].value) if k in st else None))
        e = st.get('native_tau')
        if e is not None and not (len(e.guards) == 1 and e.guards[0].positive and
                                  fl.tab.equal(e.guards[0].rf, spec(fl, 'OutputSize.light < size', pe))):
            why.append('native_tau under %s' % [g.text() for g in e.guards])
        R.check('3.native', 'SIB', site, 'native binner: same native keys; native_tau iff size > light',
                not why, key='; '.join(why), detail='; '.join(why), loc=f.loc())


def dispatch(ix, R):
    site = UU + '::store_thing'
    with R.guard('4.dispatch', 'TAB', site, 'type dispatch'):
        f = ix.func(site)
        fl = mkflow(ix, site)
        pe = param_env(fl, f, ['out', 'key', 'item'])
        table = {}

        def types_of(rf):
            """type names T of an `isinstance(item, T)` test (T a class or a tuple of classes)"""
            a = atom_of(fl, rf) if rf is not None else None
            if a is None or a.head != 'call' or a.extra[0] != 'fn:isinstance' or len(a.args) != 2 or \
                    not fl.tab.equal(a.args[0], pe['item']):
                return frozenset()
            ta_ = atom_of(fl, a.args[1])
            elts = ta_.args if ta_ is not None and ta_.head == 'tuple' else [a.args[1]]
            return frozenset(fmt(fl, x) for x in elts)
        for e in fl.of('call'):
            if e.name in WRITERS or e.name in ('create_group',):
                pos = [g for g in e.guards if g.positive] + [g for g in getattr(e, 'validated', ()) if g.positive]
                tys = frozenset().union(*[types_of(g.rf) for g in pos]) if pos else frozenset()
                table.setdefault(e.name, []).append((tys, [fmt(fl, a) for a in e.args]))
        why = []

        def has(name, typs, args=None):
            return any(set(typs) <= t and (args is None or a == args) for t, a in table.get(name, []))
        ki = [fmt(fl, pe['key']), fmt(fl, pe['item'])]
        if not has('write_scalar', ['float', 'int'], ki):
            why.append('scalars')
        if not has('write_array', ['ndarray'], ki):
            why.append('arrays')
        if not has('write_string', ['str'], ki):
            why.append('strings')
        if not has('write_string_array', ['list', 'tuple']):
            why.append('string lists')
        from sa.pattern import find as _find
        if not has('create_group', ['dict']) or _find(f.node, ['V_g = %s.create_group(%s)' % (f.params()[0], f.params()[1]),
                                                        'recursively_save_dict_contents_to_output(V_g, %s)' % f.params()[2]])[0] is None:
            why.append('nested dictionaries')
        if not fl.of('raise') or not any(unparse(r.exc_ast).startswith('TypeError') for r in fl.of('raise')):
            why.append('unknown type does not raise')
        R.check('4.dispatch', 'TAB', site,
                'store_thing: numbers -> write_scalar, ndarray -> write_array, str -> write_string, list/tuple -> string '
                'array or array (element-wise fallback), dict -> sub-group recursively, anything else raises; '
                'always under the given key',
                not why, key='; '.join(why), detail='not handled: %s; table %s' % (why, table), loc=f.loc())
    site = UU + '::recursively_save_dict_contents_to_output'
    with R.guard('4.recurse', 'TAB', site, 'recursion'):
        f = ix.func(site)
        from sa.helpers import need
        ps = f.params()
        need(R, '4.recurse', 'TAB', site, 'every (key, item) of the dictionary is stored under its own key; an unsupported type is an error', f,
             ['''
for V_k, V_i in V_d.items():
    try:
        store_thing(V_o, V_k, V_i)
    except TypeError:
        raise ValueError(V_msg)
'''], binding={'V_o': ps[0], 'V_d': ps[1]})
    # HDF5 group implements every abstract write method
    base = ix.cls(OO + '::OutputGroup')
    impl = ix.cls(OH + '::HDF5OutputGroup')
    abstract = [n for n, lst in base.methods.items() if n.startswith('write_') and
                any(isinstance(x, ast.Raise) for x in ast.walk(lst[0].node))]
    miss = [n for n in abstract if n not in impl.methods]
    R.check('4.group', 'TAB', impl.site, 'HDF5OutputGroup implements every abstract write method (%s)' % sorted(abstract),
            not miss and len(abstract) >= 4 and 'create_group' in impl.methods, key=str(miss), detail='missing %s' % miss)
    for nm in ('write_array', 'write_scalar', 'write_string'):
        site = OH + '::HDF5OutputGroup.' + nm
        with R.guard('4.h5', 'ARG', site, 'dataset'):
            f = ix.func(site)
            ps = f.params()
            cds = [n for n in ast.walk(f.node) if isinstance(n, ast.Call) and isinstance(n.func, ast.Attribute)
                   and n.func.attr == 'create_dataset' and unparse(n.func.value) == 'self._entry']
            # a value that cannot be stored is an ERROR of the write (store_thing relies on the TypeError to fall back to
            # element-wise storage of lists of dictionaries; the dictionary writer turns it into "unsupported type"):
            # the dataset creation may not sit in a `try` whose handler lets the method carry on
            # (handlers that only re-raise the class they caught are no handlers: sa/normalise.py)
            swallowed = []
            for t_ in ast.walk(f.node):
                if isinstance(t_, ast.Try) and any(c_ in list(ast.walk(ast.Module(body=t_.body, type_ignores=[]))) for c_ in cds):
                    for h_ in t_.handlers:
                        if not (h_.body and isinstance(h_.body[-1], ast.Raise)):
                            swallowed.append('except %s' % (unparse(h_.type) if h_.type is not None else ''))
            R.check('4.h5.raise', 'EXC', site, '%s lets a failed dataset creation propagate to its caller' % nm,
                    not swallowed, key='; '.join(swallowed),
                    detail='create_dataset sits in a try whose handler (%s) does not re-raise: the value is silently not '
                           'written and the callers never learn of it' % '; '.join(swallowed), loc=f.loc())
            ok = False
            why = ''
            # the value written is the value given: the parameter itself, never re-bound on the way (a conversion such
            # as np.ascontiguousarray / np.atleast_1d changes the stored shape of 0-d arrays)
            stores = {}
            for n in ast.walk(f.node):
                if isinstance(n, ast.Name) and isinstance(n.ctx, ast.Store):
                    stores.setdefault(n.id, 0)
                    stores[n.id] += 1
            assigns = {n.targets[0].id: n.value for n in ast.walk(f.node) if isinstance(n, ast.Assign) and
                       len(n.targets) == 1 and isinstance(n.targets[0], ast.Name)}

            def resolve(x, depth=0):
                while isinstance(x, ast.Name) and x.id not in ps and stores.get(x.id) == 1 and x.id in assigns and depth < 5:
                    x = assigns[x.id]
                    depth += 1
                return x
            for c in cds:
                data = [k.value for k in c.keywords if k.arg == 'data']
                name = resolve(c.args[0]) if c.args else None
                if name is not None and unparse(name) in ('str(%s)' % ps[1], ps[1]) and data and \
                        unparse(resolve(data[0])) == ps[2]:
                    ok = True
                    for k in c.keywords:
                        if k.arg in ('shape', 'dtype') and unparse(resolve(k.value)) != '%s.%s' % (ps[2], k.arg):
                            ok = False
                            why = '%s=%s' % (k.arg, unparse(k.value))
            # np.asarray / np.asanyarray return an ndarray argument itself: re-binding through them converts nothing
            ident = sum(1 for n in ast.walk(f.node) if isinstance(n, ast.Assign) and len(n.targets) == 1 and
                        isinstance(n.targets[0], ast.Name) and n.targets[0].id == ps[2] and
                        isinstance(n.value, ast.Call) and unparse(n.value.func).split('.')[-1] in ('asarray', 'asanyarray')
                        and len(n.value.args) == 1 and not n.value.keywords and unparse(n.value.args[0]) == ps[2])
            if stores.get(ps[2], 0) - ident or stores.get(ps[1]):
                ok = False
                why = 'the parameter is re-bound before it is written'
            R.check('4.h5', 'ARG', site, '%s stores the given value, unconverted, under the given name' % nm, ok,
                    key=nm + ' ' + why, detail='create_dataset call differs %s' % why, loc=f.loc())


def write_type_dispatch(ix, R):
    """A write() that stores a constructor keyword only inside a chain of type tests must not leave numpy arrays out:
    a component rebuilt from a file holds every sequence as the ndarray h5py returned, so `isinstance(v, (list, tuple))`
    with no `else` silently drops the key on the second save.  (Catch-alls such as hasattr(v, '__len__'), an `else`, or
    np.ndarray among the tested types are fine.)"""
    n = 0
    for c in ix.all_classes():
        for f in c.methods.get('write', []):
            for node in walk_no_nested(f.node):
                if not isinstance(node, ast.If):
                    continue
                # head of a chain only
                par_else = [p for p in walk_no_nested(f.node) if isinstance(p, ast.If) and p.orelse == [node]]
                if par_else:
                    continue
                chain, cur = [], node
                while True:
                    chain.append(cur)
                    if len(cur.orelse) == 1 and isinstance(cur.orelse[0], ast.If):
                        cur = cur.orelse[0]
                        continue
                    break
                has_else = bool(chain[-1].orelse)
                tests = [x.test for x in chain]
                if not all(isinstance(t, ast.Call) and unparse(t.func) in ('isinstance', 'hasattr') for t in tests):
                    continue
                writes = [w for x in chain for b in x.body for w in ast.walk(b) if isinstance(w, ast.Call) and
                          isinstance(w.func, ast.Attribute) and w.func.attr in WRITERS and w.args and
                          isinstance(w.args[0], ast.Constant)]
                if not writes:
                    continue
                n += 1
                site = f.site + '{' + str(writes[0].args[0].value) + '}'
                stmt = 'a key written under a chain of type tests is written for numpy arrays too (what a reloaded component holds)'
                catch_all = has_else or any(unparse(t.func) == 'hasattr' and len(t.args) == 2 and
                                            unparse(t.args[1]) in ("'__len__'", "'__iter__'", "'shape'") for t in tests)
                seq = [t for t in tests if unparse(t.func) == 'isinstance' and len(t.args) == 2 and
                       any(nm in unparse(t.args[1]) for nm in ('list', 'tuple'))]
                nd = any('ndarray' in unparse(t.args[1]) for t in tests if unparse(t.func) == 'isinstance' and len(t.args) == 2)
                if seq and not catch_all and not nd:
                    R.fail('1.write.types', 'TAB', site, stmt, 'sequence test %s has no ndarray / else' % unparse(seq[0]),
                           '%s writes %r only when `%s` (or an earlier test) holds and has no else: a component rebuilt from a '
                           'file holds the value as a numpy array, for which none of the tests is true, so the key is missing '
                           'from the next file and the reload falls back to the constructor default' % (
                               f.qualname, writes[0].args[0].value, unparse(seq[0])), f.loc(node))
                else:
                    R.ok('1.write.types', 'TAB', site, stmt, loc=f.loc(node))
    if n < 1:
        # none left is a legitimate state (the dispatch may have been replaced by an unconditional write, which 1.write sees)
        R.note('1.write.types: no write() dispatches on the type of a value any more (one did in the reviewed tree)')


def run(ix, R):
    with R.guard('1', 'TAB', 'taurex', 'writer/reader tables'):
        writer_reader(ix, R)
    with R.guard('1.write.types', 'TAB', 'taurex', 'type dispatch in write()'):
        write_type_dispatch(ix, R)
    api_obligations(ix, R, '2.api', [UH + '::get_klass_args', UH + '::load_generic_profile_from_hdf5',
                                     UH + '::load_model_from_hdf5', UH + '::load_chemistry_from_hdf5',
                                     UU + '::store_thing'], 'output / reload path')
    spectrum_dicts(ix, R)
    dispatch(ix, R)


MUTANTS = [
    ('drop-key', 'taurex/data/profiles/temperature/isothermal.py', "        temperature.write_scalar('T', self._iso_temp)\n", "", '1.write'),
    ('rename-key', 'taurex/contributions/simpleclouds.py', "contrib.write_scalar('clouds_pressure', self._cloud_pressure)", "contrib.write_scalar('cloud_pressure', self._cloud_pressure)", '1.write'),
    ('wrong-attr', 'taurex/contributions/leemie.py', "contrib.write_scalar('lee_mie_q', self._mie_q)", "contrib.write_scalar('lee_mie_q', self._mie_radius)", '1.write'),
    ('unit-factor', 'taurex/data/planet.py', "planet.write_scalar('planet_radius', self._radius / RJUP)", "planet.write_scalar('planet_radius', self._radius)", '1.planet'),
    ('star-unit-factor', 'taurex/data/stellar/star.py', "star.write_scalar('radius', self._radius / RSOL)", "star.write_scalar('radius', self._radius)", '1.write'),
    ('regress-tint', 'taurex/data/profiles/temperature/guillot.py', "        temperature.write_scalar('T_int', self.T_int)\n", "", '1.write'),
    ('type-key', 'taurex/data/profiles/temperature/tprofile.py', "temperature.write_string('temperature_type', self.__class__.__name__)", "temperature.write_string('temperature_type', 'Isothermal')", '1.type'),
    ('loader-drop', UH, "    kwargs['star'] = star\n", "", '1.loader.model'),
    ('regress-f2', UH, 'inspect.getfullargspec(klass.__init__)[:4]', 'inspect.getargspec(klass.__init__)', '2.api'),
    ('regress-f12', FB, "output['binned_wlwidth'] = wnwidth_to_wlwidth(self._wngrid, self._wngrid_width)", "output['binned_wlwidth'] = 1.0 / self._wngrid_width", '3.binned'),
    ('wlgrid', BB, "output['native_wlgrid'] = 10000 / wngrid", "output['native_wlgrid'] = 1000 / wngrid", '3.base'),
    ('binned-index', BB, "output['binned_spectrum'] = self.bindown(wngrid, flux)[1]", "output['binned_spectrum'] = self.bindown(wngrid, flux)[0]", '3.base'),
    ('tau-size', BB, 'if output_size > OutputSize.lighter:', 'if output_size > OutputSize.heavy:', '3.base.size'),
    ('native-tau-size', NB, 'if output_size > OutputSize.light:', 'if output_size >= OutputSize.lighter:', '3.native'),
    ('dispatch-str', UU, "    elif isinstance(item, (str,)):\n        output.write_string(key, item)\n", "", '4.dispatch'),
    ('dispatch-key', UU, "        output.write_array(key, item)\n    elif isinstance(item, (str,)):", "        output.write_array(str(item.shape), item)\n    elif isinstance(item, (str,)):", '4.dispatch'),
    ('group-missing', OH, "    @only_master_rank\n    def write_string(self, string_name, string, metadata=None):", "    @only_master_rank\n    def write_str(self, string_name, string, metadata=None):", '4.group'),
]
EQUIVALENTS = [
    ('loader-rename', UH, r're:\bklass_kwargs\b', 'ctor_keys'),
    ('loader-rename2', UH, r're:\bargs_dict\b', 'given'),
    ('store-rename', UU, r're:\bitem\b', 'thing'),
    ('wlgrid-form', BB, "output['native_wlgrid'] = 10000 / wngrid", "output['native_wlgrid'] = 1.0 / (wngrid / 10000.0)"),
]
