"""C20 Correlated-k reduces to cross-sections when the k-distribution is
degenerate."""
import ast

from sa.helpers import validated
from sa.helpers import (the_return, mkflow, spec, code, one, calls, bind_call, param_env,
                        loop_matches, fmt, atom_of, unparse, unalloc, call_kw)
from sa.index import AnalysisError
from sa.algebra import RF
from rules.C01 import arg_roles, CONTRIB_PARAMS
from rules import C02

FLOOR = 16
FILES = ['taurex/contributions/absorption.py', 'taurex/model/emission.py',
         'taurex/model/simplemodel.py', 'taurex/data/profiles/chemistry/chemistry.py']
EXPLANATION = (
    'Static rule conformance for the correlated-k path: the k-distribution '
    'kernel is -log(sum_g w_g exp(-sum_k sigma rho dl)) with the same integrand '
    'and index forms as the cross-section kernel, its emission sibling has the '
    'same inner nest, the callers pass matching roles, the emission k-table '
    'routine agrees with the cross-section routine (layer ranges, dz, Planck '
    'index), and every read of the opacity_method switch compares with the '
    'same literal and selects the matching cache.')
ASSUMPTIONS = ['numpy/numba semantics', 'quadrature weights sum to one (data)',
               'receiver families of sa/canon.py']
NOT_DECIDED = ['degenerate equality and [0,1] / Jensen bounds as numbers '
               '(mathematical consequences of the kernel form when sum w = 1)',
               'k-table file contents']

A = 'taurex/contributions/absorption.py'
E = 'taurex/model/emission.py'
KT_PARAMS = ['startK', 'endK', 'density_offset', 'sigma', 'density', 'path',
             'weights', 'tau', 'ngrid', 'layer', 'ngauss']
INTEGRAND = 'sigma[k+layer, wn, g]*path[k]*density[k+density_offset]'


def inner_nest(ix, R, pfx, site, params):
    """tau_temp[wn,g] += integrand over k,wn,g; returns (fl, env, tau_temp)"""
    f = ix.func(site)
    fl = mkflow(ix, site)
    env = param_env(fl, f, params)
    stores = [e for e in fl.of('store') if e.op == 'Add' and len(e.loops) == 3]
    st = one(stores, 'accumulation into the per-g optical depth')
    env2 = dict(env, k=st.loops[0].index, wn=st.loops[1].index, g=st.loops[2].index)
    tt = atom_of(fl, st.target)
    if tt is None or tt.head != 'idx':
        raise AnalysisError('unexpected accumulation target')
    buf = tt.args[0]
    why = []
    if not fl.tab.equal(st.target, spec(fl, 'B[wn, g]', dict(env2, B=buf))):
        why.append('target %s' % fmt(fl, st.target))
    want = spec(fl, INTEGRAND, env2)
    if not fl.tab.equal(st.value, want):
        why.append('integrand %s, expected %s' % (fmt(fl, st.value), fmt(fl, want)))
    for lp, (lo, hi) in zip(st.loops, (('startK', 'endK'), ('0', 'ngrid'), ('0', 'ngauss'))):
        if not loop_matches(fl, lp, lo, hi, env2):
            why.append('loop %s' % unparse(lp.iter_ast))
    al = atom_of(fl, buf)
    z = atom_of(fl, unalloc(fl, buf))
    if al is None or al.head != 'alloc' or z is None or z.extra[0] != 'fn:zeros' or \
            not fl.tab.equal(call_kw(z, 'shape', 0), spec(fl, '(ngrid, ngauss)', env2)):
        why.append('per-g buffer is %s' % fmt(fl, buf))
    if st.guards:
        why.append('accumulation is conditional on %s' % [g.text() for g in st.guards])
    others = [e for e in fl.of('store') if e is not st and atom_of(fl, e.target) is not None
              and atom_of(fl, e.target).head == 'idx' and fl.tab.equal(atom_of(fl, e.target).args[0], buf)]
    if others:
        why.append('other writes to the per-g buffer: %s' % [unparse(e.node) for e in others])
    R.check(pfx + '.inner', 'ALG', site,
            'per-quadrature-point depth: tau_g[wn,g] += %s over k in [startK,endK)' % INTEGRAND,
            not why, key='; '.join(why), detail='; '.join(why), loc=f.loc(st.node),
            extracted=fmt(fl, st.value))
    return f, fl, env, buf


def run(ix, R):
    site = A + '::contribute_ktau'
    with R.guard('1', 'ALG', site, 'k-distribution kernel'):
        f, fl, env, buf = inner_nest(ix, R, '1', site, KT_PARAMS)
        # transmittance sum
        augs = [e for e in fl.of('aug') if len(e.loops) == 2 and e.op == 'Add']
        au = one(augs, 'weighted transmittance accumulation')
        env2 = dict(env, wn=au.loops[0].index, g=au.loops[1].index, B=buf)
        why = []
        want = spec(fl, 'exp(-B[wn, g])*weights[g]', env2)
        if not fl.tab.equal(au.value, want):
            why.append('adds %s, expected %s' % (fmt(fl, au.value), fmt(fl, want)))
        if not (loop_matches(fl, au.loops[0], '0', 'ngrid', env2) and
                loop_matches(fl, au.loops[1], '0', 'ngauss', env2)):
            why.append('loops %s' % [unparse(l.iter_ast) for l in au.loops])
        init = [e for e in fl.of('assign') if e.name == au.name and e.op is None]
        if len(init) != 1 or init[0].loops != (au.loops[0],) or init[0].value.const() != 0 or init[0].guards:
            why.append('accumulator is not zeroed once per wavenumber')
        R.check('1.trans', 'ALG', site,
                'transmittance = sum_g w_g exp(-tau_g), accumulator zeroed per wavenumber',
                not why, key='; '.join(why), detail='; '.join(why), loc=f.loc(au.node),
                extracted=fmt(fl, au.value))
        # final store
        tau = env['tau']
        sts = [e for e in fl.of('store') if atom_of(fl, e.target) is not None and
               atom_of(fl, e.target).head == 'idx' and
               fl.tab.equal(atom_of(fl, e.target).args[0], tau)]
        why = []
        bad = [e for e in sts if e.op != 'Add']
        rebinds = [e for e in fl.of('assign') + fl.of('aug') if fl.tab.equal(fl.tab.name(e.name), tau)]
        R.check('1.acc', 'ACC', site, 'tau is written only by +=', sts and not bad and not rebinds,
                key='; '.join(unparse(e.node) for e in bad + rebinds) or 'no store',
                detail='non-accumulating writes %s' % [unparse(e.node) for e in bad + rebinds],
                loc=f.loc((bad + rebinds)[0].node) if bad + rebinds else f.loc())
        st = one(sts, 'store into tau')
        phis = [a for a in st.value.all_atoms() if fl.tab.atoms[a].head == 'phi'
                and fl.tab.atoms[a].args[0] == au.name]
        ok = (len(st.loops) == 1 and st.loops[0] is au.loops[0] and not st.guards and not au.guards and
              fl.tab.equal(st.target, spec(fl, 'tau[layer, wn]', dict(env, wn=st.loops[0].index))) and
              len(phis) == 1)
        if ok:
            from sa.algebra import p_atom
            ph = RF(fl.tab, p_atom(phis[0]))
            ok = fl.tab.equal(st.value, -fl.tab.log('log', ph))
        R.check('1.log', 'ALG', site, 'tau[layer, wn] += -log(transmittance) unconditionally, once per wavenumber (an underflowed transmittance must give infinite, not zero, optical depth)',
                ok, key='%s' % unparse(st.node), detail='final store is %s = %s' % (
                    unparse(st.node), fmt(fl, st.value)), loc=f.loc(st.node))
    # ---- 2. siblings
    site2 = E + '::contribute_ktau_emission'
    with R.guard('2', 'SIB', site2, 'emission k kernel'):
        f2, fl2, env2, buf2 = inner_nest(ix, R, '2', site2, C02.KE_PARAMS)
        r = the_return(fl2)
        R.check('2.ret', 'SIB', site2, 'returns the per-g optical depth buffer',
                fl2.tab.equal(r.value, buf2), key='returns %s' % fmt(fl2, r.value),
                detail='returns %s' % fmt(fl2, r.value), loc=f2.loc(r.node))
    # the cross-section kernel has the same integrand (C01.1) - re-checked here
    from rules.C01 import kernel_obligations, KERNEL_PARAMS, K
    kernel_obligations(ix, R, '2.xsec', K + '::contribute_tau', KERNEL_PARAMS,
                       'sigma[k+layer, wn]*path[k]*density[k+density_offset]',
                       'cross-section sibling: same integrand without the g index')
    # caller of contribute_ktau
    site = A + '::AbsorptionContribution.contribute'
    stmt = 'k-table branch passes matching roles to contribute_ktau'
    with R.guard('2.call', 'ARG', site, stmt):
        f = ix.func(site)
        fl = mkflow(ix, site)
        b = param_env(fl, f, CONTRIB_PARAMS[1:])
        ev = one(calls(fl, 'contribute_ktau'), 'contribute_ktau call')
        g = ev.guards
        R.check('2.call.branch', 'GUARD', site, 'k kernel is used exactly when k-tables are on',
                len(g) == 1 and g[0].positive and fl.tab.equal(g[0].rf, code(fl, 'self._use_ktables')),
                key='guard %s' % [x.text() for x in g], detail='guard %s' % [x.text() for x in g],
                loc=f.loc(ev.node))
        arg_roles(R, '2.call', site, stmt, fl, ev, ix.func(A + '::contribute_ktau').params(),
                  {'startK': 'start_layer', 'endK': 'end_layer', 'density_offset': 'density_offset',
                   'sigma': 'self.sigma_xsec', 'density': 'density', 'path': 'path_length',
                   'weights': 'self.weights', 'tau': 'tau', 'ngrid': 'self._ngrid',
                   'layer': 'layer', 'ngauss': 'self.weights.shape[0]'}, f, b)
    # ---- 3. emission pair
    site = E + '::EmissionModel.evaluate_emission_ktables'
    with R.guard('3', 'SIB', site, 'k-table emission agrees with cross-section emission'):
        kt = C02.emission_core(ix, R, '3', site, ktab=True)
        if kt:
            C02.ktable_terms(ix, R, kt, '3')
    # both modes fill the per-gas opacity through the same weighting statement (C03.2.abs)
    from rules.C03 import absorption_weighting
    absorption_weighting(ix, R)
    # ---- 4. mode switch
    switch_obligations(ix, R)
    # a degenerate k-table only reproduces the cross-sections if both are interpolated in the same mode:
    # a mode change must reach the k-table cache completely
    from rules.common import cache_state_cleared
    cache_state_cleared(ix, R, '4.clear.state')


def switch_obligations(ix, R):
    sites = []
    for f in ix.all_functions():
        if f.module.relpath.startswith('taurex/plot'):
            continue
        for n in ast.walk(f.node):
            if isinstance(n, ast.Subscript) and isinstance(n.slice, ast.Constant) \
                    and n.slice.value == 'opacity_method' and isinstance(n.ctx, ast.Load):
                sites.append((f, n))
    seen_f = set()
    for f, n in sites:
        if f.site in seen_f:
            continue
        seen_f.add(f.site)
        _switch_site(ix, R, f, n)
    if len(sites) < 4:
        R.error('4.sites', 'DOM', 'taurex', 'at least the four confirmed reads of opacity_method exist',
                'only %d reads found' % len(sites))
    # absorption: _use_ktables drives both cache choice and kernel choice
    site = A + '::AbsorptionContribution.prepare_each'
    with R.guard('4.abs', 'DOM', site, 'absorption cache selection'):
        f = ix.func(site)
        fl = mkflow(ix, site)
        st = [e for e in fl.of('store') if fmt(fl, e.target) == 'self._opacity_cache']
        why = []
        sel = []            # (polarity of _use_ktables, value stored)
        use = code(fl, 'self._use_ktables')
        for e in st:
            va = atom_of(fl, e.value)
            gs = [x for x in e.guards if not validated(x)]
            if va is not None and va.head == 'guard' and fl.tab.equal(va.args[0], use) and not gs:
                sel += [(True, va.args[1]), (False, va.args[2])]      # K() if use else O()
            elif len(gs) == 1 and gs[0].rf is not None and fl.tab.equal(gs[0].rf, use):
                sel.append((gs[0].positive, e.value))
            else:
                why.append('%s is under %s' % (unparse(e.node), [x.text() for x in gs]))
            if e.loops:
                why.append('%s is inside a loop' % unparse(e.node))
        for pol, v in sel:
            isk = 'KTableCache' in fmt(fl, v)
            iso = 'OpacityCache' in fmt(fl, v)
            if (pol and not (isk and not iso)) or (not pol and not (iso and not isk)):
                why.append('%s selected when _use_ktables is %s' % (fmt(fl, v), pol))
        if sorted(p_ for p_, _ in sel) != [False, True]:
            why.append('cache selected for _use_ktables in %s' % sorted(p_ for p_, _ in sel))
        uk = [e for e in fl.of('store') if fmt(fl, e.target) == 'self._use_ktables']
        if len(uk) != 1 or not fl.tab.equal(uk[0].value, spec(fl, "GlobalCache()['opacity_method'] == 'ktables'")) \
                or uk[0].guards or uk[0].loops or (st and fl.events.index(uk[0]) > fl.events.index(st[0])):
            why.append('_use_ktables = %s' % [fmt(fl, e.value) for e in uk])
        # quadrature weights: reset on every call, then taken from the first k-table of this call
        ws = [e for e in fl.of('store') if fmt(fl, e.target) == 'self.weights']
        rs = [e for e in ws if not e.loops]
        tk = [e for e in ws if e.loops]
        if len(rs) != 1 or rs[0].guards or fmt(fl, rs[0].value) != 'None':
            why.append('self.weights is not reset to None at the start of every call')
        if len(tk) != 1:
            why.append('%d stores of self.weights inside the gas loop' % len(tk))
        else:
            t = tk[0]
            gl = t.loops[0]
            gas = fl.tab.atom('elem', (gl.iter_rf[0], gl.index))
            wantv = spec(fl, 'self._opacity_cache[gas].weights', {'gas': gas})
            if not fl.tab.equal(t.value, wantv):
                why.append('self.weights = %s' % fmt(fl, t.value))
            if len(t.guards) != 1 or not t.guards[0].positive or not fl.tab.equal(
                    t.guards[0].rf, spec(fl, '_and(self._use_ktables, self.weights is None)')):
                why.append('self.weights is taken under %s' % [x.text() for x in t.guards])
        R.check('4.abs', 'DOM', site, 'prepare_each sets _use_ktables from the switch first, picks KTableCache iff it is set, resets the quadrature weights and takes them from the first k-table of the call',
                bool(st) and not why, key='; '.join(why) or 'stores %d' % len(st),
                detail='; '.join(why), loc=f.loc())


def _event_rfs(e):
    from sa.algebra import RF as _RF
    for k in ('value', 'test', 'target'):
        v = getattr(e, k, None)
        if isinstance(v, _RF):
            yield v
    for v in list(getattr(e, 'args', None) or []) + list((getattr(e, 'kw', None) or {}).values()):
        if isinstance(v, _RF):
            yield v
    v = getattr(e, 'recv_rf', None)
    if isinstance(v, _RF):
        yield v
    for g in e.guards:
        if isinstance(g.rf, _RF):
            yield g.rf


def _switch_site(ix, R, f, n):
    """one function that reads the opacity_method switch: the value read is only ever compared == 'ktables', and
    the k-table cache is used exactly where that comparison holds.  Decided on the flow (forward substitution of
    locals and of `self._use_ktables`), so hoisting the test into a variable, negating the `if` or swapping its arms
    changes nothing."""
    from sa.algebra import RF as _RF, _rfs_in
    fl = mkflow(ix, f, forward_attrs=True)
    tab = fl.tab
    read = spec(fl, "GlobalCache()['opacity_method']")
    ra = read.single_atom()
    want = spec(fl, "GlobalCache()['opacity_method'] == 'ktables'")
    wa = want.single_atom()
    atoms = set()
    for e in fl.events:
        for rf in _event_rfs(e):
            atoms |= rf.all_atoms()
    users = []
    for a in atoms:
        at = tab.atoms[a]
        for arg in at.args:
            for r in _rfs_in(arg):
                if ra in r.atoms() and a != wa:
                    users.append(tab.fmt_atom(a)[:80])
    R.check('4.read', 'DOM', f.site,
            "opacity_method is read from GlobalCache() and only ever compared == 'ktables'",
            ra in atoms and not users, key='%s' % sorted(set(users)), detail='used as %s' % sorted(set(users)),
            loc=f.loc(n))

    def mentions(rf, fn):
        return any(tab.atoms[a].head in ('call', 'mcall') and tab.atoms[a].extra and tab.atoms[a].extra[0] == fn
                   for a in rf.all_atoms())
    why = []
    nsel = 0
    for e in fl.events:
        if e.kind in ('if', 'loop', 'def'):
            continue
        pol = None
        for g in e.guards:
            if g.rf is not None and tab.equal(g.rf, want):
                pol = g.positive
        vals = [rf for k in ('value',) for rf in [getattr(e, k, None)] if isinstance(rf, _RF)]
        vals += [v for v in (getattr(e, 'args', None) or []) if isinstance(v, _RF)]
        if isinstance(getattr(e, 'recv_rf', None), _RF):
            vals.append(e.recv_rf)
        for rf in vals:
            # merged selections guard(c, A, B): the k-table cache may only sit in the true arm of the switch
            inner = set()
            for a in rf.all_atoms():
                at = tab.atoms[a]
                if at.head == 'guard' and isinstance(at.args[0], _RF) and tab.equal(at.args[0], want):
                    nsel += 1
                    if mentions(at.args[2], 'fn:KTableCache'):
                        why.append('KTableCache() selected when opacity_method is not ktables: %s' % unparse(e.node)[:70])
                    if mentions(at.args[1], 'fn:OpacityCache') and not mentions(at.args[1], 'fn:KTableCache'):
                        why.append('OpacityCache() selected when opacity_method is ktables: %s' % unparse(e.node)[:70])
                    for x in at.args[1:]:
                        inner |= x.all_atoms()
            rest = [a for a in rf.all_atoms() if a not in inner]

            def m(fn):
                return any(tab.atoms[a].head in ('call', 'mcall') and tab.atoms[a].extra and
                           tab.atoms[a].extra[0] == fn for a in rest)
            if m('fn:KTableCache'):
                nsel += 1
                if pol is not True:
                    why.append('KTableCache() used %s: %s' % (
                        'when opacity_method is not ktables' if pol is False else 'regardless of opacity_method',
                        unparse(e.node)[:70]))
            if m('fn:OpacityCache') and pol is True:
                why.append('OpacityCache() used in the ktables branch: %s' % unparse(e.node)[:70])
    if nsel:
        R.check('4.select', 'DOM', f.site,
                'the k-table cache is used exactly where opacity_method == ktables holds, the cross-section cache otherwise',
                not why, key='; '.join(sorted(set(why)))[:300], detail='; '.join(sorted(set(why))), loc=f.loc(n))


MUTANTS = [
    ('seed-C20A-log-guard', A, '        tau[layer, wn] += -math.log(transtemp)', '        if transtemp > 0.0:\n            tau[layer, wn] += -math.log(transtemp)', '1.log'),
    ('k-drop-weights', A, 'transtemp += math.exp(-tau_temp[wn, g]) * weights[g]', 'transtemp += math.exp(-tau_temp[wn, g])', '1.trans'),
    ('k-sign', A, 'transtemp += math.exp(-tau_temp[wn, g]) * weights[g]', 'transtemp += math.exp(tau_temp[wn, g]) * weights[g]', '1.trans'),
    ('k-nolog', A, 'tau[layer, wn] += -math.log(transtemp)', 'tau[layer, wn] += 1 - transtemp', '1.log'),
    ('k-assign', A, 'tau[layer, wn] += -math.log(transtemp)', 'tau[layer, wn] = -math.log(transtemp)', '1.acc'),
    ('k-reset-hoist', A, "    for wn in range(ngrid):\n        transtemp = 0.0\n", "    transtemp = 0.0\n    for wn in range(ngrid):\n", '1.trans'),
    ('k-layer-offset', A, 'tau_temp[wn, g] += sigma[k + layer, wn, g] * _path * _density', 'tau_temp[wn, g] += sigma[k, wn, g] * _path * _density', '1.inner'),
    ('k-density', A, 'tau_temp[wn, g] += sigma[k + layer, wn, g] * _path * _density', 'tau_temp[wn, g] += sigma[k + layer, wn, g] * _path * _density * _density', '1.inner'),
    ('ke-layer-offset', E, 'tau_temp[wn, g] += sigma[k + layer, wn, g] * _path * _density', 'tau_temp[wn, g] += sigma[k + layer, wn, 0] * _path * _density', '2.inner'),
    ('call-ngauss', A, 'self._ngrid, layer, self.weights.shape[0])', 'self._ngrid, layer, self.weights.shape[0] - 1)', '2.call'),
    ('call-branch', A, "        if self._use_ktables:\n            contribute_ktau(", "        if not self._use_ktables:\n            contribute_ktau(", '2.call.branch'),
    ('switch-literal', 'taurex/data/profiles/chemistry/chemistry.py', "if GlobalCache()['opacity_method'] == 'ktables':", "if GlobalCache()['opacity_method'] == 'ktable':", '4.read'),
    ('switch-select', 'taurex/model/simplemodel.py', "            cacher = KTableCache()", "            cacher = OpacityCache()", '4.select'),
    ('abs-select', A, "        if self._use_ktables:\n            self._opacity_cache = KTableCache()\n        else:\n            self._opacity_cache = OpacityCache()", "        if self._use_ktables:\n            self._opacity_cache = OpacityCache()\n        else:\n            self._opacity_cache = KTableCache()", '4.abs'),
    ('em-kL-range', E, 'k_layer = contribute_ktau_emission(layer + 1, total_layers, 0, sigma', 'k_layer = contribute_ktau_emission(layer, total_layers, 0, sigma', '3.kL'),
]
EQUIVALENTS = [
    ('k-commute', A, 'transtemp += math.exp(-tau_temp[wn, g]) * weights[g]', 'transtemp += weights[g] * np.exp(-1.0 * tau_temp[wn, g])'),
    ('k-log-minus', A, 'tau[layer, wn] += -math.log(transtemp)', 'tau[layer, wn] -= math.log(transtemp)'),
    ('k-log-inv', A, 'tau[layer, wn] += -math.log(transtemp)', 'tau[layer, wn] += math.log(1.0 / transtemp)'),
]
# statements that implement an unconditional part of the documented behaviour: wrapped in an `if`
# (so that they may be skipped) each must be reported - generated and checked by the thorough tier
UNCONDITIONAL = [
    ('taurex/contributions/absorption.py', 'tau_temp[wn, g] += sigma[k + layer, wn, g]'),
    ('taurex/contributions/absorption.py', 'transtemp += math.exp('),
    ('taurex/contributions/absorption.py', 'tau[layer, wn] += -math.log(transtemp)'),
    ('taurex/contributions/absorption.py', 'transtemp = 0.0'),
    ('taurex/contributions/absorption.py', "self._use_ktables = GlobalCache()['opacity_method'] == 'ktables'"),
    ('taurex/contributions/absorption.py', 'self.weights = xsec.weights'),
    ('taurex/model/emission.py', 'tau_temp[wn, g] += sigma[k + layer, wn, g]'),
]
