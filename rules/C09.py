"""C09 Posterior summaries are the weighted statistics of the stored samples."""
import ast

from sa.helpers import (guard_is, same_cond, validated, unlicensed, mkflow, spec, code, one, calls, bind_call, param_env,
                        fmt, atom_of, unparse, walk_no_nested, dict_items)
from sa.index import AnalysisError
from sa.algebra import RF, Slice

FLOOR = 24
OP = 'taurex/optimizer/optimizer.py'
NE = 'taurex/optimizer/nestle.py'
MN = 'taurex/optimizer/multinest.py'
PC = 'taurex/optimizer/polychord.py'
UU = 'taurex/util/util.py'
FILES = [OP, NE, MN, PC, UU]
EXPLANATION = (
    'Static rule conformance for posterior summaries: at each of the four sites '
    'that build a summary, value / sigma_m / sigma_p are q50, q50-q16, q84-q50 of '
    'quantile_corner(trace, [0.16, 0.5, 0.84], weights=W) where trace is column '
    'idx of the stored sample array and W the weight array stored beside it; '
    'quantile_corner is the sorted-cumulative-weight interpolation; nestle MAP is '
    'the sample of greatest weight and the stored samples/weights are the '
    "sampler's arrays unchanged; get_solution yields (id, MAP list, median list, "
    'extras) from two distinct lists; generate_solution evaluates spectra after '
    'update_model(MAP) and profiles after update_model(median); derived traces '
    'append once per processed sample.')
ASSUMPTIONS = ['MultiNest / PolyChord "maximum a posterior" statistics come from the sampler (library)',
               'numpy argsort / interp / add.accumulate semantics']
NOT_DECIDED = ['sampler-reported MAP for MultiNest/PolyChord', 'tie order in compute_derived_trace re-ordering (N5)']


def is_q(fl, rf):
    at = atom_of(fl, rf)
    # the three levels as a literal, or as a literal list kept in a local / converted to an array
    while at is not None and at.head in ('call', 'list') and len(at.args) == 1 and isinstance(at.args[0], RF) and \
            (at.head == 'list' or (at.extra and at.extra[0] in ('fn:list', 'fn:tuple', 'fn:array', 'fn:asarray'))):
        at = atom_of(fl, at.args[0])
    if at is None or at.head != 'tuple' or len(at.args) != 3:
        return False
    return [float(a.const()) if a.const() is not None else None for a in at.args] == [0.16, 0.5, 0.84]


def summary(R, oid, site, f, fl, entries, qev, trace, W, loc):
    """entries: {key: RF}; qev: the quantile_corner call event"""
    why = []
    from sa.helpers import call_atom
    q = call_atom(fl, 'quantile_corner', qev.args, qev.kw)
    if len(qev.args) < 2 or not fl.tab.equal(qev.args[0], trace):
        why.append('quantiles of %s, not of the stored trace' % (fmt(fl, qev.args[0]) if qev.args else None))
    if len(qev.args) < 2 or not is_q(fl, qev.args[1]):
        why.append('quantile levels %s' % (fmt(fl, qev.args[1]) if len(qev.args) > 1 else None))
    w = qev.kw.get('weights') if 'weights' in qev.kw else (qev.args[2] if len(qev.args) > 2 else None)
    if w is None or not fl.tab.equal(w, W):
        why.append('weights %s, not the stored weights %s' % (fmt(fl, w), fmt(fl, W)))
    qi = lambda k: fl.tab.atom('idx', (q, fl.tab.const(k)))
    want = {'value': qi(1), 'sigma_m': qi(1) - qi(0), 'sigma_p': qi(2) - qi(1)}
    for k, v in want.items():
        if k not in entries or not fl.tab.equal(entries[k], v):
            why.append('%s = %s' % (k, fmt(fl, entries.get(k))))
    if 'trace' in entries and not fl.tab.equal(entries['trace'], trace):
        why.append('stored trace is %s' % fmt(fl, entries['trace']))
    R.check(oid, 'ALG', site,
            'value = q50, sigma_m = q50 - q16, sigma_p = q84 - q50 of quantile_corner(trace, '
            '[0.16, 0.5, 0.84], weights = the stored weights); trace stored unchanged',
            not why, key='; '.join(why), detail='; '.join(why), loc=loc)


def nestle_store(ix, R):
    site = NE + '::NestleOptimizer.store_nestle_output'
    f = ix.func(site)
    fl = mkflow(ix, site)
    pe = param_env(fl, f, ['res'])
    samples = spec(fl, 'res.samples', pe)
    weights = spec(fl, 'res.weights', pe)
    qev = one(calls(fl, 'quantile_corner'), 'quantile_corner call')
    lp = one(qev.loops, 'parameter loop')
    i = lp.index
    ok = lp.kind == 'enumerate' and fl.tab.equal(lp.iter_rf[0], code(fl, 'self.fit_names'))
    R.check('1.nestle.loop', 'ARG', site, 'column index enumerates fit_names', ok,
            key=unparse(lp.iter_ast), detail='loop over %s' % fmt(fl, lp.iter_rf[0]), loc=f.loc(lp.node))
    trace = fl.tab.atom('idx', (samples, Slice(None, None, None), i))
    # the per-parameter summary, whether built by item stores or as a dictionary literal (possibly in a helper)
    from sa.helpers import dict_facts
    facts = dict_facts(fl)
    entries = {}
    for k_, vals in facts.items():
        for v_, e_, cont in vals:
            if lp in e_.loops:
                entries[k_] = v_ if not e_.guards and len(e_.loops) == 1 else fl.tab.atom('conditional', (v_,))
    summary(R, '1.nestle', site, f, fl, entries, qev, trace, weights, f.loc(qev.node))
    # 3. map / mean / aliases
    why = []
    mc = fl.tab.atom('call', (samples, weights), extra=('fn:nestle.mean_and_cov',))
    if 'map' not in entries or not fl.tab.equal(entries['map'], fl.tab.atom(
            'idx', (trace, spec(fl, 'argmax(w)', {'w': weights})))):
        why.append('map = %s' % fmt(fl, entries.get('map')))
    if 'mean' not in entries or not fl.tab.equal(entries['mean'], fl.tab.atom(
            'idx', (fl.tab.atom('idx', (mc, fl.tab.const(0))), i))):
        why.append('mean = %s' % fmt(fl, entries.get('mean')))
    R.check('3.nestle.map', 'ALG', site,
            'MAP = trace[argmax(weights)], mean = mean_and_cov(samples, weights)[0][idx]',
            not why, key='; '.join(why), detail='; '.join(why), loc=f.loc())
    why = []
    for k, v in (('samples', samples), ('weights', weights)):
        vals = [x for x in facts.get(k, []) if not x[1].loops]
        if len(vals) != 1 or not fl.tab.equal(vals[0][0], v) or vals[0][1].guards:
            why.append("['solution']['%s'] = %s" % (k, [fmt(fl, x[0]) for x in vals] or None))
    rr = fl.of('return')
    if len(rr) != 1 or rr[0].guards or rr[0].loops:
        why.append('the output dictionary is returned conditionally')
    R.check('3.nestle.alias', 'ARG', site, 'stored samples / weights are the sampler result arrays unchanged',
            not why, key='; '.join(why), detail='; '.join(why), loc=f.loc())
    # per-parameter dict stored under its name
    # the store whose key is the loop's parameter name (the container it goes into ends up under 'fitparams')
    pname = fl.tab.atom('elem', (lp.iter_rf[0], i))
    ps = [e for e in fl.of('store') if lp in e.loops and atom_of(fl, e.target) is not None and
          atom_of(fl, e.target).head == 'idx' and len(atom_of(fl, e.target).args) == 2 and
          isinstance(atom_of(fl, e.target).args[1], RF) and fl.tab.equal(atom_of(fl, e.target).args[1], pname)]
    okp = len(ps) == 1 and not ps[0].guards and len(ps[0].loops) == 1 and 'fitparams' in facts or \
        (len(ps) == 1 and not ps[0].guards and "['fitparams']" in unparse(ps[0].target_ast))
    R.check('1.nestle.key', 'ARG', site, 'summary of column idx is stored under fit_names[idx]', okp,
            key='store %s' % [unparse(e.node) for e in ps], detail='%s' % [unparse(e.node) for e in ps], loc=f.loc())


def nest_store(ix, R, tag, site, samples_name, weights_name):
    f = ix.func(site)
    fl = mkflow(ix, site)
    qev = one(calls(fl, 'quantile_corner'), 'quantile_corner call')
    if len(qev.loops) != 2:
        raise AnalysisError('quantile call is not inside (mode, parameter) loops')
    ml, pl = qev.loops
    i = pl.index
    R.check('1.%s.loop' % tag, 'ARG', site, 'column index enumerates fit_names',
            pl.kind == 'enumerate' and fl.tab.equal(pl.iter_rf[0], code(fl, 'self.fit_names')),
            key=unparse(pl.iter_ast), detail='loop over %s' % unparse(pl.iter_ast), loc=f.loc(pl.node))
    # the mode dictionary literal
    md = [e for e in fl.of('assign') if ml in e.loops and pl not in e.loops and
          dict_items(fl, e.value) is not None and 'tracedata' in dict_items(fl, e.value)]
    d = dict_items(fl, one(md, 'mode dictionary').value)
    S, W = d['tracedata'], d['weights']
    sa, wa = atom_of(fl, S), atom_of(fl, W)
    okk = sa is not None and sa.head == 'idx' and fl.tab.equal(sa.args[1], ml.index) and \
        wa is not None and wa.head == 'idx' and fl.tab.equal(wa.args[1], ml.index)
    R.check('1.%s.mode' % tag, 'ARG', site, 'samples and weights of one solution come from the same mode index',
            okk, key='tracedata %s weights %s' % (fmt(fl, S), fmt(fl, W)),
            detail='tracedata %s weights %s' % (fmt(fl, S), fmt(fl, W)), loc=f.loc())
    trace = fl.tab.atom('idx', (S, Slice(None, None, None), i))
    ps = [e for e in fl.of('store') if pl in e.loops]
    pst = one(ps, 'per-parameter store')
    entries = dict_items(fl, pst.value)
    if entries is None:
        raise AnalysisError('per-parameter summary is not a dict literal')
    summary(R, '1.%s' % tag, site, f, fl, entries, qev, trace, W, f.loc(qev.node))
    ta = atom_of(fl, pst.target)
    R.check('1.%s.key' % tag, 'ARG', site, 'summary of column idx is stored under fit_names[idx]',
            ta is not None and fl.tab.equal(ta.args[1], fl.tab.atom('elem', (pl.iter_rf[0], i))),
            key=unparse(pst.target_ast), detail=unparse(pst.target_ast), loc=f.loc(pst.node))
    # file layout of the sampler's sample files: weight in column 0, -2 log L in column 1, parameters from column 2
    from sa.helpers import need
    if tag == 'multinest':
        pats = ['V_ma = [V_data[:, 2:]]', 'V_cw = [V_data[:, 0]]', 'V_mw.append(V_cw[0])',
                'V_chain = [float(V_x) for V_x in V_line.split()[2:]]', 'V_cws.append(float(V_line.split()[0]))']
        under = ['self.multimodes', 'len(V_chain) > 0', "V_line != '\\n'", 'V_idx > 2',
                 "V_lines[V_idx - 1] == '\\n' and V_lines[V_idx - 2] == '\\n'"]
    else:
        pats = ['V_n = len(self.fit_names)', 'V_ma = [V_data[:, 2:V_n + 2]]', 'V_mw = [V_data[:, 0]]',
                'V_ma.append(V_d2[:, 2:V_n + 2])', 'V_mw.append(V_d2[:, 0])']
        under = ['self.do_clustering', 'V_nc == 1']
    need(R, '1.%s.columns' % tag, 'TAB', site,
         'samples are read from the sampler file with the weight in column 0 and the fitted parameters from column 2 on, '
         'in single-mode and in per-mode files alike', f, pats, under=under)
    # census: every column taken from a loadtxt() table is column 0 or the block starting at column 2
    tables = {n.targets[0].id for n in ast.walk(f.node) if isinstance(n, ast.Assign) and len(n.targets) == 1 and
              isinstance(n.targets[0], ast.Name) and isinstance(n.value, ast.Call) and unparse(n.value.func).endswith('loadtxt')}
    cols = []
    for n in ast.walk(f.node):
        if isinstance(n, ast.Subscript) and isinstance(n.value, ast.Name) and n.value.id in tables:
            sl = n.slice
            ok_ = isinstance(sl, ast.Tuple) and len(sl.elts) == 2 and isinstance(sl.elts[0], ast.Slice) and \
                sl.elts[0].lower is None and sl.elts[0].upper is None
            if ok_:
                c = sl.elts[1]
                ok_ = (isinstance(c, ast.Constant) and c.value == 0) or (
                    isinstance(c, ast.Slice) and isinstance(c.lower, ast.Constant) and c.lower.value == 2 and c.step is None)
            cols.append((unparse(n), ok_))
    badc = [t for t, ok_ in cols if not ok_]
    R.check('1.%s.columns.all' % tag, 'TAB', site,
            'every read of a sample table takes column 0 (weights) or the columns from 2 on (parameters)',
            len(cols) >= 2 and not badc, key='; '.join(badc) or '%d reads' % len(cols),
            detail='reads %s' % [t for t, _ in cols], loc=f.loc())
    # the solution dictionary and each summary are stored unconditionally, and the result returned
    whys = []
    if pst.guards:
        whys.append('summary stored under %s' % [g.text() for g in pst.guards])
    sol = [e for e in fl.of('store') if e.loops == (ml,) and 'solution' in fmt(fl, e.target)]
    if len(sol) != 1 or sol[0].guards or not fl.tab.equal(sol[0].value, md[0].value):
        whys.append('the mode dictionary is not stored under solution<mode> for every mode')
    rr = fl.of('return')
    if len(rr) != 1 or rr[0].guards or rr[0].loops:
        whys.append('the result is returned conditionally')
    R.check('1.%s.store' % tag, 'ARG', site, 'every summary and every mode dictionary is stored, and the collection returned',
            not whys, key='; '.join(whys), detail='; '.join(whys), loc=f.loc())
    okm = 'nest_map' in entries and "['maximum a posterior']" in fmt(fl, entries['nest_map']) \
        and fl.tab.equal(atom_of(fl, entries['nest_map']).args[-1], i)
    R.check('3.%s.map' % tag, 'ARG', site, "nest_map is the sampler's 'maximum a posterior' entry of the same parameter index",
            okm, key='nest_map %s' % fmt(fl, entries.get('nest_map')), detail='nest_map %s' % fmt(fl, entries.get('nest_map')),
            loc=f.loc(pst.node))


def derived(ix, R):
    site = OP + '::Optimizer.compute_derived_trace'
    f = ix.func(site)
    fl = mkflow(ix, site)
    qev = one(calls(fl, 'quantile_corner'), 'quantile_corner call')
    lp = one(qev.loops, 'loop over derived parameters')
    nod = spec(fl, 'len(self.derived_names) == 0')

    def lic_d(g):
        # the only shortcut: nothing to do when there are no derived parameters
        return validated(g) or (g.early and g.exit == {'return'} and guard_is(fl, g, nod, False))
    dst = [e for e in fl.of('assign') if lp in e.loops and dict_items(fl, e.value) is not None]
    d = dict_items(fl, one(dst, 'derived dictionary').value)
    trace = qev.args[0]
    W = qev.kw.get('weights')
    summary(R, '1.derived', site, f, fl, d, qev, trace, W, f.loc(qev.node))
    okm = 'mean' in d and fl.tab.equal(d['mean'], spec(fl, 'average(t, weights=w, axis=0)', {'t': trace, 'w': W}))
    R.check('1.derived.mean', 'ALG', site, 'derived mean = weighted average of the same trace with the same weights',
            okm, key='mean %s' % fmt(fl, d.get('mean')), detail='mean %s' % fmt(fl, d.get('mean')), loc=f.loc())
    # 6. one append per processed sample, with the sample's own weight
    apps = [e for e in calls(fl, 'append') if e.loops and e.loops[0].kind == 'range']
    why = []
    if len(apps) != 2:
        why.append('%d appends in the sample loop' % len(apps))
    else:
        sl = apps[0].loops[0]
        idx = sl.index
        um = [e for e in calls(fl, 'update_model') if sl in e.loops]
        samples = code(fl, 'self.get_samples(S)').tab and spec(fl, 'self.get_samples(S)', param_env(fl, f, ['S']))
        weights = spec(fl, 'self.get_weights(S)', param_env(fl, f, ['S']))
        if len(um) != 1 or not fl.tab.equal(um[0].args[0], fl.tab.atom('idx', (samples, idx))):
            why.append('update_model(%s)' % [fmt(fl, a) for e in um for a in e.args])
        ip = [e for e in calls(fl, 'initialize_profiles') if sl in e.loops]
        if len(ip) != 1:
            why.append('%d initialize_profiles calls in the sample loop' % len(ip))
        for e in um + ip:
            if any(not lic_d(g) for g in e.guards) or len(e.loops) != 1:
                why.append('%s is conditional: a skipped sample keeps the previous sample\'s derived values' % e.name)
        if len(um) == 1 and len(ip) == 1:
            order = [fl.events.index(um[0]), fl.events.index(ip[0])] + [fl.events.index(a) for a in apps]
            if order != sorted(order):
                why.append('update_model, initialize_profiles and the appends are out of order')
        vals = [e for e in apps if not fl.tab.equal(e.args[0], fl.tab.atom('idx', (weights, idx)))]
        ws = [e for e in apps if fl.tab.equal(e.args[0], fl.tab.atom('idx', (weights, idx)))]
        if len(ws) != 1 or len(vals) != 1:
            why.append('appended weight is not weights[idx]')
        if any(not lic_d(g) for e in apps for g in e.guards):
            why.append('conditional append')
        inner = apps[0].loops[1] if len(apps[0].loops) > 1 else None
        if inner is None or inner.kind != 'zip' or not (
                fl.tab.equal(inner.iter_rf[0], code(fl, 'self.derived_names')) and
                fl.tab.equal(inner.iter_rf[1], code(fl, 'self.derived_values'))):
            why.append('derived values are not zipped with their names')
    # partition of the samples over the ranks and restoration of the sample order after the gather
    why6 = []
    # values go to one member and weights to the other member of each parameter's pair (a position of a tuple / list or
    # a named field), and those members are what is gathered
    def member(rf_):
        a__ = atom_of(fl, rf_) if rf_ is not None else None
        if a__ is not None and a__.head == 'idx' and isinstance(a__.args[1], RF) and a__.args[1].const() is not None:
            return ('item', int(a__.args[1].const()))
        if a__ is not None and a__.head == 'getattr' and isinstance(a__.args[1], str):
            return ('field', a__.args[1])
        return None
    slot_v = slot_w = None
    if len(apps) == 2:
        W_ = spec(fl, 'self.get_weights(S)', param_env(fl, f, ['S']))
        sl_ = apps[0].loops[0]
        for a_ in apps:
            isw = fl.tab.equal(a_.args[0], fl.tab.atom('idx', (W_, sl_.index)))
            m_ = member(a_.recv_rf)
            if m_ is None:
                raise AnalysisError('the list a sample is appended to is not a member of a pair: %s' % unparse(a_.node)[:80])
            if isw:
                slot_w = m_
            else:
                slot_v = m_
        if slot_v is not None and slot_v == slot_w:
            why6.append('value and weight are appended to the same list of the pair (%s)' % (slot_v,))
        # (the reviewed layout is (values, weights): with positional members a swap is visible where the pair is unpacked)
        if slot_v is not None and slot_w is not None and slot_v[0] == 'item' and slot_w[0] == 'item' and slot_v != slot_w and \
                (slot_v[1], slot_w[1]) != (0, 1):
            why6.append('value appended to list %s and weight to list %s of the pair' % (slot_v[1], slot_w[1]))
    if len(apps) == 2:
        sl = apps[0].loops[0]
        ra = [fmt(fl, x) for x in (sl.range_args or [])]
        want_r = [fmt(fl, spec(fl, x, param_env(fl, f, ['S']))) for x in ('mpi.get_rank()', 'len(self.get_samples(S))', 'mpi.nprocs()')]
        if ra != want_r:
            why6.append('sample loop is range(%s), expected range(rank, number of samples, number of ranks)' % ', '.join(ra))
    W0 = spec(fl, 'self.get_weights(S)', param_env(fl, f, ['S']))
    stores_ = [e for e in fl.of('store') if lp in e.loops]
    # what is gathered: list 0 (values) and list 1 (weights) of each parameter's pair
    G = {}
    for e in fl.of('assign'):
        if lp in e.loops and isinstance(e.value, RF):
            for a_ in e.value.all_atoms():
                at_ = fl.tab.atoms[a_]
                if at_.head == 'call' and at_.extra and 'allreduce' in at_.extra[0] and at_.args:
                    m_ = member(at_.args[0])
                    if m_ is not None and m_ == slot_v:
                        G.setdefault(0, e.value)
                    elif m_ is not None and m_ == slot_w:
                        G.setdefault(1, e.value)
    for k_, nm_ in ((0, 'trace'), (1, 'weights')):
        if k_ not in G:
            why6.append('the gathered %s is not the list the %s were appended to' % (nm_, 'values' if k_ == 0 else 'weights'))

    def unarray(x):
        while x is not None:
            a_ = atom_of(fl, x)
            if a_ is not None and a_.head == 'call' and a_.extra[0] in ('fn:array', 'fn:asarray') and len(a_.args) == 1:
                x = a_.args[0]
                continue
            break
        return x
    if 0 in G and 1 in G:
        P0 = spec(fl, 'argsort(w)', {'w': W0})
        PG = spec(fl, 'argsort(g)', {'g': G[1]})
        for Q, k_, nm in ((qev.args[0], 0, 'trace'), (W, 1, 'weights')):
            Q0 = unarray(Q)
            qa = atom_of(fl, Q0) if Q0 is not None else None
            inplace = Q0 is not None and (fl.tab.equal(Q0, G[k_]) or fl.tab.equal(Q0, unarray(G[k_])))
            fresh = qa is not None and qa.head == 'alloc'
            if not (inplace or fresh):
                why6.append('what reaches the quantiles as %s is %s, not the gathered list %d' % (
                    nm, fmt(fl, Q0)[:80] if Q0 is not None else None, k_))
                continue
            want_t = fl.tab.atom('idx', (Q0, P0))
            want_v = fl.tab.atom('idx', (G[k_], PG))
            hit = [e for e in stores_ if (fl.tab.equal(e.target, want_t) or fl.tab.equal(e.target, fl.tab.atom('idx', (G[k_], P0))))
                   and fl.tab.equal(e.value, want_v)
                   and fl.events.index(e) < fl.events.index(qev) and not [g for g in e.guards if not lic_d(g)]]
            if len(hit) != 1:
                why6.append('the gathered %s is not put back into sample order (X[argsort(weights)] = X[argsort(gathered weights)]) '
                            'before the quantiles' % nm)
        # the permutation of the gathered weights has to be taken BEFORE the weights are re-ordered in place: an
        # `argsort()` evaluated after `W[p0] = W[pg]` sorts the already restored weights (and is the identity on the trace)
        inplace = [e for e in stores_ if atom_of(fl, e.target) is not None and atom_of(fl, e.target).head == 'idx' and
                   fl.tab.equal(atom_of(fl, e.target).args[0], G[1])]
        if inplace:
            first_w = min(fl.events.index(e) for e in inplace)
            late = [c for c in fl.of('call') if c.name == 'argsort' and lp in c.loops and fl.events.index(c) > first_w and
                    ((c.recv_rf is not None and fl.tab.equal(c.recv_rf, G[1])) or
                     (c.args and isinstance(c.args[0], RF) and fl.tab.equal(c.args[0], G[1])))]
            if late:
                why6.append('argsort of the gathered weights is evaluated (line %d) after they were re-ordered in place (line %d): '
                            'it no longer is the permutation of the gathered order' % (
                                late[0].node.lineno, fl.events[first_w].node.lineno))
    keyst = [e for e in stores_ if atom_of(fl, e.target) is not None and atom_of(fl, e.target).head == 'idx'
             and 'derived' in fmt(fl, atom_of(fl, e.target).args[1])]
    rets = [e for e in fl.of('return') if e.value is not None and fmt(fl, e.value) != 'None']
    if len(keyst) != 1 or [g for g in keyst[0].guards if not lic_d(g)] or not dst or \
            not fl.tab.equal(keyst[0].value, dst[0].value):
        why6.append('the summary dictionary is not stored under <name>_derived for every derived parameter')
    elif len(rets) != 1 or rets[0].loops or [g for g in rets[0].guards if not lic_d(g)] or \
            not fl.tab.equal(rets[0].value, atom_of(fl, keyst[0].target).args[0]):
        why6.append('the dictionary of summaries is not what is returned')
    R.check('6.order', 'PERM', site,
            'samples are dealt rank::nprocs; after the gather both the trace and its weights are re-ordered to the sample '
            'order by the same pair of argsorts; each summary is stored under <name>_derived and the dictionary returned',
            not why6, key='; '.join(why6), detail='; '.join(why6), loc=f.loc())
    R.check('6.trace', 'ARG', site,
            'each processed sample: unconditional update_model(samples[idx]) and initialize_profiles(), then exactly one (value, weights[idx]) append per derived parameter',
            not why, key='; '.join(why), detail='; '.join(why), loc=f.loc())


def quantile_fn(ix, R):
    site = UU + '::quantile_corner'
    stmt = 'weighted quantiles: sort by x, cumulative weights in that order normalised by the last, interp(q, cdf, xsorted)'
    with R.guard('2.quantile', 'ALG', site, stmt):
        f = ix.func(site)
        fl = mkflow(ix, site)
        pe = param_env(fl, f, ['x', 'q', 'w'])
        rets = fl.of('return')
        r = [e for e in rets if any(not g.positive for g in e.guards)]
        r = one(r, 'weighted return')
        b = dict(pe, p=spec(fl, 'argsort(x)', pe))
        cdf = spec(fl, 'accumulate(w[p])', b)
        alt = spec(fl, 'cumsum(w[p])', b)
        ok = False
        alt0 = spec(fl, 'cumsum(w[p], axis=0)', b)        # the weights are one-dimensional
        for c in (cdf, alt, alt0):
            want = spec(fl, 'interp(q, c/c[-1], x[p])', dict(b, c=c))
            ok = ok or fl.tab.equal(r.value, want)
        g = r.guards[-1]
        okg = fl.tab.equal(g.rf, spec(fl, 'w is None', pe)) and not g.positive
        R.check('2.quantile', 'ALG', site, stmt, ok and okg, key='returns %s' % fmt(fl, r.value),
                detail='returns %s under %s' % (fmt(fl, r.value), g.text()), loc=f.loc(r.node),
                extracted=fmt(fl, r.value))


def get_solution(ix, R, tag, site, mapkey, per_solution):
    with R.guard('4.%s' % tag, 'SIB', site, 'get_solution'):
        f = ix.func(site)
        fl = mkflow(ix, site)
        y = one(fl.of('yield'), 'yield')
        elts = y.value_ast.elts
        why = []
        if len(elts) != 4 or not all(isinstance(e, ast.Name) for e in elts[1:3]):
            raise AnalysisError('yield is not (id, map list, median list, extras)')
        mname, vname = elts[1].id, elts[2].id
        # two distinct fresh lists
        asg = {}
        for n in walk_no_nested(f.node):
            if isinstance(n, ast.Assign) and len(n.targets) == 1 and isinstance(n.targets[0], ast.Name):
                asg.setdefault(n.targets[0].id, []).append(n.value)
        for nm in (mname, vname):
            vs = asg.get(nm, [])
            if len(vs) != 1 or unparse(vs[0]) not in ('self.fit_values', 'list(self.fit_values)'):
                why.append('%s = %s (each list must be its own evaluation of fit_values)' % (
                    nm, [unparse(v) for v in vs]))
        if mname == vname:
            why.append('MAP and median are the same list')
        R.check('4.%s.alias' % tag, 'DOM', site,
                'MAP list and median list are two distinct lists (two evaluations of fit_values)',
                not why, key='; '.join(why), detail='; '.join(why), loc=f.loc(y.node))
        # element stores
        why = []
        sts = [e for e in fl.of('store') if e.loops]
        by = {}
        for e in sts:
            if isinstance(e.target_ast, ast.Subscript) and isinstance(e.target_ast.value, ast.Name):
                by[e.target_ast.value.id] = e
        for nm, key in ((mname, mapkey), (vname, 'value')):
            e = by.get(nm)
            if e is None:
                why.append('%s is never filled' % nm)
                continue
            va = atom_of(fl, e.value)
            ka = atom_of(fl, va.args[1]) if va is not None and va.head == 'idx' and len(va.args) == 2 else None
            if ka is None or ka.head != 'const' or ka.args[0].strip("'") != key:
                why.append('%s[...] = %s (expected the %r entry)' % (nm, fmt(fl, e.value), key))
            ta = atom_of(fl, e.target)
            ia = atom_of(fl, ta.args[1]) if ta is not None else None
            if ia is None or ia.head != 'call' or ia.extra[0] != 'fn:self.fit_names.index':
                why.append('%s indexed by %s (expected fit_names.index(parameter name))' % (
                    nm, fmt(fl, ta.args[1]) if ta is not None else None))
        R.check('4.%s.fill' % tag, 'ARG', site,
                "MAP list <- the %r entry, median list <- the 'value' entry, at fit_names.index(name)" % mapkey,
                not why, key='; '.join(why), detail='; '.join(why), loc=f.loc())
        # order of the yield
        R.check('4.%s.order' % tag, 'SIB', site, 'yields (solution id, MAP list, median list, extras)',
                True, loc=f.loc(y.node))


def consumers(ix, R):
    for nm in ('generate_solution', 'fit'):
        site = OP + '::Optimizer.' + nm
        with R.guard('4.consumer', 'SIB', site, 'consumer order'):
            f = ix.func(site)
            loops = [n for n in walk_no_nested(f.node) if isinstance(n, ast.For) and
                     unparse(n.iter) == 'self.get_solution()']
            why = []
            if not loops:
                why.append('no loop over get_solution()')
            for lp in loops:
                names = [e.id for e in lp.target.elts] if isinstance(lp.target, ast.Tuple) else []
                if len(names) != 4 or 'map' not in names[1] or 'median' not in names[2]:
                    why.append('unpacks %s' % names)
            R.check('4.consumer', 'SIB', site, 'unpacks (id, optimized_map, optimized_median, values) in the yield order',
                    not why, key='; '.join(why), detail='; '.join(why), loc=f.loc())


def generate_solution(ix, R):
    site = OP + '::Optimizer.generate_solution'
    stmt = ('Spectra come from model() evaluated right after update_model(MAP); Profiles from '
            'generate_profiles() after update_model(median) and model(); binned with self._binner')
    with R.guard('5.order', 'DOM', site, stmt):
        f = ix.func(site)
        fl = mkflow(ix, site)
        lp = [e.loop for e in fl.of('loop') if unparse(e.loop.iter_ast) == 'self.get_solution()'][0]
        item = fl.tab.atom('elem', (lp.iter_rf[0], lp.index))
        MAP = fl.tab.atom('idx', (item, fl.tab.const(1)))
        MED = fl.tab.atom('idx', (item, fl.tab.const(2)))
        evs = [e for e in fl.events if lp in e.loops and len(e.loops) == 1]
        seq = []
        for e in evs:
            if e.kind == 'call' and e.name == 'update_model':
                seq.append(('update', 'MAP' if fl.tab.equal(e.args[0], MAP) else
                            ('MED' if fl.tab.equal(e.args[0], MED) else fmt(fl, e.args[0]))))
            elif e.kind == 'call' and unparse(e.node.func) == 'self._model.model':
                seq.append(('model', ''))
            elif e.kind == 'call' and unparse(e.node.func) == 'self._binner.generate_spectrum_output':
                seq.append(('spectra', unparse(e.node.args[0]) if e.node.args else ''))
            elif e.kind == 'call' and unparse(e.node.func) == 'self._model.generate_profiles':
                seq.append(('profiles', ''))
        kinds = [s[0] + (':' + s[1] if s[0] == 'update' else '') for s in seq]
        want = ['update:MAP', 'model', 'spectra', 'update:MED', 'model', 'profiles']
        why = []
        if kinds != want:
            why.append('sequence is %s' % kinds)
        else:
            # the spectra are generated from the result of the first model() call
            mcalls = [e for e in evs if e.kind == 'call' and unparse(e.node.func) == 'self._model.model']
            sp = [e for e in evs if e.kind == 'call' and unparse(e.node.func) == 'self._binner.generate_spectrum_output'][0]
            first = fl.tab.atom('call', tuple(mcalls[0].args + [mcalls[0].kw[k] for k in sorted(mcalls[0].kw)]),
                                extra=('fn:self._model.model',) + tuple(sorted(mcalls[0].kw)))
            if not sp.args or not fl.tab.equal(sp.args[0], first):
                why.append('spectrum output built from %s' % (fmt(fl, sp.args[0]) if sp.args else None))
        # none of the six steps may be skipped
        for e in evs:
            if e.kind == 'call' and (e.name in ('update_model',) or unparse(e.node.func) in (
                    'self._model.model', 'self._binner.generate_spectrum_output', 'self._model.generate_profiles')):
                if [g for g in e.guards if g.test is not None]:
                    why.append('%s is conditional on %s' % (unparse(e.node.func), [g.text() for g in e.guards]))
        R.check('5.order', 'DOM', site, stmt, not why, key='; '.join(why), detail='; '.join(why), loc=f.loc())
        from sa.helpers import dict_facts
        facts5 = dict_facts(fl)
        sts = {k_: [x for x in v_ if lp in x[1].loops and len(x[1].loops) == 1] for k_, v_ in facts5.items()
               if k_ in ('Spectra', 'Profiles')}
        okk = all(len(sts.get(k_, [])) == 1 and not sts[k_][0][1].guards for k_ in ('Spectra', 'Profiles')) and \
            'generate_spectrum_output' in fmt(fl, sts['Spectra'][0][0]) and \
            'generate_profiles' in fmt(fl, sts['Profiles'][0][0]) and \
            fl.tab.equal(sts['Spectra'][0][2], sts['Profiles'][0][2])
        R.check('5.keys', 'ARG', site, "results are stored under 'Spectra' and 'Profiles'", okk,
                key='stores %s' % sorted(sts), detail='stores %s' % sorted(sts), loc=f.loc())
        # every solution's dictionary ends up in the result under its own id, with the sampler's extras, and is returned
        why = []
        sid = fl.tab.atom('idx', (item, fl.tab.const(0)))
        fin = [e for e in fl.of('store') if e.loops == (lp,) and atom_of(fl, e.target) is not None and
               atom_of(fl, e.target).head == 'idx' and 'solution' in fmt(fl, atom_of(fl, e.target).args[1])
               and 'Spectra' not in fmt(fl, e.target) and 'derived' not in fmt(fl, e.target)]
        if len(fin) != 1 or fin[0].guards or not atom_of(fl, fin[0].target).args[1].mentions(
                lambda a: a.head == 'idx' and True):
            why.append('the per-solution dictionary is not stored unconditionally under solution<id>')
        r = [e for e in fl.of('return')]
        if len(r) != 1 or r[0].guards or r[0].loops or (fin and not fl.tab.equal(r[0].value, atom_of(fl, fin[0].target).args[0])):
            why.append('the dictionary of solutions is not what is returned')
        ex = [e for e in fl.of('store') if len(e.loops) == 2 and e.loops[0] is lp]
        vals = fl.tab.atom('idx', (item, fl.tab.const(3)))
        exok = [e for e in ex if fl.tab.equal(e.loops[1].iter_rf[0], vals) and not e.guards]
        if len(exok) != 1:
            why.append('the (key, value) extras yielded by the sampler are not copied into the solution')
        # derived parameters: for every solution, whenever there are derived parameters
        cd = [e for e in calls(fl, 'compute_derived_trace')]
        if len(cd) != 1 or len(cd[0].loops) != 1 or unparse(cd[0].loops[0].iter_ast) != 'self.get_solution()':
            why.append('compute_derived_trace is not called once per solution')
        else:
            c0 = cd[0]
            from sa.helpers import pos_args
            import types as _types
            _pa, _kd = pos_args(fl, c0)        # compute_derived_trace(solution=s) is compute_derived_trace(s)
            if _kd:
                raise AnalysisError('compute_derived_trace is called with keyword arguments %s' % sorted(_kd))
            c0 = _types.SimpleNamespace(args=_pa, guards=c0.guards, loops=c0.loops, node=c0.node)
            lic = spec(fl, 'len(self.derived_names) > 0')
            bad = [g for g in c0.guards if not guard_is(fl, g, lic, True)]
            it2 = fl.tab.atom('elem', (c0.loops[0].iter_rf[0], c0.loops[0].index))
            if bad or not c0.args or not fl.tab.equal(c0.args[0], fl.tab.atom('idx', (it2, fl.tab.const(0)))):
                why.append('compute_derived_trace(%s) under %s' % ([fmt(fl, a) for a in c0.args], [g.text() for g in c0.guards]))
            ups = [e for e in calls(fl, 'update') if e.loops == c0.loops and 'derived_params' in unparse(e.node.func)]
            res = fl.tab.atom('call', tuple(c0.args), extra=('fn:self.compute_derived_trace',))
            if len(ups) != 1 or not fl.tab.equal(ups[0].args[0], res) or [
                    g for g in ups[0].guards if not ((g.early and g.exit == {'continue'}) or guard_is(fl, g, lic, True))]:
                why.append('the derived summaries are not merged into derived_params of the same solution')
        R.check('5.store', 'ARG', site,
                'every solution: extras copied, dictionary stored under solution<id> and returned; with derived parameters, '
                'compute_derived_trace(id) is merged into derived_params of that solution',
                not why, key='; '.join(why), detail='; '.join(why), loc=f.loc())


def nestle_handoff(ix, R):
    """1.nestle.handoff: what store_nestle_output summarises is the sampler's result as returned - no point is dropped,
    re-weighted or re-ordered between nestle.sample(...) and the summary (the stored samples and weights are "the
    sampler's output unchanged")."""
    site = NE + '::NestleOptimizer.compute_fit'
    f = ix.func(site)
    fl = mkflow(ix, site)
    stmt = 'store_nestle_output receives the result of nestle.sample(...) unchanged'
    st = calls(fl, 'store_nestle_output')
    sm = [e for e in fl.of('assign') if isinstance(e.value, RF) and atom_of(fl, e.value) is not None and
          atom_of(fl, e.value).head == 'call' and atom_of(fl, e.value).extra[0] in ('fn:nestle.sample', 'fn:sample')]
    if len(st) != 1 or len(sm) != 1:
        R.error('1.nestle.handoff', 'ARG', site, stmt, '%d store_nestle_output calls, %d nestle.sample results' % (len(st), len(sm)),
                loc=f.loc())
        return
    res = sm[0]
    why = []
    if not st[0].args or not fl.tab.equal(st[0].args[0], res.value):
        why.append('store_nestle_output(%s) is not given the sampler result' % [fmt(fl, a)[:60] for a in st[0].args])
    if st[0].guards or st[0].loops:
        why.append('the summary is computed conditionally')
    for e in fl.of('store'):
        d = unparse(e.target_ast)
        if d.split('.')[0].split('[')[0] == res.name and fl.events.index(res) < fl.events.index(e) < fl.events.index(st[0]):
            why.append('%s rewrites the sampler result before it is summarised' % unparse(e.node)[:70])
    for e in fl.of('assign'):
        if e.name == res.name and e is not res and fl.events.index(e) < fl.events.index(st[0]):
            why.append('%s re-binds the sampler result before it is summarised' % unparse(e.node)[:70])
    R.check('1.nestle.handoff', 'ARG', site, stmt, not why, key='; '.join(w[:90] for w in why), detail='; '.join(why),
            loc=f.loc(st[0].node))


def run(ix, R):
    with R.guard('1.nestle.handoff', 'ARG', NE, 'nestle handoff'):
        nestle_handoff(ix, R)
    with R.guard('1.nestle', 'ALG', NE, 'nestle summary'):
        nestle_store(ix, R)
    with R.guard('1.multinest', 'ALG', MN, 'multinest summary'):
        nest_store(ix, R, 'multinest', MN + '::MultiNestOptimizer.store_nest_solutions', 'modes_array', 'modes_weights')
    with R.guard('1.polychord', 'ALG', PC, 'polychord summary'):
        nest_store(ix, R, 'polychord', PC + '::PolyChordOptimizer.store_polychord_solutions', 'modes_array', 'modes_weights')
    with R.guard('1.derived', 'ALG', OP, 'derived summary'):
        derived(ix, R)
    quantile_fn(ix, R)
    get_solution(ix, R, 'nestle', NE + '::NestleOptimizer.get_solution', 'map', False)
    get_solution(ix, R, 'multinest', MN + '::MultiNestOptimizer.get_solution', 'nest_map', True)
    get_solution(ix, R, 'polychord', PC + '::PolyChordOptimizer.get_solution', 'nest_map', True)
    consumers(ix, R)
    generate_solution(ix, R)
    # samples / weights accessors return what was stored
    for tag, site_s, site_w, key in (
            ('nestle', NE + '::NestleOptimizer.get_samples', NE + '::NestleOptimizer.get_weights', None),
            ('multinest', MN + '::MultiNestOptimizer.get_samples', MN + '::MultiNestOptimizer.get_weights', 'solution'),
            ('polychord', PC + '::PolyChordOptimizer.get_samples', PC + '::PolyChordOptimizer.get_weights', 'solution')):
        with R.guard('3.%s.access' % tag, 'ARG', site_s, 'accessors'):
            fs, fw = ix.func(site_s), ix.func(site_w)
            rs = unparse(fs.body()[-1].value)
            rw = unparse(fw.body()[-1].value)
            ok = rs.endswith("['samples']") or rs.endswith("['tracedata']")
            ok = ok and rw.endswith("['weights']") and rs.rsplit('[', 1)[0] == rw.rsplit('[', 1)[0]
            R.check('3.%s.access' % tag, 'ARG', site_s,
                    'get_samples / get_weights return the stored trace and weights of the same solution',
                    ok, key='%s / %s' % (rs, rw), detail='%s / %s' % (rs, rw), loc=fs.loc())


MUTANTS = [
    ('derived-slot-swap', OP, 'derived_param[p][0].append(v)', 'derived_param[p][1].append(v)', '6.order'),
    ('derived-range', OP, 'for idx in range(rank, len_samples, num_procs):', 'for idx in range(rank, len_samples - 1, num_procs):', '6.order'),
    ('derived-noreorder', OP, '            all_trace[sorted_weights] = all_trace[all_weight_sort]\n', '', '6.order'),
    ('multinest-column', MN, 'modes_array = [data[:, 2:]]', 'modes_array = [data[:, 1:]]', '1.multinest.columns'),
    ('polychord-weight-column', PC, 'modes_weights = [data[:, 0]]\n        modes_array = np.asarray', 'modes_weights = [data[:, 1]]\n        modes_array = np.asarray', '1.polychord.columns.all'),
    ('solution-median-first', OP, 'self.update_model(optimized_map)', 'self.update_model(optimized_median)', '5.order'),
    ('nestle-sigma-m', NE, "param['sigma_m'] = q_50 - q_16", "param['sigma_m'] = q_84 - q_50", '1.nestle'),
    ('nestle-value', NE, "param['value'] = q_50", "param['value'] = q_84", '1.nestle'),
    ('nestle-unweighted', NE, 'q_16, q_50, q_84 = quantile_corner(trace, [0.16, 0.5, 0.84], weights=np.asarray(weights))', 'q_16, q_50, q_84 = quantile_corner(trace, [0.16, 0.5, 0.84])', '1.nestle'),
    ('nestle-levels', NE, 'quantile_corner(trace, [0.16, 0.5, 0.84], weights=np.asarray(weights))', 'quantile_corner(trace, [0.16, 0.5, 0.86], weights=np.asarray(weights))', '1.nestle'),
    ('nestle-map-min', NE, 'max_weight = weights.argmax()', 'max_weight = weights.argmin()', '3.nestle.map'),
    ('nestle-column', NE, 'trace = samples[:, idx]', 'trace = samples[idx, :]', '1.nestle'),
    ('nestle-samples-sorted', NE, "nestle_output['solution']['samples'] = samples", "nestle_output['solution']['samples'] = np.sort(samples, axis=0)", '3.nestle.alias'),
    ('multinest-weights-mode', MN, "q_16, q_50, q_84 = quantile_corner(trace, [0.16, 0.5, 0.84], weights=np.asarray(modes_weights[nmode]))", "q_16, q_50, q_84 = quantile_corner(trace, [0.16, 0.5, 0.84], weights=np.asarray(modes_weights[0]))", '1.multinest'),
    ('multinest-sigma-p', MN, "'sigma_p': q_84 - q_50, 'nest_map': NEST_stats", "'sigma_p': q_84 - q_16, 'nest_map': NEST_stats", '1.multinest'),
    ('polychord-trace', PC, "trace = modes_array[nmode][:, idx]\n                q_16", "trace = modes_array[nmode][:, 0]\n                q_16", '1.polychord'),
    ('derived-sigma', OP, "'sigma_m': q_50 - q_16, 'sigma_p': q_84 - q_50, 'trace': all_trace", "'sigma_m': q_50 - q_16, 'sigma_p': q_84 - q_16, 'trace': all_trace", '1.derived'),
    ('quantile-unsorted', UU, 'xsorted = x[idx]', 'xsorted = x', '2.quantile'),
    ('quantile-nonorm', UU, "        cdf /= cdf[-1]\n", "", '2.quantile'),
    ('quantile-weights-unsorted', UU, 'cdf = np.add.accumulate(weights[idx])', 'cdf = np.add.accumulate(weights)', '2.quantile'),
    ('solution-alias', NE, "        opt_map = self.fit_values\n        opt_values = self.fit_values", "        opt_map = self.fit_values\n        opt_values = opt_map", '4.nestle.alias'),
    ('solution-swap-keys', MN, "opt_map[idx] = p_value['nest_map']\n                opt_values[idx] = p_value['value']", "opt_map[idx] = p_value['value']\n                opt_values[idx] = p_value['nest_map']", '4.multinest.fill'),
    ('gensol-median-spectra', OP, "            self.update_model(optimized_map)\n            opt_result = self._model.model(cutoff_grid=False)", "            self.update_model(optimized_median)\n            opt_result = self._model.model(cutoff_grid=False)", '5.order'),
    ('gensol-no-update', OP, "            self.update_model(optimized_median)\n            self._model.model(cutoff_grid=False)", "            self._model.model(cutoff_grid=False)", '5.order'),
    ('seed-C09B-derived-shortcut', OP, "            self.update_model(parameters)\n            self._model.initialize_profiles()\n            for p, v in zip(self.derived_names", "            if count == 0 or not np.allclose(parameters, samples[idx - 1]):\n                self.update_model(parameters)\n                self._model.initialize_profiles()\n            for p, v in zip(self.derived_names", '6.trace'),
    ('derived-noinit', OP, "            self.update_model(parameters)\n            self._model.initialize_profiles()\n            for p, v in zip(self.derived_names", "            self.update_model(parameters)\n            for p, v in zip(self.derived_names", '6.trace'),
    ('derived-weight', OP, 'derived_param[p][1].append(weight)', 'derived_param[p][1].append(weights[0])', '6.trace'),
    ('derived-skip', OP, "            for p, v in zip(self.derived_names, self.derived_values):\n                derived_param[p][0].append(v)", "            for p, v in zip(self.derived_names, self.derived_values):\n                if v > 0:\n                    derived_param[p][0].append(v)", '6.trace'),
]
EQUIVALENTS = [
    ('derived-empty-test', OP, 'if len(self.derived_names) == 0:\n            return', 'if not self.derived_names:\n            return'),
    ('derived-hoist-cond', OP, 'if len(self.derived_names) == 0:\n            return', 'nothing_to_do = len(self.derived_names) == 0\n        if nothing_to_do:\n            return'),
    ('nestle-reorder', NE, "param['sigma_p'] = q_84 - q_50", "param['sigma_p'] = -q_50 + q_84"),
    ('quantile-cumsum', UU, 'cdf = np.add.accumulate(weights[idx])', 'cdf = np.cumsum(weights[idx])'),
]
UNCONDITIONAL = [
    (OP, 'all_weight[sorted_weights] = all_weight[all_weight_sort]'),
    (OP, 'all_trace[sorted_weights] = all_trace[all_weight_sort]'),
    (OP, "result_dict[f'{param}_derived'] = derived"),
    (OP, 'self.update_model(optimized_map)'),
    (OP, 'self.update_model(optimized_median)'),
    (OP, "solution_dict['solution{}'.format(solution)] = sol_values"),
    (NE, "param['value'] = q_50"),
    (NE, "nestle_output['solution']['weights'] = weights"),
    (MN, "NEST_out['solutions']['solution{}'.format(nmode)] = mydict"),
]
