"""C01 Transmission spectrum equals the documented transit-depth integral.

Decided statically (DESIGN 4/C01): kernel integrand and indices, call-site
argument roles, the licensed cut-off guard, the depth integral, chord-array
shapes.  Not decided: numbers.
"""
import ast

from sa.helpers import (the_return, mkflow, spec, code, one, calls, bind_call, param_env,
                        loop_matches, fmt, atom_of, unparse, unalloc, call_kw)
from sa.index import AnalysisError
from sa.algebra import RF, Slice

FLOOR = 15
FILES = ['taurex/contributions/contribution.py', 'taurex/contributions/absorption.py',
         'taurex/model/transmission.py', 'taurex/model/simplemodel.py']
EXPLANATION = (
    'Static rule conformance. Each obligation extracts a construct from the '
    'syntax tree of /repo (forward substitution of local definitions, loop '
    'nest, guard stack) and compares it, as a rational normal form over '
    'interned atoms, with the formula / argument role stated by the property: '
    'the tau accumulation kernel, the arguments every caller passes to it, the '
    'saturation cut-off guard, the transit-depth integral and the chord '
    'arrays. Holds on every execution because it is a fact about every path of '
    'the analysed functions.')
ASSUMPTIONS = [
    'numpy / numba semantics of +=, indexing, broadcasting and np.sum(axis=0)',
    'the receiver families of sa/canon.py (self._planet is a BasePlanet ...)',
    'cross-sections, densities and path lengths are finite non-negative numbers',
]
NOT_DECIDED = [
    'equality of compute_path_length (3-D geometry) and compute_path_length_old',
    'numerical consequences (>= bare planet, <= opaque, monotone in sigma)',
    'floating-point error',
]

K = 'taurex/contributions/contribution.py'
T = 'taurex/model/transmission.py'
A = 'taurex/contributions/absorption.py'

KERNEL_PARAMS = ['startK', 'endK', 'density_offset', 'sigma', 'density', 'path',
                 'nlayers', 'ngrid', 'layer', 'tau']


def kernel_obligations(ix, R, pfx, site, params, integrand, what):
    """Shared with C03/C20: a tau-accumulation kernel of the form
    for k in [startK,endK): for wn in [0,ngrid): tau[layer,wn] += integrand."""
    stmt_acc = 'tau is written only by += at [layer, wn] (%s)' % what
    stmt_alg = 'integrand == %s over k in [startK,endK), wn in [0,ngrid)' % integrand
    with R.guard(pfx + '.acc', 'ACC', site, stmt_acc):
        f = ix.func(site)
        fl = mkflow(ix, site)
        env = param_env(fl, f, params)
        tau = env['tau']
        stores = [e for e in fl.of('store')
                  if isinstance(e.target, RF) and _base_is(fl, e.target, tau)]
        rebinds = [e for e in fl.of('assign') + fl.of('aug')
                   if fl.tab.equal(fl.tab.name(e.name), tau)]
        bad = [e for e in stores if e.op != 'Add'] + rebinds
        R.check(pfx + '.acc', 'ACC', site, stmt_acc,
                len(stores) >= 1 and not bad,
                key='non-accumulating write: %s' % '; '.join(
                    unparse(e.node) for e in bad) if bad else 'no write to tau',
                detail='tau must only be accumulated into; found %s' % (
                    [unparse(e.node) for e in bad] or 'no store at all'),
                loc=f.loc(bad[0].node) if bad else f.loc(),
                extracted=[unparse(e.node) for e in stores])
        st = one(stores, 'store into tau')
        with R.guard(pfx + '.alg', 'ALG', site, stmt_alg):
            env2 = dict(env)
            lps = [l for l in st.loops]
            if len(lps) != 2 or any(l.kind != 'range' for l in lps):
                raise AnalysisError('accumulation is not inside a 2-deep range '
                                    'loop nest (found %d loops)' % len(lps))
            env2['k'] = lps[0].index
            env2['wn'] = lps[1].index
            tgt_ok = fl.tab.equal(st.target, spec(fl, 'tau[layer, wn]', env2))
            val = spec(fl, integrand, env2)
            val_ok = fl.tab.equal(st.value, val)
            lo_ok = loop_matches(fl, lps[0], 'startK', 'endK', env2)
            wn_ok = loop_matches(fl, lps[1], '0', 'ngrid', env2)
            why = []
            if st.guards:
                why.append('accumulation is conditional on %s' % ' and '.join(g.text() for g in st.guards))
            if not tgt_ok:
                why.append('target is %s' % fmt(fl, st.target))
            if not val_ok:
                why.append('integrand is %s, expected %s' % (
                    fmt(fl, st.value), fmt(fl, val)))
            if not lo_ok:
                why.append('layer loop is range(%s, %s, %s)' % tuple(
                    fmt(fl, x) for x in lps[0].range_args))
            if not wn_ok:
                why.append('wavenumber loop is range(%s, %s, %s)' % tuple(
                    fmt(fl, x) for x in lps[1].range_args))
            R.check(pfx + '.alg', 'ALG', site, stmt_alg, not why,
                    key='; '.join(why), detail='; '.join(why),
                    loc=f.loc(st.node), extracted=fmt(fl, st.value))


def _base_is(fl, target, base):
    at = atom_of(fl, target)
    return at is not None and at.head == 'idx' and fl.tab.equal(at.args[0], base)


def arg_roles(R, oid, site, stmt, fl, ev, callee_params, roles, f, bind=None,
              drop_self=False):
    """roles: {callee param: spec string}.  Each must normalise to the actual."""
    got = bind_call(ev, callee_params, drop_self)
    why = []
    for p, s in roles.items():
        if p not in got:
            why.append('%s not passed' % p)
            continue
        want = spec(fl, s, bind)
        if not fl.tab.equal(got[p], want):
            why.append('%s <- %s (expected %s)' % (p, fmt(fl, got[p]),
                                                   fmt(fl, want)))
    R.check(oid, 'ARG', site, stmt, not why, key='; '.join(why),
            detail='; '.join(why), loc=f.loc(ev.node),
            extracted={p: fmt(fl, v) for p, v in got.items()})


CONTRIB_PARAMS = ['self', 'model', 'start_layer', 'end_layer', 'density_offset',
                  'layer', 'density', 'tau', 'path_length']


def caller_obligations(ix, R, pfx='2'):
    """Contribution.contribute / AbsorptionContribution.contribute forward their arguments to the kernel (shared with C03)."""
    # ---- 2. callers of the kernel
    site = K + '::Contribution.contribute'
    stmt = 'contribute() forwards its arguments to the matching kernel roles'
    with R.guard(pfx + '.base', 'ARG', site, stmt):
        f = ix.func(site)
        fl = mkflow(ix, site)
        ev = one(calls(fl, 'contribute_tau'), 'call of contribute_tau')
        b = param_env(fl, f, CONTRIB_PARAMS[1:])
        if ev.guards or ev.loops:
            R.fail(pfx + '.base.uncond', 'DOM', site,
                   'kernel call is unconditional', 'conditional kernel call',
                   'call is under %s' % [g.text() for g in ev.guards],
                   f.loc(ev.node))
        else:
            R.ok(pfx + '.base.uncond', 'DOM', site, 'kernel call is unconditional')
        arg_roles(R, pfx + '.base', site, stmt, fl, ev,
                  ix.func(K + '::contribute_tau').params(),
                  {'startK': 'start_layer', 'endK': 'end_layer',
                   'density_offset': 'density_offset',
                   'sigma': 'self.sigma_xsec', 'density': 'density',
                   'path': 'path_length', 'ngrid': 'self._ngrid',
                   'layer': 'layer', 'tau': 'tau'}, f, b)
    site = A + '::AbsorptionContribution.contribute'
    stmt = 'cross-section branch forwards all arguments unchanged to Contribution.contribute'
    with R.guard(pfx + '.abs', 'ARG', site, stmt):
        f = ix.func(site)
        fl = mkflow(ix, site)
        b = param_env(fl, f, CONTRIB_PARAMS[1:])
        evs = [e for e in calls(fl, 'contribute')
               if unparse(e.node.func).startswith('super()')]
        ev = one(evs, 'super().contribute call')
        g = [x for x in ev.guards]
        okg = len(g) == 1 and not g[0].positive and \
            fl.tab.equal(g[0].rf, code(fl, 'self._use_ktables'))
        R.check(pfx + '.abs.branch', 'GUARD', site,
                'cross-section kernel is used exactly when k-tables are off',
                okg, key='guard: ' + ' and '.join(x.text() for x in g),
                detail='super().contribute is guarded by %s' % [x.text() for x in g],
                loc=f.loc(ev.node))
        arg_roles(R, pfx + '.abs', site, stmt, fl, ev, CONTRIB_PARAMS,
                  {p: p for p in CONTRIB_PARAMS[1:]}, f, b, drop_self=True)



def run(ix, R):
    _run(ix, R)
    from rules.common import memo_obligation
    memo_obligation(ix, R, 'M.memo', ['taurex/model/transmission.py', 'taurex/contributions/contribution.py', 'taurex/contributions/absorption.py'], 'the transmission path')


def _run(ix, R):
    # ---- 1. kernel
    kernel_obligations(ix, R, '1', K + '::contribute_tau', KERNEL_PARAMS,
                       'sigma[k+layer, wn]*path[k]*density[k+density_offset]',
                       'cross-section kernel')

    caller_obligations(ix, R, '2')

    # ---- 3. path_integral
    site = T + '::TransmissionModel.path_integral'
    with R.guard('3', 'ARG', site, 'path_integral structure'):
        f = ix.func(site)
        fl = mkflow(ix, site)
        wn = fl.tab.name(f.params()[1])
        b = {'wngrid': wn}
        ev = one([e for e in calls(fl, 'contribute')], 'contribute call')
        # 3.1 tau allocation
        tau = bind_call(ev, CONTRIB_PARAMS, True).get('tau')
        at = atom_of(fl, unalloc(fl, tau)) if tau is not None else None
        stmt = 'tau is a fresh zero array of shape (nLayers, len(wngrid))'
        ok = False
        if at is not None and at.head == 'call' and at.extra[0] == 'fn:zeros':
            shape = call_kw(at, 'shape', 0)
            want = spec(fl, '(self.nLayers, wngrid.shape[0])', b)
            ok = shape is not None and fl.tab.equal(shape, want)
        R.check('3.alloc', 'ACC', site, stmt, ok,
                key='tau passed is %s' % fmt(fl, tau),
                detail='tau handed to contribute() is %s' % fmt(fl, tau),
                loc=f.loc(ev.node), extracted=fmt(fl, tau))
        # tau must not be re-assigned / reset inside the loops
        resets = [e for e in fl.of('store') if _base_is(fl, e.target, tau) and e.loops] \
            if tau is not None else []
        R.check('3.noreset', 'ACC', site,
                'tau is not overwritten inside the layer loop', not resets,
                key='; '.join(unparse(e.node) for e in resets),
                detail='tau is stored to inside the loop: %s' % [
                    unparse(e.node) for e in resets],
                loc=f.loc(resets[0].node) if resets else None)
        # 3.2 loops
        lps = ev.loops
        stmt = ('contribute is called for every layer in [0,nLayers) and every '
                'member of contribution_list')
        okl = (len(lps) == 2 and lps[0].kind == 'range' and
               loop_matches(fl, lps[0], '0', 'self.nLayers') and
               lps[1].kind == 'iter' and
               fl.tab.equal(lps[1].iter_rf[0], code(fl, 'self.contribution_list')))
        R.check('3.loops', 'SHAPE', site, stmt, okl,
                key='loops: %s' % [unparse(l.iter_ast) for l in lps],
                detail='loop nest is %s' % [unparse(l.iter_ast) for l in lps],
                loc=f.loc(ev.node))
        if len(lps) == 2 and lps[0].kind == 'range':
            b['layer'] = lps[0].index
            recv_ok = ev.recv_rf is not None and fl.tab.equal(ev.recv_rf,
                                   fl.tab.atom('elem', (lps[1].iter_rf[0], lps[1].index)))
            R.check('3.recv', 'ARG', site,
                    'the receiver of contribute is the loop member', recv_ok,
                    key='receiver %s' % unparse(ev.recv),
                    detail='receiver is %s' % unparse(ev.recv), loc=f.loc(ev.node))
            # 3.3 roles
            got = bind_call(ev, CONTRIB_PARAMS, True)
            roles = {'start_layer': '0', 'end_layer': 'self.nLayers - layer',
                     'density_offset': 'layer', 'layer': 'layer',
                     'density': 'self.densityProfile'}
            arg_roles(R, '3.roles', site,
                      'contribute(start=0, end=nLayers-layer, density_offset=layer, '
                      'layer=layer, density=densityProfile)', fl, ev,
                      CONTRIB_PARAMS, roles, f, b, drop_self=True)
            # 3.4 path length: element `layer` of the chosen method's result
            pl = got.get('path_length')
            stmt = ('path_length = (compute_path_length() if new_method else '
                    'compute_path_length_old(deltaz))[layer]')
            okp = False
            pat = atom_of(fl, pl) if pl is not None else None
            if pat is not None and pat.head == 'idx' and len(pat.args) == 2 \
                    and isinstance(pat.args[1], RF) and \
                    fl.tab.equal(pat.args[1], b['layer']):
                g = atom_of(fl, pat.args[0])
                new = code(fl, 'self.compute_path_length()')
                old = code(fl, 'self.compute_path_length_old(self.deltaz)')
                if g is not None and g.head == 'guard':
                    okp = (fl.tab.equal(g.args[0], code(fl, 'self.new_method'))
                           and fl.tab.equal(g.args[1], new)
                           and fl.tab.equal(g.args[2], old))
                else:
                    okp = fl.tab.equal(pat.args[0], old) or \
                        fl.tab.equal(pat.args[0], new)
            R.check('3.path', 'ARG', site, stmt, okp,
                    key='path_length <- %s' % fmt(fl, pl),
                    detail='path_length argument is %s' % fmt(fl, pl),
                    loc=f.loc(ev.node), extracted=fmt(fl, pl))
        # ---- 4. licensed cut-off
        stmt = ('a contribution is skipped only by `break` under '
                'min over the current layer row > c, c >= 10')
        skips = fl.of('break') + fl.of('continue') + \
            [e for e in fl.of('return') if e.loops]
        why = []
        for s in skips:
            if s.kind != 'break':
                why.append('%s inside the loop' % s.kind)
                continue
            g = s.guards[-1] if s.guards else None
            if g is None or not g.positive:
                why.append('unguarded break')
                continue
            why.extend(_cutoff_test(fl, g, b.get('layer'), tau))
        # the contribute call itself may only be guarded by the negated cut-off
        for g in ev.guards:
            if not any(g.node is s.guards[-1].node for s in skips if s.guards):
                why.append('contribute() is additionally guarded by %s' % g.text())
        R.check('4.cutoff', 'GUARD', site, stmt, not why, key='; '.join(why),
                detail='; '.join(why),
                loc=f.loc(skips[0].node) if skips else f.loc(),
                extracted=[g.text() for s in skips for g in s.guards[-1:]])
        # ---- 5.0 compute_absorption is fed (tau, deltaz)
        stmt = 'path_integral returns compute_absorption(tau, deltaz)'
        ca = one(calls(fl, 'compute_absorption'), 'compute_absorption call')
        got = bind_call(ca, ['self', 'tau', 'dz'], True)
        ok5 = tau is not None and fl.tab.equal(got.get('tau'), tau) and \
            fl.tab.equal(got.get('dz'), code(fl, 'self.deltaz')) and \
            not ca.loops and not ca.guards
        rets = fl.of('return')
        if ok5:
            r = one(rets, 'return')
            res = code(fl, 'self.compute_absorption(TAU, self.deltaz)')
            # first element of the returned tuple is item 0 of the call
            rat = atom_of(fl, r.value)
            ok5 = rat is not None and rat.head == 'tuple' and len(rat.args) == 2
            if ok5:
                a0 = atom_of(fl, rat.args[0])
                ok5 = a0 is not None and a0.head == 'idx' and \
                    a0.args[1].const() == 0 and \
                    atom_of(fl, a0.args[0]) is not None and \
                    atom_of(fl, a0.args[0]).extra[0] == 'fn:self.compute_absorption'
        R.check('5.feed', 'ARG', site, stmt, ok5,
                key='compute_absorption(%s)' % ', '.join(fmt(fl, v) for v in got.values()),
                detail='compute_absorption is called with %s' % {
                    k: fmt(fl, v) for k, v in got.items()}, loc=f.loc(ca.node))

    # ---- 5. compute_absorption
    site = T + '::TransmissionModel.compute_absorption'
    stmt = ('returns ((Rp^2 + sum_layers (Rp+z)(1-exp(-tau)) dz 2)/Rs^2, exp(-tau)), '
            'sum over the layer axis')
    with R.guard('5.alg', 'ALG', site, stmt):
        f = ix.func(site)
        fl = mkflow(ix, site)
        b = param_env(fl, f, ['tau', 'dz'])
        b.update(Rp=code(fl, 'self._planet.fullRadius'),
                 z=code(fl, 'self.altitudeProfile'),
                 Rs=code(fl, 'self._star.radius'))
        r = the_return(fl)
        want = spec(fl, '((Rp**2 + sum((Rp+z)*(1-exp(-tau))*dz*2, axis=0))/Rs**2, '
                        'exp(-tau))', b)
        ok = fl.tab.equal(r.value, want)
        R.check('5.alg', 'ALG', site, stmt, ok,
                key='returns %s' % fmt(fl, r.value),
                detail='returns %s\n    expected %s' % (fmt(fl, r.value),
                                                      fmt(fl, want)),
                loc=f.loc(r.node), extracted=fmt(fl, r.value))

    # ---- 6. chord arrays
    site = T + '::TransmissionModel.compute_path_length_old'
    with R.guard('6', 'SHAPE', site, 'chord arrays'):
        chord_obligations(ix, R, site)
    with R.guard('6.viewer', 'ARG', T + '::TransmissionModel.compute_path_length', '3-D path viewer'):
        viewer_obligations(ix, R)


def _cutoff_test(fl, g, layer, tau):
    """Reasons why guard g is not the licensed `min(tau[layer]) > c>=10`."""
    at = atom_of(fl, g.rf)
    if at is None or at.head != 'cmp' or len(at.args) != 2:
        return ['cut-off test %s is not a single comparison' % g.text()]
    op = at.extra[0]
    left, right = at.args
    if op in ('Lt', 'LtE'):
        left, right = right, left
        op = {'Lt': 'Gt', 'LtE': 'GtE'}[op]
    if op not in ('Gt', 'GtE'):
        return ['cut-off comparison is %s' % g.text()]
    c = right.const()
    if c is None or c < 10:
        return ['cut-off threshold %s is below the licensed 10' % fl.tab.fmt(right)]
    la = atom_of(fl, left)
    if la is None or la.head != 'call' or la.extra[0] not in ('fn:min', 'fn:amin', 'fn:nanmin'):
        return ['cut-off aggregates with %s instead of min over wavenumber' %
                fl.tab.fmt(left)]
    if len(la.args) != 1:
        return ['min has extra arguments: %s' % fl.tab.fmt(left)]
    row = atom_of(fl, la.args[0])
    ok = (row is not None and row.head == 'idx' and len(row.args) == 2 and
          tau is not None and fl.tab.equal(row.args[0], tau) and
          layer is not None and isinstance(row.args[1], RF) and
          fl.tab.equal(row.args[1], layer))
    if not ok:
        return ['cut-off tests %s, not the current layer row of tau' %
                fl.tab.fmt(la.args[0])]
    return []


def viewer_obligations(ix, R):
    """3-D path-length method: the lines of sight start outside the atmosphere.  compute_intersection_3d clips a chord
    at the viewer, so parallel_vector must be told the top of the very shells it is intersected with (max_alt is the
    maximum of the boundaries handed to compute_path_length), wherever in the call closure the rays are built."""
    from sa.callgraph import CallGraph
    root = ix.func(T + '::TransmissionModel.compute_path_length')
    pv = ix.func('taurex/util/geometry.py::parallel_vector')
    cg = CallGraph(ix, ('taurex/model/', 'taurex/data/planet.py'))
    found = 0
    for f, par in sorted(cg.reach([root]).values(), key=lambda t: t[0].site):
        if f.name == 'compute_path_length_old' or f.name == 'path_integral':
            continue
        fl = mkflow(ix, f)
        for e in calls(fl, 'parallel_vector'):
            found += 1
            got = bind_call(e, pv.params())
            why = []
            cps = [c for c in fl.of('call') if c.name in ('compute_path_length', 'compute_path_length_3d') and c.args]
            if 'max_alt' not in got:
                why.append('max_alt is left at its default (1e5 m): shells above it are clipped at the viewer')
            else:
                at = atom_of(fl, got['max_alt'])
                arg = at.args[0] if at is not None and at.head in ('call', 'mcall') and at.extra and \
                    at.extra[0] in ('fn:max', 'fn:amax', 'fn:nanmax') and len(at.args) == 1 else None
                if arg is None:
                    why.append('max_alt = %s is not the maximum of the shell boundaries' % fmt(fl, got['max_alt']))
                elif not cps or not any(fl.tab.equal(arg, c.args[0]) for c in cps):
                    why.append('max_alt is the maximum of %s, the shells intersected are %s' % (
                        fmt(fl, arg), [fmt(fl, c.args[0]) for c in cps]))
            rad = got.get('R')
            if rad is None or not (fl.tab.equal(rad, code(fl, 'self.planet.fullRadius')) or
                                   fl.tab.equal(rad, code(fl, 'self.fullRadius'))):
                why.append('sphere radius is %s' % fmt(fl, rad))
            if e.guards or e.loops:
                why.append('rays are built conditionally')
            R.check('6.viewer', 'ARG', f.site,
                    'parallel_vector(planet radius, tangent altitudes, max of the shell boundaries that are intersected): '
                    'the viewer lies outside the atmosphere',
                    not why, key='; '.join(why), detail='; '.join(why), loc=f.loc(e.node))
    if not found:
        R.error('6.viewer', 'ARG', root.site, 'the construction of the lines of sight is found in the call closure of '
                'compute_path_length', 'no parallel_vector call reachable')


def chord_obligations(ix, R, site):
    f = ix.func(site)
    # the planet radius and the first layer thickness are scalars; dz and z are per-layer arrays
    fl = mkflow(ix, site, scalars=['self._planet.fullRadius', '%s[0]' % f.params()[1]])
    dz = fl.tab.name(f.params()[1])
    # one append per layer of 2*k
    apps = [e for e in calls(fl, 'append')]
    ap = one(apps, 'append')
    lp = ap.loops
    ok = len(lp) == 1 and loop_matches(fl, lp[0], '0', 'self.nLayers')
    R.check('6.loop', 'SHAPE', site, 'one chord array per tangent layer in [0,nLayers)',
            ok, key='loop %s' % [unparse(l.iter_ast) for l in lp],
            detail='append is under loops %s' % [unparse(l.iter_ast) for l in lp],
            loc=f.loc(ap.node))
    layer = lp[0].index if lp else None
    karr = ap.args[0]
    # k = zeros(shape=(nLayers-layer)) ; appended value is 2*k
    k_alloc = None
    for e in fl.of('assign'):
        a = atom_of(fl, unalloc(fl, e.value))
        if a is not None and a.head == 'call' and a.extra[0] == 'fn:zeros' and e.loops:
            k_alloc = e
    if k_alloc is None:
        raise AnalysisError('chord array allocation not found')
    a = atom_of(fl, unalloc(fl, k_alloc.value))
    shape = call_kw(a, 'shape', 0)
    R.check('6.len', 'SHAPE', site, 'chord array of tangent layer l has nLayers-l entries',
            fl.tab.equal(shape, spec(fl, 'self.nLayers - layer', {'layer': layer})),
            key='length %s' % fmt(fl, shape), detail='length is %s' % fmt(fl, shape),
            loc=f.loc(k_alloc.node), extracted=fmt(fl, shape))
    R.check('6.scale', 'ALG', site, 'appended chord is 2 x the half-chord array',
            fl.tab.proportional(karr, k_alloc.value) == 2,
            key='appends %s' % fmt(fl, karr), detail='appends %s' % fmt(fl, karr),
            loc=f.loc(ap.node))
    # every sqrt in the iteration has the form (X)^2 - p with the same p, and
    # X = Rp + dz[0]/2 + z[i] + dz[i]/2 with matching i
    b = {'Rp': code(fl, 'self._planet.fullRadius'), 'z': code(fl, 'self.altitudeProfile'),
         'dz': dz, 'layer': layer, 'N': code(fl, 'self.nLayers')}
    p = spec(fl, '(Rp + dz[0]/2 + z[layer])**2', b)
    stores = [e for e in fl.of('store') if e.loops]
    want = [
        ('k[0]', 'Assign', 'sqrt((Rp + dz[0]/2 + z[layer] + dz[layer]/2)**2 - P)'),
        ('k[1:]', 'Assign', 'sqrt((Rp + dz[0]/2 + z[layer+1:] + dz[layer+1:]/2)**2 - P)'),
        ('k[1:]', 'Add', '-sqrt((Rp + dz[0]/2 + z[layer:N-1] + dz[layer:N-1]/2)**2 - P)'),
    ]
    b['P'] = p
    b['k'] = k_alloc.value
    why = []
    if len(stores) != len(want):
        # another way of filling the array (one difference of two slices of a precomputed half-chord, a loop ...):
        # not read by this rule
        raise AnalysisError('%d stores into the chord array; this rule reads the three-statement form (first shell, '
                            'outer half-chords, minus inner half-chords)' % len(stores))
    else:
        for e, (tg, op, val) in zip(stores, want):
            eop = 'Assign' if e.op is None else e.op
            if eop != op or not fl.tab.equal(e.target, spec(fl, tg, b)) or \
                    not fl.tab.equal(e.value, spec(fl, val, b)):
                why.append('%s' % unparse(e.node))
    from sa.helpers import implied_by_loop
    for e in stores + [ap, k_alloc]:
        if [g_ for g_ in e.guards if not implied_by_loop(fl, e, g_)]:
            why.append('%s is conditional on %s' % (unparse(e.node)[:40], ' and '.join(g.text() for g in e.guards)))
    R.check('6.geom', 'ALG', site,
            'shell chords: outer-boundary half-chord minus inner-boundary half-chord, '
            'all with the same tangent radius', not why, key='; '.join(why),
            detail='unexpected chord statements: %s' % why,
            loc=f.loc(stores[0].node) if stores else f.loc())


# ----------------------------------------------------------------------------
# self-test variants (DESIGN section 6)
MUTANTS = [
    ('kernel-drop-layer-offset', K, 'tau[layer, wn] += sigma[k + layer, wn] * _path * _density',
     'tau[layer, wn] += sigma[k, wn] * _path * _density', '1.alg'),
    ('kernel-drop-density-offset', K, "_density = density[k + density_offset]\n        for wn in range(ngrid):\n            tau[layer, wn] += sigma",
     "_density = density[k]\n        for wn in range(ngrid):\n            tau[layer, wn] += sigma", '1.alg'),
    ('kernel-assign', K, 'tau[layer, wn] += sigma[k + layer, wn] * _path * _density',
     'tau[layer, wn] = sigma[k + layer, wn] * _path * _density', '1.acc'),
    ('kernel-range', K, "for k in range(startK, endK):\n        _path = path[k]\n        _density = density[k + density_offset]\n        for wn in range(ngrid):\n            tau[layer, wn] += sigma",
     "for k in range(startK, endK - 1):\n        _path = path[k]\n        _density = density[k + density_offset]\n        for wn in range(ngrid):\n            tau[layer, wn] += sigma", '1.alg'),
    ('caller-swap-density-path', K, 'self.sigma_xsec, density, path_length, self._nlayers',
     'self.sigma_xsec, path_length, density, self._nlayers', '2.base'),
    ('pi-endK', T, 'endK = total_layers - layer', 'endK = total_layers - layer - 1', '3.roles'),
    ('pi-density-offset', T, 'contrib.contribute(self, 0, endK, layer, layer,',
     'contrib.contribute(self, 0, endK, 0, layer,', '3.roles'),
    ('pi-cutoff-max', T, 'if tau[layer].min() > 10:', 'if tau[layer].max() > 10:', '4.cutoff'),
    ('pi-cutoff-low', T, 'if tau[layer].min() > 10:', 'if tau[layer].min() > 1:', '4.cutoff'),
    ('pi-cutoff-lt', T, 'if tau[layer].min() > 10:', 'if tau[layer].min() < 10:', '4.cutoff'),
    ('pi-cutoff-whole', T, 'if tau[layer].min() > 10:', 'if tau.min() > 10:', '4.cutoff'),
    ('pi-continue', T, "if tau[layer].min() > 10:\n                    break", "if contrib.order > 4:\n                    continue", '4.cutoff'),
    ('pi-path-index', T, 'dl = path_length[layer]', 'dl = path_length[0]', '3.path'),
    ('pi-tau-reset', T, "dl = path_length[layer]", "dl = path_length[layer]\n            tau[layer] = 0.0", '3.noreset'),
    ('abs-drop-z', T, 'np.sum((pradius + ap) * (1.0 - tau) * _dz * 2.0, axis=0)',
     'np.sum(pradius * (1.0 - tau) * _dz * 2.0, axis=0)', '5.alg'),
    ('abs-axis', T, '* _dz * 2.0, axis=0)', '* _dz * 2.0, axis=1)', '5.alg'),
    ('abs-rs', T, '/ sradius ** 2, tau', '/ sradius, tau', '5.alg'),
    ('abs-sign', T, 'tau = np.exp(-tau)', 'tau = np.exp(tau)', '5.alg'),
    ('abs-dz-source', T, 'absorption, tau = self.compute_absorption(tau, dz)', 'absorption, tau = self.compute_absorption(tau, self.altitudeProfile)', '5.feed'),
    ('chord-len', T, 'k = np.zeros(shape=self.nLayers - layer)',
     'k = np.zeros(shape=self.nLayers - layer + 1)', '6.len'),
    ('chord-scale', T, 'dl.append(k * 2.0)', 'dl.append(k)', '6.scale'),
    ('chord-geom', T, 'z[layer:self.nLayers - 1] +', 'z[layer + 1:self.nLayers] +', '6.geom'),
]
EQUIVALENTS = [
    ('kernel-commute', K, 'tau[layer, wn] += sigma[k + layer, wn] * _path * _density', 'tau[layer, wn] += _density * sigma[layer + k, wn] * _path'),
    ('kernel-inline-temp', K, 'tau[layer, wn] += sigma[k + layer, wn] * _path * _density',
     'tau[layer, wn] += sigma[k + layer, wn] * path[k] * _density'),
    ('abs-np-math', T, 'integral = np.sum((pradius + ap) * (1.0 - tau) * _dz * 2.0, axis=0)',
     'integral = 2.0 * np.sum(_dz * (ap + self.planet.fullRadius) * (1.0 - tau), axis=0)'),
    ('abs-temp', T, 'return ((pradius ** 2.0 + integral) / sradius ** 2, tau)',
     'depth = (pradius * pradius + integral) / self.star.radius ** 2\n        return (depth, tau)'),
    ('pi-cutoff-np-min', T, 'if tau[layer].min() > 10:', 'if np.min(tau[layer]) > 10.0:'),
    ('pi-inline-endK', T, 'contrib.contribute(self, 0, endK, layer, layer,',
     'contrib.contribute(self, 0, self.nLayers - layer, layer, layer,'),
    ('pi-rename-loopvar', T, "for contrib in self.contribution_list:\n                if tau[layer].min() > 10:\n                    break\n                self.debug('Adding contribution from %s', contrib.name)\n                contrib.contribute(",
     "for cc in self.contribution_list:\n                if tau[layer].min() > 10:\n                    break\n                cc.contribute("),
]
# statements that implement an unconditional part of the documented behaviour: wrapped in an `if`
# (so that they may be skipped) each must be reported - generated and checked by the thorough tier
UNCONDITIONAL = [
    ('taurex/contributions/contribution.py', 'tau[layer, wn] += sigma[k + layer, wn]'),
    ('taurex/contributions/contribution.py', 'contribute_tau(start_layer'),
    ('taurex/model/transmission.py', 'k[0] = np.sqrt'),
    ('taurex/model/transmission.py', 'k[1:] = np.sqrt'),
    ('taurex/model/transmission.py', 'k[1:] -= np.sqrt'),
    ('taurex/model/transmission.py', 'dl.append(k * 2.0)'),
    ('taurex/model/transmission.py', 'contrib.contribute(self, 0, endK, layer, layer'),
    ('taurex/model/transmission.py', 'absorption, tau = self.compute_absorption(tau, dz)'),
]
