"""C08 Prior transforms are monotone inverse-CDF maps in the declared space."""
import ast

from sa.helpers import (validated, unlicensed, the_return, mkflow, spec, code, one, calls, bind_call, param_env,
                        fmt, atom_of, unparse, walk_no_nested)
from sa.helpers import guard_is
from sa.index import AnalysisError, ClassInfo

FLOOR = 16
PR = 'taurex/core/priors.py'
FI = 'taurex/util/fitting.py'
FA = 'taurex/parameter/factory.py'
CF = 'taurex/parameter/classfactory.py'
FILES = [PR, FI, FA, 'taurex/optimizer/optimizer.py']
EXPLANATION = (
    'Static rule conformance for priors: the sampling methods are scipy '
    'inverse-CDF calls with loc/scale equal to (min(bounds), max-min) / (mean, '
    'std); the back-transform is identity or 10**x by prior mode; the log '
    'variants set the mode after the base constructor and pass linear-space '
    'arguments only through log10; every concrete prior has the full interface; '
    'a prior string is turned into (class name, literal kwargs) and the class is '
    'called with exactly those kwargs; default priors derive from bounds/mode.')
ASSUMPTIONS = ['scipy.stats ppf is the inverse CDF and is monotone (library semantics)',
               'ast.literal_eval semantics']
NOT_DECIDED = ['scipy ppf semantics', 'numeric equivalence of text and direct construction beyond '
               'same class, same kwargs']


def stores(fl):
    return {fmt(fl, e.target): e for e in fl.of('store')}


def run(ix, R):
    _run(ix, R)
    from rules.common import memo_obligation
    memo_obligation(ix, R, 'M.memo', ['taurex/core/priors.py', 'taurex/util/fitting.py'], 'the priors')


def _run(ix, R):
    m = ix.module(PR)
    # `import scipy.stats as stats` and `from scipy import stats` bind the same module object
    R.check('1.scipy', 'TAB', PR, '`stats` is scipy.stats', m.imports.get('stats') in (('scipy.stats', None), ('scipy', 'stats')),
            key='stats -> %s' % (m.imports.get('stats'),), detail='stats is %s' % (m.imports.get('stats'),))
    # ---- Uniform
    site = PR + '::Uniform.set_bounds'
    with R.guard('1.uniform', 'ALG', site, 'uniform bounds'):
        f = ix.func(site)
        fl = mkflow(ix, site)
        pe = param_env(fl, f, ['b'])
        st = stores(fl)
        why = []
        want = {'self._low_bounds': spec(fl, 'min(*b)', pe), 'self._up_bounds': spec(fl, 'max(*b)', pe),
                'self._scale': spec(fl, 'self._up_bounds - self._low_bounds')}
        alt = {'self._low_bounds': spec(fl, 'min(b)', pe), 'self._up_bounds': spec(fl, 'max(b)', pe)}
        if 'self._low_bounds' in st and 'self._up_bounds' in st:
            # the width written with the two values themselves rather than with the attributes that hold them
            alt['self._scale'] = spec(fl, 'U - L', {'U': st['self._up_bounds'].value, 'L': st['self._low_bounds'].value})
        for k, w in want.items():
            if k not in st or not (fl.tab.equal(st[k].value, w) or
                                   (k in alt and fl.tab.equal(st[k].value, alt[k]))):
                why.append('%s = %s' % (k, fmt(fl, st[k].value) if k in st else None))
        for k, e in st.items():
            if e.guards or e.loops:
                why.append('%s is set conditionally' % k)
        order = [k for k in st]
        if order.index('self._scale') < max(order.index('self._low_bounds'), order.index('self._up_bounds')):
            why.append('scale computed before the bounds')
        R.check('1.uniform', 'ALG', site, 'low = min(bounds), up = max(bounds), scale = up - low (any order of the bounds)',
                not why, key='; '.join(why), detail='; '.join(why), loc=f.loc())
    site = PR + '::Uniform.__init__'
    with R.guard('1.uniform.init', 'DOM', site, 'constructor sets bounds'):
        f = ix.func(site)
        fl = mkflow(ix, site)
        pe = param_env(fl, f, ['b'])
        sb = [e for e in calls(fl, 'set_bounds')]
        ok = len(sb) == 1 and fl.tab.equal(sb[0].args[0], pe['b']) and not sb[0].guards[0:0] and \
            all(validated(g) for g in sb[0].guards)
        R.check('1.uniform.init', 'DOM', site, 'constructor hands its bounds to set_bounds', ok,
                key='set_bounds calls %d' % len(sb), detail='set_bounds(%s)' % [fmt(fl, a) for e in sb for a in e.args],
                loc=f.loc())
    for cls, fn, want, stmt in (
            ('Uniform', 'sample', 'stats.uniform.ppf(x, loc=self._low_bounds, scale=self._scale)',
             'Uniform.sample = uniform.ppf(x, loc=low, scale=up-low)'),
            ('Gaussian', 'sample', 'stats.norm.ppf(x, loc=self._loc, scale=self._scale)',
             'Gaussian.sample = norm.ppf(x, loc=mean, scale=std)'),
            ('Uniform', 'boundaries', '(self._low_bounds, self._up_bounds)', 'Uniform.boundaries = (low, up)')):
        site = PR + '::%s.%s' % (cls, fn)
        with R.guard('1.%s.%s' % (cls, fn), 'ALG', site, stmt):
            f = ix.func(site)
            fl = mkflow(ix, site)
            pe = param_env(fl, f, ['x']) if len(f.params()) > 1 else {}
            r = the_return(fl)
            # uniform and norm have no shape parameters: ppf(q, loc, scale) positionally is the keyword call
            wants = [want, want.replace('loc=', '').replace('scale=', '')]
            R.check('1.%s.%s' % (cls, fn), 'ALG', site, stmt,
                    any(fl.tab.equal(r.value, spec(fl, w_, pe)) for w_ in wants) and not r.guards,
                    key='returns %s' % fmt(fl, r.value), detail='returns %s' % fmt(fl, r.value), loc=f.loc(r.node))
    site = PR + '::Gaussian.__init__'
    with R.guard('1.gauss.init', 'ALG', site, 'gaussian parameters'):
        f = ix.func(site)
        fl = mkflow(ix, site)
        pe = param_env(fl, f, ['mean', 'std'])
        st = stores(fl)
        ok = '%s' % fmt(fl, st['self._loc'].value) == fmt(fl, pe['mean']) and \
            fl.tab.equal(st['self._scale'].value, pe['std']) and \
            not any(e.guards or e.loops for e in (st['self._loc'], st['self._scale']))
        R.check('1.gauss.init', 'ALG', site, 'loc = mean, scale = std', ok,
                key='loc %s scale %s' % (fmt(fl, st['self._loc'].value), fmt(fl, st['self._scale'].value)),
                detail='loc %s scale %s' % (fmt(fl, st['self._loc'].value), fmt(fl, st['self._scale'].value)),
                loc=f.loc())
    # ---- back-transform
    site = PR + '::Prior.prior'
    with R.guard('1.prior', 'ALG', site, 'back transform'):
        f = ix.func(site)
        fl = mkflow(ix, site)
        pe = param_env(fl, f, ['v'])
        rets = fl.of('return')
        why = []
        for r in rets:
            g = r.guards[-1]
            if len([x for x in r.guards if not x.early]) > 1 or len(r.guards) > 2:
                why.append('return under %s' % [x.text() for x in r.guards])
            lin = fl.tab.equal(g.rf, spec(fl, 'self._prior_mode is PriorMode.LINEAR')) == g.positive
            islog = fl.tab.equal(g.rf, spec(fl, 'self._prior_mode is PriorMode.LOG')) and g.positive
            if fl.tab.equal(g.rf, spec(fl, 'self._prior_mode is PriorMode.LOG')):
                lin = not g.positive
            want = pe['v'] if lin else spec(fl, '10**v', pe)
            if not fl.tab.equal(r.value, want):
                why.append('%s returns %s' % (g.text(), fmt(fl, r.value)))
        if len(rets) != 2:
            why.append('%d returns' % len(rets))
        R.check('1.prior', 'ALG', site, 'prior(value) = value in linear mode, 10**value in log mode',
                not why, key='; '.join(why), detail='; '.join(why), loc=f.loc())
    site = PR + '::Prior.__init__'
    with R.guard('2.base', 'DOM', site, 'base mode'):
        f = ix.func(site)
        fl = mkflow(ix, site)
        st = stores(fl)
        R.check('2.base', 'DOM', site, 'the base constructor sets LINEAR mode',
                'self._prior_mode' in st and fmt(fl, st['self._prior_mode'].value) == 'PriorMode.LINEAR' and
                not st['self._prior_mode'].guards,
                key='mode %s' % (fmt(fl, st['self._prior_mode'].value) if 'self._prior_mode' in st else None),
                detail='base mode store', loc=f.loc())
    # ---- log variants
    for cls, args in (('LogUniform', {'bounds': ('lin_bounds', '[math.log10(x) for x in lin_bounds]')}),
                      ('LogGaussian', {'mean': ('lin_mean', 'math.log10(lin_mean)'),
                                       'std': ('lin_std', 'math.log10(lin_std)')})):
        site = PR + '::%s.__init__' % cls
        with R.guard('2.%s' % cls, 'DOM', site, 'log variant'):
            f = ix.func(site)
            fl = mkflow(ix, site)
            sup = one([e for e in fl.of('call') if unparse(e.node.func) == 'super().__init__'], 'super().__init__')
            ms = [e for e in fl.of('store') if fmt(fl, e.target) == 'self._prior_mode']
            why = []
            if len(ms) != 1 or fmt(fl, ms[0].value) != 'PriorMode.LOG' or ms[0].guards:
                why.append('mode stores %s' % [unparse(e.node) for e in ms])
            elif fl.events.index(ms[0]) < fl.events.index(sup):
                why.append('LOG mode is assigned before super().__init__ (which resets it to LINEAR)')
            if sup.guards or sup.loops:
                why.append('conditional base constructor')
            R.check('2.%s.mode' % cls, 'DOM', site,
                    '%s sets LOG mode unconditionally after the base constructor' % cls,
                    not why, key='; '.join(why), detail='; '.join(why), loc=f.loc())
            why = []
            for kw, (lin, conv) in args.items():
                got = sup.kw.get(kw)
                p = fl.tab.name(kw)
                lp = fl.tab.name(lin)
                cv = spec(fl, conv)
                want = spec(fl, '_guard(L is not None, C, P)', {'L': lp, 'C': cv, 'P': p})
                if got is not None and fl.tab.equal(got, want):
                    continue
                # the same decision spelled otherwise: one guard on `<lin> is None`, the items of the converted sequence
                # (a list and a tuple of the same items are the same bounds: set_bounds takes min / max of them)
                ga = atom_of(fl, got) if got is not None else None
                if ga is not None and ga.head == 'guard':
                    a_, b_ = None, None
                    if fl.tab.equal(ga.args[0], spec(fl, 'L is None', {'L': lp})):
                        a_, b_ = ga.args[2], ga.args[1]
                    elif fl.tab.equal(ga.args[0], spec(fl, 'L is not None', {'L': lp})):
                        a_, b_ = ga.args[1], ga.args[2]
                    if a_ is None:
                        raise AnalysisError('%s <- %s: not decided by `%s is None`' % (kw, fmt(fl, got), lin))
                    if fl.tab.equal(fl.conv._iterand(a_), fl.conv._iterand(cv)) and fl.tab.equal(b_, p):
                        continue
                elif got is not None and got.mentions(lambda at: at.head == 'name' and at.args[0] == lin):
                    raise AnalysisError('%s <- %s: shape not recognised' % (kw, fmt(fl, got)))
                why.append('%s <- %s (expected %s when %s is given, else %s)' % (
                    kw, fmt(fl, got), conv, lin, kw))
            R.check('2.%s.args' % cls, 'ALG', site,
                    '%s: linear-space arguments reach the base constructor only through log10' % cls,
                    not why, key='; '.join(why), detail='; '.join(why), loc=f.loc(sup.node))
    # ---- 3. interface exhaustiveness
    base = ix.cls(PR + '::Prior')
    subs = ix.subclasses(base, strict=True)
    for c in subs:
        why = []
        for meth in ('sample', 'params', 'boundaries', 'prior'):
            fn = ix.lookup_method(c, meth)
            if fn is None:
                why.append('%s missing' % meth)
            elif fn.cls is base and meth != 'prior':
                why.append('%s is the abstract base implementation' % meth)
        R.check('3.iface', 'TAB', c.site, '%s implements sample/params/boundaries (and inherits prior)' % c.name,
                not why, key='; '.join(why), detail='; '.join(why))
    if len(subs) < 4:
        R.error('3.iface.count', 'TAB', PR, 'the four built-in priors exist', 'found %d' % len(subs))
    # ---- 4. text -> object
    site = FI + '::parse_priors'
    with R.guard('4.parse', 'ARG', site, 'parse'):
        f = ix.func(site)
        fl = mkflow(ix, site)
        pe = param_env(fl, f, ['s'])
        stmt = 'prior text -> (callee name, {keyword: literal_eval(value)}) with no renaming or defaults'
        r = the_return(fl)
        Fs = [spec(fl, 'ast.parse(s).body[0].value', pe),
              spec(fl, "getattr(ast.parse(s).body[0], 'value', None)", pe)]     # validated by an isinstance test afterwards
        names = ['F.func.id']
        dicts = ['{k_.arg: ast.literal_eval(k_.value) for k_ in F.keywords}',
                 'dict((k_.arg, ast.literal_eval(k_.value)) for k_ in F.keywords)',
                 'dict([(k_.arg, ast.literal_eval(k_.value)) for k_ in F.keywords])']
        ra = atom_of(fl, r.value)
        if ra is None or ra.head != 'tuple' or len(ra.args) != 2:
            R.error('4.parse', 'ARG', site, stmt, 'returns %s' % fmt(fl, r.value)[:160], loc=f.loc())
        else:
            okn = okd = False
            for F_ in Fs:
                b_ = dict(pe, F=F_)
                okn = okn or any(fl.tab.equal(ra.args[0], spec(fl, t_, b_)) for t_ in names)
                okd = okd or any(fl.tab.equal(ra.args[1], spec(fl, t_, b_)) for t_ in dicts)
            und = ra.args[1].mentions(lambda a: a.head in ('mutated', 'phi'))
            if not okd and und:
                R.error('4.parse', 'ARG', site, stmt, 'the argument dictionary is built by statements this rule cannot follow: %s' %
                        fmt(fl, ra.args[1])[:160], loc=f.loc())
            else:
                R.check('4.parse', 'ARG', site, stmt, okn and okd and not [g for g in getattr(r, 'guards', ()) if not validated(g)],
                        key=fmt(fl, r.value)[:160], detail='returns %s' % fmt(fl, r.value)[:300], loc=f.loc())
    site = FA + '::create_prior'
    with R.guard('4.create', 'ARG', site, 'create'):
        f = ix.func(site)
        fl = mkflow(ix, site)
        pe = param_env(fl, f, ['s'])
        why = []
        pp = one(calls(fl, 'parse_priors'), 'parse_priors call')
        if not fl.tab.equal(pp.args[0], pe['s']):
            why.append('parses %s' % fmt(fl, pp.args[0]))
        rets = fl.of('return')
        r = one(rets, 'return')
        # whatever the control flow, the object is built from the parsed keyword dictionary itself
        parsed0 = fl.tab.atom('call', tuple(pp.args), extra=('fn:parse_priors',))
        kw0 = fl.tab.atom('idx', (parsed0, fl.tab.const(1)))
        ca0 = atom_of(fl, r.value)
        if ca0 is not None and ca0.head == 'callexpr' and ca0.extra == ('**',) and not fl.tab.equal(ca0.args[1], kw0):
            R.fail('4.create', 'ARG', site,
                   'create_prior: the class whose name matches is called with exactly the keyword arguments parsed from the text',
                   'constructor arguments are %s' % fmt(fl, ca0.args[1])[:120],
                   'the prior is built with %s, not with the keyword dictionary parsed from the text: a value given in the '
                   'input file can be replaced or dropped on the way' % fmt(fl, ca0.args[1])[:160], f.loc(r.node))
            raise AnalysisError('constructor arguments are not the parsed ones; remaining obligations not evaluated')
        lp = one(r.loops, 'loop over prior classes')
        if fmt(fl, lp.iter_rf[0]) not in ('cf.priorKlasses', 'ClassFactory().priorKlasses',
                                          'alloc(ClassFactory(), cf#1).priorKlasses') and \
                'priorKlasses' not in unparse(lp.iter_ast):
            why.append('iterates %s' % unparse(lp.iter_ast))
        p = fl.tab.atom('elem', (lp.iter_rf[0], lp.index))
        parsed = fl.tab.atom('call', tuple(pp.args), extra=('fn:parse_priors',))
        nm = fl.tab.atom('idx', (parsed, fl.tab.const(0)))
        kw = fl.tab.atom('idx', (parsed, fl.tab.const(1)))
        ca = atom_of(fl, r.value)
        if ca is None or ca.head != 'callexpr' or not fl.tab.equal(ca.args[0], p) or \
                ca.extra != ('**',) or not fl.tab.equal(ca.args[1], kw):
            why.append('returns %s (expected the matched class called with **kwargs)' % fmt(fl, r.value))
        g = r.guards[-1] if r.guards else None
        gt = g.text() if g is not None else ''
        # the match: the parsed name is one of the spellings of the class name (as written / lower / upper)
        pn = fl.tab.atom('getattr', (p, '__name__'))
        wantg = spec(fl, 'n in (pn, pn.lower(), pn.upper())', {'n': nm, 'pn': pn})
        ga_ = atom_of(fl, g.rf) if g is not None and g.rf is not None else None
        okg = g is not None and guard_is(fl, g, wantg, True)
        if not okg and ga_ is not None and ga_.head == 'cmp' and ga_.extra == ('In',) and g.positive and \
                fl.tab.equal(ga_.args[0], nm):
            ta_ = atom_of(fl, ga_.args[1])
            okg = ta_ is not None and ta_.head == 'tuple' and any(fl.tab.equal(x, pn) for x in ta_.args) and \
                all(fl.tab.fmt(x).replace('.lower()', '').replace('.upper()', '') for x in ta_.args) and \
                all(x.mentions(lambda a: a.head == 'getattr' and a.args[1] == '__name__') for x in ta_.args)
        if not okg:
            why.append('match condition %s' % gt)
        if not fl.of('raise'):
            why.append('unknown prior name does not raise')
        R.check('4.create', 'ARG', site,
                'create_prior: class selected by name among the discovered prior classes, called with exactly '
                'the parsed kwargs; unknown name raises',
                not why, key='; '.join(why), detail='; '.join(why), loc=f.loc())
    site = CF + '::ClassFactory._collect_priors'
    with R.guard('4.collect', 'TAB', site, 'collection of prior classes'):
        f = ix.func(site)
        from sa.helpers import need
        from sa.pattern import find
        sb = ix.func(CF + '::ClassFactory.setup_batteries_included')
        b1, m1 = find(f.node, ['self._collect_classes(V_m, Prior)'])
        b2, m2 = find(sb.node, ['from taurex.core import priors', 'self._prior_klasses.update(self._collect_priors(priors))'])
        pk = ix.func(CF + '::ClassFactory.priorKlasses')
        b3, m3 = find(pk.node, ['return self._prior_klasses'])
        R.check('4.collect', 'TAB', site, 'priorKlasses = every Prior subclass of taurex.core.priors',
                b1 is not None and b2 is not None and b3 is not None, key='; '.join(m1 + m2 + m3),
                detail='missing %s' % (m1 + m2 + m3), loc=f.loc())
    # default prior (shared with C07.4)
    from rules.C07 import compile_fn
    compile_fn(ix, R)


MUTANTS = [
    ('uni-scale', PR, 'self._scale = self._up_bounds - self._low_bounds', 'self._scale = self._up_bounds', '1.uniform'),
    ('uni-min', PR, 'self._low_bounds = min(*bounds)', 'self._low_bounds = bounds[0]', '1.uniform'),
    ('uni-sample-loc', PR, 'return stats.uniform.ppf(x, loc=self._low_bounds, scale=self._scale)', 'return stats.uniform.ppf(x, loc=self._up_bounds, scale=self._scale)', '1.Uniform.sample'),
    ('uni-sample-cdf', PR, 'return stats.uniform.ppf(x, loc=self._low_bounds, scale=self._scale)', 'return stats.uniform.cdf(x, loc=self._low_bounds, scale=self._scale)', '1.Uniform.sample'),
    ('gauss-scale', PR, 'return stats.norm.ppf(x, loc=self._loc, scale=self._scale)', 'return stats.norm.ppf(x, loc=self._loc, scale=self._scale ** 2)', '1.Gaussian.sample'),
    ('prior-e', PR, 'return 10 ** value', 'return math.exp(value)', '1.prior'),
    ('prior-swap', PR, 'if self._prior_mode is PriorMode.LINEAR:', 'if self._prior_mode is PriorMode.LOG:', '1.prior'),
    ('loguniform-order', PR, "        super().__init__(bounds=bounds)\n        self._prior_mode = PriorMode.LOG", "        self._prior_mode = PriorMode.LOG\n        super().__init__(bounds=bounds)", '2.LogUniform.mode'),
    ('loggauss-nomode', PR, "        super().__init__(mean=mean, std=std)\n        self._prior_mode = PriorMode.LOG", "        super().__init__(mean=mean, std=std)", '2.LogGaussian.mode'),
    ('loguniform-ln', PR, 'bounds = [math.log10(x) for x in lin_bounds]', 'bounds = [math.log(x) for x in lin_bounds]', '2.LogUniform.args'),
    ('loggauss-raw', PR, 'mean = math.log10(lin_mean)', 'mean = lin_mean', '2.LogGaussian.args'),
    ('create-drop-args', FA, 'return p(**args)', 'return p()', '4.create'),
    ('parse-eval', FI, 'func_args = {kw.arg: ast.literal_eval(kw.value) for kw in actual_func.keywords}', 'func_args = {kw.arg: str(kw.value) for kw in actual_func.keywords}', '4.parse'),
    ('iface-drop', PR, "    def boundaries(self):\n        return (self.sample(0.1), self.sample(0.9))\n", "", '3.iface'),
]
EQUIVALENTS = [
    ('parse-rename', FI, r're:\bactual_func\b', 'call_node'),
    ('uni-scale-temp', PR, 'self._scale = self._up_bounds - self._low_bounds', 'self._scale = -self._low_bounds + self._up_bounds'),
    ('prior-pow', PR, 'return 10 ** value', 'return math.pow(10, value)'),
]
