"""C14 Opacity/CIA files of every supported format load to the same physical
table."""
import ast
import re

from sa.helpers import (the_return, guard_is, validated, unlicensed, mkflow, spec, code, one, calls, bind_call, param_env,
                        fmt, atom_of, unparse, walk_no_nested, unalloc)
from sa.index import AnalysisError, ClassInfo
from sa.algebra import RF, Slice, dotted

FLOOR = 30
OD = 'taurex/opacity/'
CA = 'taurex/cache/'
FILES = [OD, 'taurex/cia/', CA, 'taurex/util/util.py']
EXPLANATION = (
    'Static rule conformance for loaders and caches: every reader stores the '
    'pressure grid as (file value x to-Pascal factor), with the declared unit '
    'for the HDF5 formats; the Exo-Transmit reader converts wavelength to '
    'wavenumber, applies one argsort to the grid and to the last table axis '
    'and scales m2 to the cm2 that compute_opacity divides out; each cache '
    '__getitem__ serves the stored object, loading at most once; every function '
    'that writes a GlobalCache key which some loader passes to its constructor '
    'clears every cache fed by such a loader; discover() hands the mode it read '
    'to the constructor parameter of that name; molecule names come from '
    'sanitize_molecule_string or file metadata.')
ASSUMPTIONS = ['file contents and axis order inside data files', 'astropy unit conversion']
NOT_DECIDED = ['values and axis orientation inside data files', 'HITRAN unit factor',
               'changing a search path does not invalidate already loaded molecules (not stated by the property)']

READERS = [
    # (site of the loading method, pressure key expression, factor kind)
    (OD + 'pickleopacity.py::PickleOpacity._load_pickle_file', "self._spec_dict['p']", 'bar'),
    (OD + 'ktables/picklektable.py::PickleKTable._load_pickle_file', "self._spec_dict['p']", 'bar'),
    (OD + 'hdf5opacity.py::HDF5Opacity._load_hdf_file', "self._spec_dict['p'][:]", 'declared'),
    (OD + 'ktables/hdfktable.py::HDF5KTable._load_pickle_file', "self._spec_dict['p'][...].astype(np.float64)", 'declared'),
    (OD + 'exotransmit.py::ExoTransmitOpacity._load_exo_transmit', None, 'bar'),
]
CACHES = [(CA + 'opacitycache.py::OpacityCache', 'opacity_dict', 'load_opacity'),
          (CA + 'ktablecache.py::KTableCache', 'opacity_dict', 'load_opacity'),
          (CA + 'ciaacache.py::CIACache', 'cia_dict', 'load_cia')]


def _file_dicts(fl):
    """the values that stand for the opened file / unpickled dictionary: what is stored in self._spec_dict, and the
    attribute itself"""
    out = [spec(fl, 'self._spec_dict')]
    for e in fl.of('store'):
        if fmt(fl, e.target) == 'self._spec_dict' and e.value is not None and not any(fl.tab.equal(e.value, d) for d in out):
            out.append(e.value)
    if len(out) == 1:
        raise AnalysisError('the file is not kept in self._spec_dict')
    return out


_PASS_THROUGH = ('fn:allocate_as_shared', 'fn:astype')


def _entries_in(fl, rf, D):
    """[(factor RF as it appears in rf, key text)] for the atoms of rf that are an entry `file[key]` of the file,
    possibly passed through allocate_as_shared / astype (same values)"""
    out = []
    for a in sorted(rf.atoms()):
        at = fl.tab.atoms[a]
        inner = at
        while inner is not None and inner.head in ('call', 'mcall') and inner.extra and inner.extra[0] in _PASS_THROUGH \
                and inner.args and isinstance(inner.args[0], RF):
            inner = atom_of(fl, inner.args[0])
        if inner is not None and inner.head == 'idx' and len(inner.args) == 2 and isinstance(inner.args[0], RF) and \
                any(fl.tab.equal(inner.args[0], d) for d in D):
            ka = atom_of(fl, inner.args[1])
            if ka is not None and ka.head == 'const':
                from sa.algebra import RF as _RF, p_atom
                out.append((_RF(fl.tab, p_atom(a)), ka.args[0]))
    return out


def _declared_unit_of(fl, rf, D):
    """rf is file['p'].attrs['units'] for one of the values D that stand for the file"""
    a = atom_of(fl, rf)
    if a is None or a.head != 'idx' or fmt(fl, a.args[1]) != "'units'":
        return False
    b = atom_of(fl, a.args[0])
    if b is None or b.head != 'getattr' or b.args[1] != 'attrs':
        return False
    ent = _entries_in(fl, b.args[0], D)
    return len(ent) == 1 and ent[0][1] == "'p'" and fl.tab.equal(ent[0][0], b.args[0])


def _only_keyerror(try_node, ret_node):
    """`try: return <item>` whose handlers catch KeyError only and do not leave the function: the statements after the
    `try` run exactly when the key is missing"""
    if len(try_node.body) != 1 or try_node.body[0] is not ret_node or try_node.orelse or try_node.finalbody:
        return False
    for h in try_node.handlers:
        if h.type is None or unparse(h.type) != 'KeyError':
            return False
        if any(isinstance(x, (ast.Return, ast.Raise)) for st in h.body for x in ast.walk(st)):
            return False
    return bool(try_node.handlers)


def run(ix, R):
    _run(ix, R)
    from rules.common import memo_obligation
    memo_obligation(ix, R, 'M.memo', ['taurex/opacity/', 'taurex/cia/', 'taurex/cache/'], 'the opacity and CIA readers and caches')


def _run(ix, R):
    # ---- 1. pressure units
    for site, pexpr, kind in READERS:
        stmt = 'pressure grid = file value x factor to Pascal (%s)' % (
            '1e5 for bar' if kind == 'bar' else 'the unit declared in the file')
        with R.guard('1.pressure', 'SIB', site, stmt):
            f = ix.func(site)
            fl = mkflow(ix, site)
            st = [e for e in fl.of('store') if fmt(fl, e.target) == 'self._pressure_grid']
            s = one(st, 'pressure grid store')
            why = []
            D = _file_dicts(fl) if pexpr else []
            ent = _entries_in(fl, s.value, D) if pexpr else []
            if pexpr and len(ent) != 1:
                raise AnalysisError('the pressure grid is not computed from one entry of the file: %s' % fmt(fl, s.value))
            if pexpr and ent[0][1] != "'p'":
                why.append('pressure read from the entry %s of the file' % ent[0][1])
            if kind == 'bar':
                base = s.value / 100000
                if base.const() is not None or any(fl.tab.atoms[a].head == 'const' for a in base.atoms()):
                    why.append('pressure = %s' % fmt(fl, s.value))
                cst = [m for m in list(base.num.values()) + list(base.den.values())]
                if any(v != 1 for v in cst):
                    why.append('pressure scale is not 1e5: %s' % fmt(fl, s.value))
                if pexpr and not why and not fl.tab.equal(base, ent[0][0]):
                    why.append('pressure = %s, not the file pressures times 1e5' % fmt(fl, s.value))
            else:
                base = ent[0][0]
                # value = (file pressures) x (a factor that every assignment computes as Unit(declared unit).to(Pa))
                ratio = s.value / base
                ra = atom_of(fl, ratio)
                if ra is None or ra.head != 'phi' and ra.head not in ('mcall', 'call'):
                    why.append('pressure = %s, not the file pressures times one conversion factor' % fmt(fl, s.value))
                else:
                    if ra.head == 'phi':
                        vals = [e.value for e in fl.of('assign') if e.name == ra.args[0]]
                    else:
                        vals = [ratio]
                    if not vals:
                        why.append('no conversion factor')
                    for v in vals:
                        va = atom_of(fl, v)
                        okv = va is not None and va.head == 'mcall' and va.extra[0] == 'fn:to' and len(va.args) == 2 and \
                            fmt(fl, va.args[1]).endswith('Pa')
                        if okv:
                            ua = atom_of(fl, va.args[0])
                            okv = ua is not None and ua.head == 'call' and ua.extra[0].endswith('Unit') and ua.args and \
                                _declared_unit_of(fl, ua.args[0], D)
                        if not okv:
                            why.append('conversion factor is %s, not Unit(declared unit).to(Pa)' % fmt(fl, v))
            R.check('1.pressure', 'SIB', site, stmt, not why, key='; '.join(why), detail='; '.join(why), loc=f.loc(s.node))
    # exotransmit specifics
    site = OD + 'exotransmit.py::ExoTransmitOpacity._load_exo_transmit'
    with R.guard('1.exo', 'PERM', site, 'exotransmit'):
        f = ix.func(site)
        from sa.helpers import need, new_helpers_of
        from sa.pattern import find
        stmt_exo = ('Exo-Transmit: wavenumber = 1e-2/lambda(m); one argsort orders the grid and the last axis of the '
                    '(pressure, temperature, wavenumber) table; rows stored at [pressure, :, wavelength]; m2 -> cm2 (x 1e4)')
        rows_pat = '''
if V_arr2.shape[0] == 1:
    V_lc += 1
    V_pc = 0
else:
    self._xsec_grid[V_pc, :, V_lc] = V_arr2[1:] + 1e-60
    V_pc += 1
'''
        alloc_pat = ('self._xsec_grid = np.empty(shape=(self.pressureGrid.shape[0], self.temperatureGrid.shape[0], '
                     'self.wavenumberGrid.shape[0]))')
        full = ['V_wn.append(10000 * 1e-06 / V_arr[0])', 'V_wn = np.array(V_wn)', 'V_sort = V_wn.argsort()',
                'self._wavenumber_grid = V_wn[V_sort]', alloc_pat, rows_pat,
                'self._xsec_grid = self._xsec_grid[:, :, V_sort] * 10000']
        b_, _missing = find(f.node, full, None, nodes_out=[])
        if b_ is not None or new_helpers_of(f):
            need(R, '1.exo', 'PERM', site, stmt_exo, f, full, under=['V_arr.shape[0] == 1'])
        else:
            # the statements are written differently: decide the same facts on the values the flow computes.  The
            # row-filling loop (two counters driven by the one-entry rows) is still matched as statements.
            _exo_by_value(ix, R, site, f, stmt_exo, [alloc_pat, rows_pat])
    # table / grid keys for the dictionary formats
    for site, keys in ((OD + 'pickleopacity.py::PickleOpacity._load_pickle_file',
                        {'self._wavenumber_grid': "'wno'", 'self._temperature_grid': "'t'", 'self._xsec_grid': "'xsecarr'"}),
                       (OD + 'ktables/picklektable.py::PickleKTable._load_pickle_file',
                        {'self._wavenumber_grid': "'bin_centers'", 'self._temperature_grid': "'t'", 'self._xsec_grid': "'kcoeff'",
                         'self._weights': "'weights'"}),
                       (OD + 'hdf5opacity.py::HDF5Opacity._load_hdf_file',
                        {'self._wavenumber_grid': "'bin_edges'", 'self._temperature_grid': "'t'", 'self._xsec_grid': "'xsecarr'"}),
                       (OD + 'ktables/hdfktable.py::HDF5KTable._load_pickle_file',
                        {'self._wavenumber_grid': "'bin_centers'", 'self._temperature_grid': "'t'", 'self._xsec_grid': "'kcoeff'",
                         'self._weights': "'weights'"})):
        with R.guard('1.keys', 'TAB', site, 'keys'):
            f = ix.func(site)
            fl = mkflow(ix, site)
            bad = []
            D = _file_dicts(fl)
            for attr, key in keys.items():
                es = [e for e in fl.of('store') if fmt(fl, e.target) == attr]
                if not es:
                    raise AnalysisError('%s is not stored' % attr)
                for e in es:
                    ent = _entries_in(fl, e.value, D)
                    if len(ent) != 1:
                        raise AnalysisError('%s is not computed from one entry of the file: %s' % (attr, fmt(fl, e.value)))
                    if ent[0][1] != key:
                        bad.append('%s <- the entry %s of the file' % (attr, ent[0][1]))
                    elif not fl.tab.equal(e.value, ent[0][0]):
                        c_ = (e.value / ent[0][0]).const()
                        if c_ is None:
                            raise AnalysisError('%s = %s' % (attr, fmt(fl, e.value)))
                        bad.append('%s is rescaled: %s' % (attr, fmt(fl, e.value)))
            R.check('1.keys', 'TAB', site, 'grids, table and weights are read from their own keys without rescaling',
                    not bad, key='; '.join(bad), detail='; '.join(bad), loc=f.loc())
    # ---- 2. cache typestate
    for csite, dct, loader in CACHES:
        site = csite + '.__getitem__'
        with R.guard('2.cache', 'DOM', site, 'cache'):
            f = ix.func(site)
            fl = mkflow(ix, site)
            pe = param_env(fl, f, ['k'])
            rets = fl.of('return')
            why = []
            item = spec(fl, 'self.%s[k]' % dct, pe)
            if not rets or not all(fl.tab.equal(r.value, item) for r in rets):
                why.append('returns %s' % [fmt(fl, r.value) for r in rets])
            member = spec(fl, 'k in self.%s' % dct, pe)
            ld = [e for e in calls(fl, loader)]
            if len(ld) > 1:
                raise AnalysisError('%d calls of %s' % (len(ld), loader))
            first = fl.events.index(ld[0]) if ld else len(fl.events)
            before = [r for r in rets if fl.events.index(r) < first]
            # the hit path, in either spelling: `if k in d: return d[k]`, or `try: return d[k]` / `except KeyError: <fall through>`
            # (for the `if` spelling the textual order of the two branches does not matter)
            hit_if = [r for r in rets if len(r.guards) == 1 and guard_is(fl, r.guards[0], member, True)]
            hit_try = [r for r in before if not r.guards and r.trys and _only_keyerror(r.trys[-1], r.node)]
            if len(hit_if) + len(hit_try) != 1:
                odd = [r for r in before if r not in hit_if and r not in hit_try and
                       not any(guard_is(fl, g_, member, False) for g_ in r.guards)]
                if odd and not all(r.guards and r.guards[0].rf is not None and fmt(fl, r.guards[0].rf) in ('False', 'True')
                                   for r in odd):
                    raise AnalysisError('the path that serves a stored object is not recognised: %s' % [
                        [g.text() for g in r.guards] for r in odd])
                why.append('no direct hit path')
            if not ld:
                why.append('%s() is never called: a molecule that is not loaded yet is not looked for' % loader)
            elif hit_try and not hit_if:
                if any(g.rf is not None and fl.tab.equal(g.rf, member) and g.positive for g in ld[0].guards):
                    why.append('%s() is not confined to the miss path' % loader)
            elif not ld[0].guards or not guard_is(fl, ld[0].guards[0], member, False):
                why.append('%s() is not confined to the miss path' % loader)
            if ld:
                kw = ld[0].kw
                flt = kw.get('molecule_filter') or kw.get('pair_filter')
                if flt is None or not fl.tab.equal(flt, fl.tab.atom('tuple', (pe['k'],))):
                    why.append('loader filter is %s' % fmt(fl, flt))
            if not fl.of('raise'):
                why.append('a miss after loading does not raise')
            ctor = [e for e in fl.of('call') if e.name and e.name[0].isupper() and e.name not in ('Exception', 'GlobalCache')]
            if ctor:
                why.append('constructs %s per request' % [e.name for e in ctor])
            R.check('2.cache', 'DOM', site,
                    '__getitem__: return the stored object on a hit; on a miss load once with a filter for this key, '
                    'then serve from the dictionary or raise; nothing is constructed per request',
                    not why, key='; '.join(why), detail='; '.join(why), loc=f.loc())
    for csite, dct, loader in CACHES[:2]:
        site = csite + '.add_opacity'
        with R.guard('2.once', 'DOM', site, 'load once'):
            f = ix.func(site)
            fl = mkflow(ix, site)
            pe = param_env(fl, f, ['op', 'flt'])
            sts = [e for e in fl.of('store')]
            why = []
            for e in sts:
                if not any(guard_is(fl, g, spec(fl, 'op.moleculeName in self.%s' % dct, pe), False) for g in e.guards):
                    why.append('%s can overwrite a loaded molecule' % unparse(e.node))
                ta = atom_of(fl, e.target)
                if ta is None or not fl.tab.equal(ta.args[1], spec(fl, 'op.moleculeName', pe)) or \
                        not fl.tab.equal(e.value, pe['op']):
                    why.append('stores %s' % unparse(e.node))
            R.check('2.once', 'DOM', site, 'an opacity is stored under its moleculeName only if that name is not loaded yet',
                    len(sts) >= 1 and not why, key='; '.join(why) or 'no store', detail='; '.join(why) or 'nothing is stored', loc=f.loc())
    # ---- 3. clear-after-set
    clear_after_set(ix, R)
    from rules.common import cache_state_cleared
    cache_state_cleared(ix, R, '3.clear.state')
    stateless_discover(ix, R)
    hitran(ix, R)
    # ---- 4. discover passes the mode
    discover_args(ix, R)
    # ---- 5. molecule names
    names = {
        OD + 'pickleopacity.py::PickleOpacity.discover': 'sanitize_molecule_string(splits[0])',
        OD + 'exotransmit.py::ExoTransmitOpacity.discover': 'sanitize_molecule_string(pathlib.Path(f).stem[4:])',
        OD + 'ktables/picklektable.py::PickleKTable.discover': 'sanitize_molecule_string(splits[0])',
        OD + 'ktables/hdfktable.py::HDF5KTable.discover': 'sanitize_molecule_string(splits[0])',
        OD + 'hdf5opacity.py::HDF5Opacity.discover': 'op.moleculeName',
    }
    for site, want in names.items():
        with R.guard('5.name', 'TAB', site, 'molecule name'):
            f = ix.func(site)
            # the name is the first element of the tuple appended to the discovery list
            names = []
            for e, _args in discovered_pairs(f):
                if isinstance(e, ast.Name):
                    defs = [a.value for a in ast.walk(f.node) if isinstance(a, ast.Assign) and
                            isinstance(a.targets[0], ast.Name) and a.targets[0].id == e.id]
                    names.extend(unparse(d) for d in defs)
                else:
                    names.append(unparse(e))
            # a name produced by a helper that is new to the reviewed tree and only returns an expression is that expression
            from sa.helpers import new_helpers_of
            hs = {g.name: g for g in new_helpers_of(f)}
            for k_, nm_ in enumerate(names):
                try:
                    c_ = ast.parse(nm_, mode='eval').body
                except SyntaxError:
                    continue
                if isinstance(c_, ast.Call) and (isinstance(c_.func, ast.Attribute) and c_.func.attr in hs or
                                                 isinstance(c_.func, ast.Name) and c_.func.id in hs):
                    g_ = hs[c_.func.attr if isinstance(c_.func, ast.Attribute) else c_.func.id]
                    body_ = [x for x in g_.body() if not (isinstance(x, ast.Expr) and isinstance(x.value, ast.Constant))]
                    if len(body_) == 1 and isinstance(body_[0], ast.Return) and body_[0].value is not None:
                        names[k_] = unparse(body_[0].value)
                    elif body_ and isinstance(body_[-1], ast.Return) and body_[-1].value is not None and \
                            all(isinstance(x, ast.Assign) for x in body_[:-1]):
                        # temporaries, then the returned expression: what matters is the outermost call of that expression
                        names[k_] = unparse(body_[-1].value)
            sanitised = 'sanitize_molecule_string(' in want
            ok = len(names) == 1 and (names[0].startswith('sanitize_molecule_string(') if sanitised
                                      else names[0].endswith('.moleculeName'))
            R.check('5.name', 'TAB', site, 'discovered molecule name is %s' % (
                'passed through sanitize_molecule_string' if sanitised else 'the name stored in the file'), ok,
                    key=str(names), detail=str(names), loc=f.loc())
    with R.guard('5.cia.name', 'TAB', CA + 'ciaacache.py', 'cia names'):
        cia_names(ix, R)
    site = 'taurex/util/util.py::sanitize_molecule_string'
    with R.guard('5.sanitize', 'ALG', site, 'sanitize'):
        f = ix.func(site)
        r = unparse(f.body()[-1])
        from sa.pattern import find as _find
        okp = _find(f.node, ["return ''.join([''.join(V_s) for V_s in re.findall('([A-Z][a-z]?)([0-9]*)', %s)])" % f.params()[0]])[0] is not None
        R.check('5.sanitize', 'ALG', site, 'sanitised name keeps element symbols and counts only (isotope prefixes, suffixes dropped)',
                okp, key=r, detail=r, loc=f.loc())


def discovered_pairs(f):
    """[(name expr, argument-list expr)] of the (molecule, constructor arguments) pairs a discover() produces, whether
    they are appended one by one or built by a comprehension"""
    out = []
    for n in ast.walk(f.node):
        t = None
        if isinstance(n, ast.Call) and isinstance(n.func, ast.Attribute) and n.func.attr == 'append' and n.args:
            t = n.args[0]
        elif isinstance(n, (ast.ListComp, ast.GeneratorExp)):
            t = n.elt
        if isinstance(t, ast.Tuple) and len(t.elts) == 2:
            out.append((t.elts[0], t.elts[1]))
    return out


def cia_names(ix, R):
    """CIACache.load_cia_from_path filters the files by a pair name taken from the file name and serves the objects
    under obj.pairName: for PickleCIA (whose name comes from the constructor) the name it is given must be the name
    the filter was asked about - otherwise `H2-He_2011.db` passes the filter as 'H2-He' and is stored under
    'H2-He_2011', and the request that triggered the load fails."""
    site = CA + 'ciaacache.py::CIACache.load_cia_from_path'
    f = ix.func(site)
    fl = mkflow(ix, site)
    stmt = 'a pickled CIA is registered under the pair name the filter was tested with'
    pcs = [e for e in calls(fl, 'PickleCIA') if e.loops]
    if len(pcs) != 1:
        R.error('5.cia.name', 'TAB', site, stmt, '%d PickleCIA constructions in a loop' % len(pcs), loc=f.loc())
        return
    e = pcs[0]
    lp = e.loops[-1]
    tested = []
    for c in fl.of('continue'):
        if c.loops and c.loops[-1] is lp:
            for g in c.guards:
                a = atom_of(fl, g.rf) if g.rf is not None else None
                while a is not None and a.head == 'unop' and a.extra == 'Not':
                    a = atom_of(fl, a.args[0])
                if a is not None and a.head == 'cmp' and a.extra and a.extra[0] in ('In', 'NotIn') and len(a.args) == 2:
                    tested.append(a.args[0])
    if not tested:
        R.error('5.cia.name', 'TAB', site, stmt, 'the filter test of the .db loop was not recognised', loc=f.loc())
        return
    given = e.args[1] if len(e.args) > 1 else e.kw.get('pair_name')
    if given is None:
        # the constructor's default: the whole stem of the file name
        init = ix.func('taurex/cia/picklecia.py::PickleCIA.__init__')
        given = spec(fl, 'Path(F).stem', {'F': e.args[0]}) if e.args else None
        how = 'no name is passed, so the constructor default (the whole file stem) is used'
    else:
        how = 'the name passed is %s' % fmt(fl, given)[:100]
    ok = given is not None and any(fl.tab.equal(given, t_) for t_ in tested)
    R.check('5.cia.name', 'TAB', site, stmt, ok, key=how[:80],
            detail='%s, while the filter is asked about %s: a file whose name carries a suffix passes the filter under one '
                   'name and is stored under another' % (how, [fmt(fl, t_)[:100] for t_ in tested]), loc=f.loc(e.node))


def loader_keys(ix):
    """{key: {(loader class, cache kind, local var, arg position)}} for
    GlobalCache keys that a discover() passes on to the constructor."""
    ktab = ix.find_class('KTable')
    opac = ix.find_class('Opacity')
    out = {}
    for c in ix.all_classes():
        if not (ix.is_subclass(c, opac) or ix.is_subclass(c, ktab)):
            continue
        for f in c.methods.get('discover', []):
            reads = {}
            for n in ast.walk(f.node):
                if isinstance(n, ast.Assign) and isinstance(n.targets[0], ast.Name):
                    for s in ast.walk(n.value):
                        if isinstance(s, ast.Subscript) and unparse(s.value) == 'GlobalCache()' and \
                                isinstance(s.slice, ast.Constant):
                            reads[n.targets[0].id] = s.slice.value
            for _nm, lst in discovered_pairs(f):
                if isinstance(lst, (ast.List, ast.Tuple)):
                    for pos, e in enumerate(lst.elts):
                        if isinstance(e, ast.Name) and e.id in reads:
                            kind = 'KTableCache' if ix.is_subclass(c, ktab) else 'OpacityCache'
                            out.setdefault(reads[e.id], set()).add((c.name, kind, e.id, pos, f.site))
    return out


def stateless_discover(ix, R):
    """discover() must depend on the current configuration only: no memo on
    the class / module, no caching decorator - otherwise a mode change made
    after the first discovery is not seen by later loads."""
    ktab = ix.find_class('KTable')
    opac = ix.find_class('Opacity')
    n = 0
    for c in ix.all_classes():
        if not (ix.is_subclass(c, opac) or ix.is_subclass(c, ktab)):
            continue
        for f in c.methods.get('discover', []):
            if any(isinstance(x, ast.Raise) for x in f.body()[:1]):
                continue   # abstract
            n += 1
            why = []
            decs = f.decorators()
            if [d for d in decs if d != 'classmethod']:
                why.append('decorated with %s' % [d for d in decs if d != 'classmethod'])
            first = f.params()[0] if f.params() else 'cls'
            for node in walk_no_nested(f.node):
                if isinstance(node, (ast.Assign, ast.AugAssign, ast.AnnAssign)):
                    tg = node.targets if isinstance(node, ast.Assign) else [node.target]
                    for t in tg:
                        for x in ast.walk(t):
                            if isinstance(x, ast.Attribute) and isinstance(x.value, ast.Name) and \
                                    x.value.id in (first, c.name, 'self', 'cls'):
                                why.append('writes %s' % unparse(x))
                if isinstance(node, (ast.Global, ast.Nonlocal)):
                    why.append('declares %s' % unparse(node))
                if isinstance(node, ast.Return) and node.value is not None:
                    # returned value must be built in this call: a local name or a literal
                    v = node.value
                    if isinstance(v, ast.Attribute) or (isinstance(v, ast.Subscript) and
                                                        isinstance(v.value, ast.Attribute)):
                        why.append('returns stored state %s' % unparse(v))
            # class-level mutable attributes used as a memo
            for node in c.node.body:
                if isinstance(node, ast.Assign) and isinstance(node.value, (ast.Dict, ast.List, ast.Set)) \
                        and not (isinstance(node.targets[0], ast.Name) and node.targets[0].id.isupper()):
                    nm = unparse(node.targets[0])
                    if any(isinstance(x, ast.Attribute) and x.attr == nm for x in ast.walk(f.node)):
                        why.append('uses class-level container %s' % nm)
            R.check('3.stateless', 'EFF', f.site,
                    'discover() of %s depends only on the current GlobalCache settings and the directory listing '
                    '(no memo on the class, no caching decorator)' % c.name,
                    not why, key='; '.join(sorted(set(why))),
                    detail='%s: a result remembered across calls keeps the interpolation / memory mode of the first '
                           'discovery' % '; '.join(sorted(set(why))), loc=f.loc())
    if n < 6:
        R.error('3.stateless.count', 'EFF', OD, 'loader discover() methods are found', 'found %d' % n)


def hitran(ix, R):
    H = 'taurex/cia/hitrancia.py'
    from sa.helpers import need
    from sa.pattern import find
    site = H + '::HitranCIA.fill_gaps'
    with R.guard('6.hitran.sort', 'PERM', site, 'sorted (T, sigma) lists'):
        f = ix.func(site)
        fl = mkflow(ix, site)
        so = [e for e in calls(fl, 'sortTempSigma')]
        ft = one(calls(fl, 'fill_temperature'), 'fill_temperature call')
        a = len(so) == 1 and so[0].loops == ft.loops and not so[0].guards and \
            fl.events.index(so[0]) < fl.events.index(ft) and so[0].recv_rf is not None and \
            fl.tab.equal(so[0].recv_rf, ft.recv_rf)
        g = ix.func(H + '::HitranCiaGrid.fill_temperature')
        gl = mkflow(ix, g)
        gs = [e for e in calls(gl, 'sortTempSigma') if not e.loops and not e.guards]
        firsts = [e for e in gl.events if e.kind in ('call', 'return', 'loop')]
        b = bool(gs) and firsts and firsts[0] is gs[0]
        lp_ok = len(ft.loops) == 1 and fl.tab.equal(ft.loops[0].iter_rf[0], spec(fl, 'self._wn_dict.values()')) \
            and not ft.guards and fl.tab.equal(ft.args[0], fl.tab.name(f.params()[1]))
        R.check('6.hitran.sort', 'PERM', site,
                'every wavenumber range has its (temperature, sigma) list sorted by temperature on every path before it is '
                'gap-filled and later indexed by the sorted temperature grid',
                (a or b) and lp_ok, key='sort before fill: in fill_gaps %s, at the head of fill_temperature %s' % (a, b),
                detail='sortTempSigma() is not executed unconditionally for every range (fill_gaps: %s; fill_temperature head: %s): '
                       'a range that needs no gap filling keeps file order while compute_final_grid indexes it by the sorted '
                       'temperature grid' % (a, b), loc=f.loc())
    site = H + '::HitranCiaGrid.sortTempSigma'
    with R.guard('6.hitran.key', 'PERM', site, 'sort key'):
        f = ix.func(site)
        fl = mkflow(ix, site)
        so = one([e for e in calls(fl, 'sort')], 'sort call')
        if so.recv_rf is None or fmt(fl, so.recv_rf) != 'self.Tsigma':
            raise AnalysisError('sorts %s' % (fmt(fl, so.recv_rf) if so.recv_rf is not None else unparse(so.node)))
        key = so.kw.get('key')
        ka = atom_of(fl, key) if key is not None else None
        if ka is None or ka.head not in ('call', 'mcall') or not ka.extra or not ka.extra[0].endswith('itemgetter') or \
                set(so.kw) - {'key'} or so.args:
            raise AnalysisError('the sort key is not an item picker: %s' % unparse(so.node))
        R.check('6.hitran.key', 'PERM', site, 'the (T, sigma) list is sorted in place by temperature (element 0)',
                (fl.tab.equal(key, spec(fl, 'operator.itemgetter(0)')) or
                 (f.module.imports.get('itemgetter') == ('operator', 'itemgetter') and
                  fl.tab.equal(key, spec(fl, 'itemgetter(0)')))) and not unlicensed(fl, so) and not so.loops,
                key=unparse(so.node), detail=unparse(so.node), loc=f.loc(so.node))
    site = H + '::HitranCiaGrid.fill_temperature'
    with R.guard('6.hitran.fill', 'PERM', site, 'fill'):
        f = ix.func(site)
        fl = mkflow(ix, site)
        adds = calls(fl, 'add_temperature')
        lp = one(fl.of('loop'), 'loop over the requested temperatures').loop
        tt = fl.tab.atom('elem', (lp.iter_rf[0], lp.index))
        # what is added for a temperature, as one guarded value over the add_temperature calls
        from sa.helpers import resolve_guards, has_guard
        outer_ = None
        val = fl.tab.atom('const', ('NOTHING',))
        from sa.helpers import pos_args
        import types as _types
        adds = [_types.SimpleNamespace(args=pos_args(fl, a_)[0], kw=pos_args(fl, a_)[1], guards=a_.guards, loops=a_.loops,
                                       node=a_.node) for a_ in adds]        # add_temperature(T=t, sigma=s) is (t, s)
        for a_ in adds:
            if len(a_.args) != 2 or a_.kw or not fl.tab.equal(a_.args[0], tt):
                raise AnalysisError('add_temperature is not called with the missing temperature and one table: %s' % unparse(a_.node))
            gs = [g for g in a_.guards if not g.early]
            if any(g.rf is None for g in gs):
                raise AnalysisError('add_temperature under a condition that is not followed')
            v = a_.args[1]
            for g in reversed(gs):
                v = fl.tab.atom('guard', (g.rf, v, val) if g.positive else (g.rf, val, v))
            val = v
        outside = spec(fl, 't < min(self.temperature) or t > max(self.temperature)', {'t': tt})
        why = []
        for scen, want, what in ((True, spec(fl, 'np.zeros_like(self.wn)'), 'outside the tabulated range'),
                                 (False, spec(fl, 'self.interp_linear_grid(t, *self.find_closest_temperature_index(t))', {'t': tt}),
                                  'inside the tabulated range')):
            got = resolve_guards(fl, val, lambda c: scen if fl.tab.equal(c, outside) else None)
            got = unalloc(fl, got)
            if has_guard(got) or fmt(fl, got) == 'NOTHING':
                raise AnalysisError('what is added %s is not settled: %s' % (what, fmt(fl, got)[:200]))
            if not fl.tab.equal(got, want):
                why.append('%s the table added is %s' % (what, fmt(fl, got)[:160]))
        R.check('6.hitran.fill', 'PERM', site,
                'a missing temperature is added as zeros outside the tabulated range, else by linear interpolation between its '
                'neighbours', not why, key='; '.join(why), detail='; '.join(why), loc=f.loc())
        fl = mkflow(ix, site)
        adds = calls(fl, 'add_temperature')
        sorts = [e for e in calls(fl, 'sortTempSigma') if e.loops]
        ok = bool(adds) and bool(sorts) and all(fl.events.index(sorts[-1]) > fl.events.index(a_) for a_ in adds) and \
            all(not [g_ for g_ in s_.guards if not (validated(g_) or all(
                any(x.node is g_.node and x.positive == g_.positive for x in a_.guards) for a_ in adds))] for s_ in sorts)
        R.check('6.hitran.resort', 'PERM', site, 'the list is re-sorted after every added temperature (inside the loop)',
                ok, key='resort', detail='no re-sort after add_temperature inside the loop', loc=f.loc())
    site = H + '::hashwn'
    with R.guard('6.hitran.hash', 'TAB', site, 'range key'):
        # blocks of one wavenumber range are collected under a key made of the two limits: the key must keep both
        # numbers exactly (two ranges that differ in any digit are different tables)
        f = ix.func(site)
        fl = mkflow(ix, site)
        r = the_return(fl)
        ps = f.params()
        txt = unparse(r.value_ast) if getattr(r, 'value_ast', None) is not None else ''
        rounded = re.findall(r'\{[^{}]*:[^{}]*\.[0-9]+[fegFEG%]?[^{}]*\}|%\.[0-9]+[feg]|round\(|int\(', txt)
        uses = all(re.search(r'\b%s\b' % re.escape(p_), txt) for p_ in ps[:2])
        R.check('6.hitran.hash', 'TAB', site,
                'the key of a wavenumber range is built from both limits at full precision (no rounding, no fixed number of decimals)',
                uses and not rounded, key=txt[:80],
                detail='range key is %s: %s' % (txt[:100], 'limits are rounded (%s), so ranges that differ beyond that digit share '
                                                'one table' % rounded if rounded else 'a limit is not part of the key'),
                loc=f.loc())
    site = H + '::HitranCIA.load_hitran_file'
    with R.guard('6.hitran.load', 'DOM', site, 'load order'):
        f = ix.func(site)
        need(R, '6.hitran.load', 'DOM', site,
             'temperature list sorted, stored as the grid, gaps filled against it, then the final table assembled - in that order', f,
             ['''
V_tl.sort()
self._temperature_grid = np.array(V_tl)
self.fill_gaps(V_tl)
self.compute_final_grid()
'''],
             under=['True'])
        # the temperature grid that is stored (and that interpolation and the table rows are indexed by) is sorted
        fl0 = mkflow(ix, site)
        tg = [e for e in fl0.of('store') if fmt(fl0, e.target) == 'self._temperature_grid' and not e.loops]
        if len(tg) != 1:
            R.error('6.hitran.load.sorted', 'PERM', site, 'the stored temperature grid is sorted', '%d stores' % len(tg), loc=f.loc())
        else:
            e_ = tg[0]
            ok_ = e_.value.mentions(lambda a: a.head in ('call', 'mcall') and a.extra and
                                    a.extra[0][3:].split('.')[-1] in ('sorted', 'sort', 'unique'))
            names_ = {n_.id for n_ in ast.walk(e_.node.value) if isinstance(n_, ast.Name)}
            for c_ in fl0.of('call'):
                if c_.name == 'sort' and isinstance(c_.recv, ast.Name) and c_.recv.id in names_ and not c_.loops and \
                        not c_.guards and fl0.events.index(c_) < fl0.events.index(e_):
                    ok_ = True
            R.check('6.hitran.load.sorted', 'PERM', site,
                    'the temperature grid stored in the object is the sorted list of temperatures (the table rows and the '
                    'interpolation brackets are in ascending temperature order)', ok_,
                    key=unparse(e_.node)[:80], detail='%s stores the temperatures in the order they appear in the file: a later '
                    'band that introduces a lower temperature leaves the grid unsorted while the rows are sorted' % unparse(e_.node)[:80],
                    loc=f.loc(e_.node))
        # every block read from the file is handed to its range object together with its temperature, and the range's
        # wavenumbers are set (whatever helper reads the block)
        fl = mkflow(ix, site)
        adds = [e for e in calls(fl, 'add_temperature') if e.loops]
        wns = [e for e in fl.of('store') if e.loops and unparse(e.target_ast).endswith('.wn')]
        from sa.helpers import pos_args
        if len(adds) != 1 or len(wns) != 1 or len(pos_args(fl, adds[0])[0]) != 2 or pos_args(fl, adds[0])[1]:
            R.error('6.hitran.load.block', 'DOM', site, 'each block is added to its range object',
                    '%d add_temperature calls, %d stores to .wn inside the reading loop' % (len(adds), len(wns)), loc=f.loc())
        else:
            same = adds[0].recv_rf is not None and fl.tab.equal(adds[0].recv_rf, atom_of(fl, wns[0].target).args[0]) \
                if atom_of(fl, wns[0].target) is not None and atom_of(fl, wns[0].target).args else False
            R.check('6.hitran.load.block', 'DOM', site,
                    'each block is added to the range object whose wavenumbers it sets, unconditionally',
                    same and not adds[0].guards[len(wns[0].guards):] and len(adds[0].guards) == len(wns[0].guards),
                    key='receiver / condition differ', detail='add_temperature on %s under %s; .wn set on %s under %s' % (
                        unparse(adds[0].recv), [g.text() for g in adds[0].guards], unparse(wns[0].target_ast),
                        [g.text() for g in wns[0].guards]), loc=f.loc())
    site = H + '::HitranCIA.compute_final_grid'
    with R.guard('6.hitran.sorted', 'PERM', site, 'sorted grid'):
        # positive check on the flow, whatever the statements look like: the unified wavenumber grid that ends up in
        # the object is the concatenated ranges put through a sort (np.interp needs an ascending grid; ranges of
        # different temperature blocks may overlap, so concatenating them in any order is not enough), and the table
        # is indexed by the same permutation
        f = ix.func(site)
        fl = mkflow(ix, site, forward_attrs=True)
        wn = [e for e in fl.of('store') if fmt(fl, e.target) == 'self._wavenumber_grid' and not e.guards and not e.loops]
        xs = [e for e in fl.of('store') if fmt(fl, e.target) == 'self._xsec_grid']
        why = []
        if not wn:
            why.append('self._wavenumber_grid is not stored unconditionally')
        else:
            last = wn[-1].value
            srt = [a for a in last.all_atoms() if fl.tab.atoms[a].head in ('call', 'mcall') and fl.tab.atoms[a].extra and
                   fl.tab.atoms[a].extra[0] in ('fn:argsort', 'fn:sort', 'fn:unique', 'fn:lexsort')]
            if not srt:
                why.append('the unified wavenumber grid is %s: concatenated ranges that are never sorted' % fmt(fl, last)[:120])
            else:
                perm = [a for a in srt if fl.tab.atoms[a].extra[0] == 'fn:argsort']
                if perm and xs and not any(
                        perm[0] in v.all_atoms() for v in [x.value for x in xs] + [e.value for e in fl.of('assign') + fl.of('call')
                                                                               if isinstance(getattr(e, 'value', None), RF)] +
                        [a_ for e in fl.of('call') for a_ in e.args if isinstance(a_, RF)]):
                    why.append('the cross-section rows are not re-ordered with the permutation that sorts the grid')
        R.check('6.hitran.sorted', 'PERM', site,
                'the unified wavenumber grid is sorted, and the cross-section rows are put in the same order',
                not why, key='; '.join(why), detail='; '.join(why), loc=f.loc())
    with R.guard('6.hitran.final', 'PERM', site, 'final grid'):
        f = ix.func(site)
        fa = mkflow(ix, site, forward_attrs=True)
        stmt = ('ranges are concatenated in one order for wavenumbers and cross-sections, one argsort orders both, and row idx '
                'of the table is the idx-th entry of each (sorted) range list')
        b_ = {'C': spec(fa, 'concatenate([w_.wn for w_ in self._wn_dict.values()])')}
        b_['S'] = spec(fa, 'argsort(C)', b_)
        want_wn = spec(fa, 'C[S]', b_)
        want_xs = spec(fa, 'array([concatenate([w_.Tsigma[i_][1] for w_ in self._wn_dict.values()])[S] '
                           'for i_ in range(len(self._temperature_grid))])', b_)
        got_wn = fa.conv.env.get('@self._wavenumber_grid')
        got_xs = fa.conv.env.get('@self._xsec_grid')
        why = []
        if got_wn is None or not fa.tab.equal(got_wn, want_wn):
            why.append('self._wavenumber_grid ends as %s' % (fmt(fa, got_wn)[:200] if got_wn is not None else None))
        if got_xs is None or not fa.tab.equal(got_xs, want_xs):
            why.append('self._xsec_grid ends as %s' % (fmt(fa, got_xs)[:300] if got_xs is not None else None))
        und = [x for x in (got_wn, got_xs) if x is not None and x.mentions(lambda a: a.head in ('mutated', 'phi'))]
        if why and und:
            R.error('6.hitran.final', 'PERM', site, stmt, 'the table is assembled by statements this rule cannot follow: %s' % why,
                    loc=f.loc())
        else:
            R.check('6.hitran.final', 'PERM', site, stmt, not why, key='; '.join(w[:90] for w in why), detail='; '.join(why),
                    loc=f.loc())


def _exo_by_value(ix, R, site, f, stmt, loop_patterns):
    """ExoTransmitOpacity._load_exo_transmit written in another shape: the grid that is stored is W[argsort(W)] (or
    sort(W)), W is 1e-2 / (first entry of every one-entry row of lines[2:]), and the table that is stored last is
    1e4 * table[:, :, argsort(W)] with the same W."""
    from sa.helpers import need
    from sa.algebra import call_atoms
    fl = mkflow(ix, site)
    wn = [e for e in fl.of('store') if fmt(fl, e.target) == 'self._wavenumber_grid']
    xs = [e for e in fl.of('store') if fmt(fl, e.target) == 'self._xsec_grid' and not e.loops]
    if len(wn) != 1 or wn[0].loops or wn[0].guards or not xs or xs[-1].guards:
        raise AnalysisError('%d stores of the wavenumber grid, %d of the table outside loops: not a shape this rule reads' %
                            (len(wn), len(xs)))
    v = wn[0].value
    if v.mentions(lambda a: a.head in ('phi', 'mutated', 'alloc')):
        raise AnalysisError('the wavenumber grid is built by statements this rule cannot follow: %s' % fmt(fl, v)[:160])
    why = []
    perms = call_atoms(v, 'argsort')
    W = None
    if perms:
        W = perms[0].args[0]
        if not fl.tab.equal(v, spec(fl, 'W[argsort(W)]', {'W': W})):
            raise AnalysisError('the stored grid is %s: not W[argsort(W)]' % fmt(fl, v)[:160])
    else:
        srt = call_atoms(v, 'sort') + call_atoms(v, 'sorted') + call_atoms(v, 'unique')
        if srt:
            raise AnalysisError('the grid is sorted by %s: the permutation of the table cannot be compared' % fmt(fl, v)[:120])
        own = spec(fl, 'argsort(W)', {'W': v})
        if any(e.name in ('sort', 'argsort', 'sorted', 'lexsort', 'unique') for e in fl.of('call')) and not any(
                isinstance(e.value, RF) and fl.tab.equal(e.value, own) for e in fl.of('assign')):
            raise AnalysisError('a sort is called, but not on the value that is stored as the grid')
        W = v
        why.append('the wavenumber grid is stored in file order (%s): never sorted' % fmt(fl, v)[:100])
    # W is 1e-2/lambda over the one-entry rows, whichever way round the division and the selection are written
    okW = False
    cands = [e.value for e in fl.of('assign') if isinstance(e.value, RF)] + [a.args[0] for a in call_atoms(W, 'split') if a.args]
    row = 'array([float(x_) for x_ in ln_.split()])'
    forms = ('array([10000 * 1e-06 / %s[0] for ln_ in L[2:] if %s.shape[0] == 1])' % (row, row),
             '10000 * 1e-06 / array([%s[0] for ln_ in L[2:] if %s.shape[0] == 1])' % (row, row))
    seen = []
    for L in cands:
        if any(L is s_ for s_ in seen):
            continue
        seen.append(L)
        for fm in forms:
            try:
                if fl.tab.equal(W, spec(fl, fm, {'L': L})):
                    okW = True
            except AnalysisError:
                pass
    if not okW:
        raise AnalysisError('the grid before sorting is %s: not recognised as 1e-2/lambda of the one-entry rows' %
                            fmt(fl, W)[:200])
    last = xs[-1].value
    if perms:
        P = spec(fl, 'argsort(W)', {'W': W})
        forms_x = {'ok': '10000 * self._xsec_grid[:, :, P]', 'no unit factor': 'self._xsec_grid[:, :, P]',
                   'unsorted': '10000 * self._xsec_grid', 'other axis 1': '10000 * self._xsec_grid[:, P, :]',
                   'other axis 0': '10000 * self._xsec_grid[P]', 'other axis 0b': '10000 * self._xsec_grid[P, :, :]'}
        hit = [k for k, t in forms_x.items() if fl.tab.equal(last, spec(fl, t, {'P': P}))]
        if not hit:
            raise AnalysisError('the table stored last is %s: not a shape this rule reads' % fmt(fl, last)[:200])
        if hit[0] != 'ok':
            why.append('the table stored last is %s (%s): the grid is ordered by argsort and converted m2 -> cm2, the '
                       'table is not' % (fmt(fl, last)[:100], hit[0]))
    # the rows: same statements as ever (counters driven by the one-entry rows)
    b = need(R, '1.exo.rows', 'PERM', site, 'rows of the Exo-Transmit table are stored at [pressure, :, wavelength] of a '
             '(pressure, temperature, wavenumber) array', f, loop_patterns)
    R.check('1.exo', 'PERM', site, stmt, not why, key='; '.join(w[:80] for w in why), detail='; '.join(why), loc=f.loc())


def clear_after_set(ix, R):
    keys = loader_keys(ix)
    R.info['constructor_keys'] = {k: sorted(x[0] for x in v) for k, v in keys.items()}
    if 'xsec_interpolation' not in keys:
        R.error('3.keys', 'EFF', OD, 'the interpolation key is passed by loaders', 'xsec_interpolation not found in any discover()')
        return
    n = 0
    for f in ix.all_functions():
        if f.module.relpath.startswith('taurex/plot'):
            continue
        for node in walk_no_nested(f.node):
            if isinstance(node, ast.Assign) and isinstance(node.targets[0], ast.Subscript) and \
                    unparse(node.targets[0].value) == 'GlobalCache()' and \
                    isinstance(node.targets[0].slice, ast.Constant) and node.targets[0].slice.value in keys:
                key = node.targets[0].slice.value
                need = {x[1] for x in keys[key]}
                n += 1
                cleared = set()
                later = False
                for s in walk_no_nested(f.node):
                    # (clear_cache() only empties the dictionaries - nothing is loaded until the next request - so it does
                    #  not matter whether it runs just before or just after the key is written, as long as it runs)
                    if isinstance(s, ast.Call) and isinstance(s.func, ast.Attribute) and s.func.attr == 'clear_cache':
                        tgt = unparse(s.func.value)
                        if tgt == 'self' and f.cls is not None:
                            cleared.add(f.cls.name)
                        elif tgt.endswith('()'):
                            cleared.add(tgt[:-2])
                missing = sorted(need - cleared)
                R.check('3.clear', 'EFF', f.site,
                        "writing GlobalCache()['%s'] is followed by clear_cache() of every cache whose loaders pass that "
                        'key to their constructor (%s)' % (key, sorted(need)),
                        not missing, key="%s written, %s not cleared" % (key, missing),
                        detail="GlobalCache()['%s'] is read by %s; %s keep serving objects built with the old value" % (
                            key, sorted(x[0] for x in keys[key]), missing), loc=f.loc(node))
    if n < 2:
        R.error('3.writers', 'EFF', CA, 'writers of the constructor keys are found', 'found %d' % n)


def discover_args(ix, R):
    keys = loader_keys(ix)
    want_param = {'xsec_interpolation': 'interpolation_mode', 'xsec_in_memory': 'in_memory'}
    n = 0
    for key, users in sorted(keys.items()):
        for cname, kind, var, pos, site in sorted(users):
            c = ix.find_class(cname)
            init = ix.lookup_method(c, '__init__')
            ps = init.params()[1:]
            n += 1
            ok = pos < len(ps) and ps[pos] == want_param.get(key)
            R.check('4.discover', 'ARG', site,
                    "the value read from GlobalCache()['%s'] lands on constructor parameter %r of %s" % (
                        key, want_param.get(key), cname),
                    ok, key='position %d is %s' % (pos, ps[pos] if pos < len(ps) else None),
                    detail='argument %d of %s.__init__ is %s' % (pos, cname, ps[pos] if pos < len(ps) else None))
            # the constructor forwards it to the base class
            if want_param.get(key) == 'interpolation_mode':
                src = unparse(init.node)
                R.check('4.forward', 'ARG', init.site, '%s forwards interpolation_mode to InterpolatingOpacity' % cname,
                        'interpolation_mode=interpolation_mode' in src, key='forward', detail='not forwarded', loc=init.loc())
    if n < 6:
        R.error('4.count', 'ARG', OD, 'the loaders that pass a mode are found', 'found %d' % n)
    site = OD + 'interpolateopacity.py::InterpolatingOpacity.__init__'
    with R.guard('4.mode', 'ARG', site, 'mode stored'):
        f = ix.func(site)
        fl = mkflow(ix, site)
        pe = param_env(fl, f, ['name', 'mode'])
        st = {fmt(fl, e.target): e.value for e in fl.of('store')}
        R.check('4.mode', 'ARG', site, 'the constructor stores the mode the dispatch reads (_interp_mode)',
                '_interp_mode' in ''.join(st) and fl.tab.equal(st.get('self._interp_mode'), pe['mode']),
                key=str({k: fmt(fl, v) for k, v in st.items()}), detail=str({k: fmt(fl, v) for k, v in st.items()}), loc=f.loc())


OC = CA + 'opacitycache.py'
MUTANTS = [
    ('seed-c14-a-shape', 'taurex/cia/hitrancia.py', "            wn_obj.sortTempSigma()\n            wn_obj.fill_temperature(temperature)", "            wn_obj.fill_temperature(temperature)", '6.hitran.sort'),
    ('hitran-final-order', 'taurex/cia/hitrancia.py', "_sigma_array.append(np.concatenate(_temp_sigma)[sorted_idx])", "_sigma_array.append(np.concatenate(_temp_sigma))", '6.hitran.final'),
    ('hitran-sortkey', 'taurex/cia/hitrancia.py', "self.Tsigma.sort(key=operator.itemgetter(0))", "self.Tsigma.sort(key=operator.itemgetter(1))", '6.hitran.key'),
    ('discover-memo', OD + 'pickleopacity.py', "        discovery = []\n        interp = GlobalCache()['xsec_interpolation'] or 'linear'", "        if getattr(cls, '_memo', None):\n            return cls._memo\n        discovery = []\n        cls._memo = discovery\n        interp = GlobalCache()['xsec_interpolation'] or 'linear'", '3.stateless'),
    ('pickle-unit', OD + 'pickleopacity.py', "self._pressure_grid = self._spec_dict['p'] * 100000.0", "self._pressure_grid = self._spec_dict['p'] * 1000.0", '1.pressure'),
    ('pickle-nounit', OD + 'ktables/picklektable.py', "self._pressure_grid = self._spec_dict['p'] * 100000.0", "self._pressure_grid = self._spec_dict['p']", '1.pressure'),
    ('hdf5-nounit', OD + 'hdf5opacity.py', "self._pressure_grid = self._spec_dict['p'][:] * p_conversion", "self._pressure_grid = self._spec_dict['p'][:]", '1.pressure'),
    ('hdf5-fixedunit', OD + 'ktables/hdfktable.py', "pressure_units = self._spec_dict['p'].attrs['units']", "pressure_units = 'bar'", '1.pressure'),
    ('exo-nosort-table', OD + 'exotransmit.py', 'self._xsec_grid = self._xsec_grid[:, :, grid_sort] * 10000', 'self._xsec_grid = self._xsec_grid * 10000', '1.exo'),
    ('exo-unit', OD + 'exotransmit.py', 'self._xsec_grid = self._xsec_grid[:, :, grid_sort] * 10000', 'self._xsec_grid = self._xsec_grid[:, :, grid_sort]', '1.exo'),
    ('exo-axes', OD + 'exotransmit.py', 'self._xsec_grid[pressure_count, :, lambda_count] = arr[1:] + 1e-60', 'self._xsec_grid[:, pressure_count, lambda_count] = arr[1:] + 1e-60', '1.exo'),
    ('pickle-key', OD + 'pickleopacity.py', "self._temperature_grid = self._spec_dict['t']", "self._temperature_grid = self._spec_dict['p']", '1.keys'),
    ('cache-reload', OC, "        if key in self.opacity_dict:\n            return self.opacity_dict[key]\n        else:\n            self.load_opacity(molecule_filter=[key])", "        if False:\n            return self.opacity_dict[key]\n        else:\n            self.load_opacity(molecule_filter=[key])", '2.cache'),
    ('cache-overwrite', OC, "            self.log.warning('Opacity with name %s already in opactiy dictionary %s skipping', opacity.moleculeName, self.opacity_dict.keys())\n            return\n", "            self.log.warning('Opacity with name %s already in opactiy dictionary %s skipping', opacity.moleculeName, self.opacity_dict.keys())\n", '2.once'),
    ('regress-f17', OC, "        self.clear_cache()\n        from .ktablecache import KTableCache\n        KTableCache().clear_cache()\n", "        self.clear_cache()\n", '3.clear'),
    ('memory-noclear', OC, "        GlobalCache()['xsec_in_memory'] = in_memory\n        self.clear_cache()", "        GlobalCache()['xsec_in_memory'] = in_memory", '3.clear'),
    ('discover-swap', OD + 'hdf5opacity.py', 'discovery.append((mol_name, [f, interp, mem]))', 'discovery.append((mol_name, [f, mem, interp]))', '4.discover'),
    ('ctor-drop-mode', OD + 'exotransmit.py', "super().__init__('ExoOpacity:{}'.format(pathlib.Path(filename).stem[4:]), interpolation_mode=interpolation_mode)", "super().__init__('ExoOpacity:{}'.format(pathlib.Path(filename).stem[4:]))", '4.forward'),
    ('name-raw', OD + 'pickleopacity.py', "            mol_name = sanitize_molecule_string(splits[0])\n            discovery.append", "            mol_name = splits[0]\n            discovery.append", '5.name'),
]
EQUIVALENTS = [
    ('pickle-unit-form', OD + 'pickleopacity.py', "self._pressure_grid = self._spec_dict['p'] * 100000.0", "self._pressure_grid = 1e5 * self._spec_dict['p']"),
]
