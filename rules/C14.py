"""C14 Opacity/CIA files of every supported format load to the same physical
table."""
import ast

from sa.helpers import (mkflow, spec, code, one, calls, bind_call, param_env,
                        fmt, atom_of, unparse, walk_no_nested)
from sa.index import AnalysisError, ClassInfo
from sa.algebra import RF, Slice, dotted

FLOOR = 22
OD = 'taurex/opacity/'
CA = 'taurex/cache/'
FILES = [OD, 'taurex/cia/', CA, 'taurex/util/util.py']
EXPLANATION = (
    'Static rule conformance for loaders and caches: every reader stores the '
    'pressure grid as (file value x to-Pascal factor), with the declared unit '
    'for the HDF5 formats; the Exo-Transmit reader converts wavelength to '
    'wavenumber, applies one argsort to the grid and to the last table axis '
    'and scales m2 to the cm2 that compute_opacity divides out; each cache '
    '__getitem__ serves the stored object, loading at most once; every function '
    'that writes a GlobalCache key which some loader passes to its constructor '
    'clears every cache fed by such a loader; discover() hands the mode it read '
    'to the constructor parameter of that name; molecule names come from '
    'sanitize_molecule_string or file metadata.')
ASSUMPTIONS = ['file contents and axis order inside data files', 'astropy unit conversion']
NOT_DECIDED = ['values and axis orientation inside data files', 'HITRAN unit factor',
               'changing a search path does not invalidate already loaded molecules (not stated by the property)']

READERS = [
    # (site of the loading method, pressure key expression, factor kind)
    (OD + 'pickleopacity.py::PickleOpacity._load_pickle_file', "self._spec_dict['p']", 'bar'),
    (OD + 'ktables/picklektable.py::PickleKTable._load_pickle_file', "self._spec_dict['p']", 'bar'),
    (OD + 'hdf5opacity.py::HDF5Opacity._load_hdf_file', "self._spec_dict['p'][:]", 'declared'),
    (OD + 'ktables/hdfktable.py::HDF5KTable._load_pickle_file', "self._spec_dict['p'][...].astype(np.float64)", 'declared'),
    (OD + 'exotransmit.py::ExoTransmitOpacity._load_exo_transmit', None, 'bar'),
]
CACHES = [(CA + 'opacitycache.py::OpacityCache', 'opacity_dict', 'load_opacity'),
          (CA + 'ktablecache.py::KTableCache', 'opacity_dict', 'load_opacity'),
          (CA + 'ciaacache.py::CIACache', 'cia_dict', 'load_cia')]


def run(ix, R):
    # ---- 1. pressure units
    for site, pexpr, kind in READERS:
        stmt = 'pressure grid = file value x factor to Pascal (%s)' % (
            '1e5 for bar' if kind == 'bar' else 'the unit declared in the file')
        with R.guard('1.pressure', 'SIB', site, stmt):
            f = ix.func(site)
            fl = mkflow(ix, site)
            st = [e for e in fl.of('store') if fmt(fl, e.target) == 'self._pressure_grid']
            s = one(st, 'pressure grid store')
            why = []
            if kind == 'bar':
                c = None
                # value = X * 1e5 with X not mentioning another scale
                for a in s.value.atoms():
                    pass
                base = s.value / 100000
                if base.const() is not None or any(fl.tab.atoms[a].head == 'const' for a in base.atoms()):
                    why.append('pressure = %s' % fmt(fl, s.value))
                cst = [m for m in list(base.num.values()) + list(base.den.values())]
                if any(v != 1 for v in cst):
                    why.append('pressure scale is not 1e5: %s' % fmt(fl, s.value))
                if pexpr and not fl.tab.equal(base, spec(fl, pexpr)):
                    why.append('pressure read from %s' % fmt(fl, base))
            else:
                unit = spec(fl, "self._spec_dict['p'].attrs['units']")
                conv = [e for e in fl.of('assign') if e.name == 'p_conversion']
                okc = len(conv) >= 1 and all('to(' in unparse(e.node.value) and 'u.Pa' in unparse(e.node.value)
                                             and 'pressure_units' in unparse(e.node.value) for e in conv)
                pu = [e for e in fl.of('assign') if e.name == 'pressure_units']
                okc = okc and len(pu) == 1 and fl.tab.equal(pu[0].value, unit)
                if not okc:
                    why.append('conversion factor is not Unit(declared unit).to(Pa)')
                if 'p_conversion' not in unparse(s.node.value) or not unparse(s.node.value).startswith(pexpr.split('[')[0]):
                    why.append('pressure = %s' % unparse(s.node.value))
                if not isinstance(s.node.value, ast.BinOp) or not isinstance(s.node.value.op, ast.Mult):
                    why.append('pressure is not value * factor')
            R.check('1.pressure', 'SIB', site, stmt, not why, key='; '.join(why), detail='; '.join(why), loc=f.loc(s.node))
    # exotransmit specifics
    site = OD + 'exotransmit.py::ExoTransmitOpacity._load_exo_transmit'
    with R.guard('1.exo', 'PERM', site, 'exotransmit'):
        f = ix.func(site)
        fl = mkflow(ix, site)
        src = unparse(f.node)
        why = []
        apps = [e for e in calls(fl, 'append')]
        a = one(apps, 'wavenumber append')
        if not fl.tab.proportional(a.args[0], spec(fl, '1/x', {'x': fl.tab.name('x')})) and \
                '10000 * 1e-06 / arr[0]' not in unparse(a.node):
            why.append('wavenumber = %s' % unparse(a.node))
        if '10000 * 1e-06 / arr[0]' not in unparse(a.node):
            why.append('wavelength (m) to wavenumber (cm-1) is not 1e-2/lambda: %s' % unparse(a.node))
        st = {unparse(e.target_ast): e for e in fl.of('store') if not e.loops}
        if 'grid_sort = wn_grid.argsort()' not in src:
            why.append('no argsort of the wavenumber grid')
        if unparse(st['self._wavenumber_grid'].node.value) != 'wn_grid[grid_sort]':
            why.append('grid = %s' % unparse(st['self._wavenumber_grid'].node.value))
        xs = [e for e in fl.of('store') if unparse(e.target_ast) == 'self._xsec_grid' and not e.loops]
        last = xs[-1]
        if unparse(last.node.value) != 'self._xsec_grid[:, :, grid_sort] * 10000':
            why.append('table = %s' % unparse(last.node.value))
        rows = [e for e in fl.of('store') if e.loops and 'self._xsec_grid[' in unparse(e.target_ast)]
        r = one(rows, 'row store')
        if unparse(r.target_ast) != 'self._xsec_grid[pressure_count, :, lambda_count]':
            why.append('rows stored at %s' % unparse(r.target_ast))
        al = [e for e in xs if 'np.empty' in unparse(e.node.value)]
        if not al or 'self.pressureGrid.shape[0], self.temperatureGrid.shape[0], self.wavenumberGrid.shape[0]' \
                not in unparse(al[0].node.value):
            why.append('table allocated as %s' % [unparse(e.node.value) for e in al])
        R.check('1.exo', 'PERM', site,
                'Exo-Transmit: wavenumber = 1e-2/lambda(m); one argsort orders the grid and the last axis of the '
                '(pressure, temperature, wavenumber) table; m2 -> cm2 (x 1e4)',
                not why, key='; '.join(why), detail='; '.join(why), loc=f.loc())
    # table / grid keys for the dictionary formats
    for site, keys in ((OD + 'pickleopacity.py::PickleOpacity._load_pickle_file',
                        {'self._wavenumber_grid': "'wno'", 'self._temperature_grid': "'t'", 'self._xsec_grid': "'xsecarr'"}),
                       (OD + 'ktables/picklektable.py::PickleKTable._load_pickle_file',
                        {'self._wavenumber_grid': "'bin_centers'", 'self._temperature_grid': "'t'", 'self._xsec_grid': "'kcoeff'",
                         'self._weights': "'weights'"}),
                       (OD + 'hdf5opacity.py::HDF5Opacity._load_hdf_file',
                        {'self._wavenumber_grid': "'bin_edges'", 'self._temperature_grid': "'t'", 'self._xsec_grid': "'xsecarr'"}),
                       (OD + 'ktables/hdfktable.py::HDF5KTable._load_pickle_file',
                        {'self._wavenumber_grid': "'bin_centers'", 'self._temperature_grid': "'t'", 'self._xsec_grid': "'kcoeff'",
                         'self._weights': "'weights'"})):
        with R.guard('1.keys', 'TAB', site, 'keys'):
            f = ix.func(site)
            fl = mkflow(ix, site)
            bad = []
            for attr, key in keys.items():
                es = [e for e in fl.of('store') if fmt(fl, e.target) == attr]
                if not es or not all("self._spec_dict[%s]" % key in unparse(e.node.value) for e in es):
                    bad.append('%s <- %s' % (attr, [unparse(e.node.value)[:60] for e in es]))
                elif any(isinstance(e.node.value, ast.BinOp) for e in es):
                    bad.append('%s is rescaled: %s' % (attr, [unparse(e.node.value)[:60] for e in es]))
            R.check('1.keys', 'TAB', site, 'grids, table and weights are read from their own keys without rescaling',
                    not bad, key='; '.join(bad), detail='; '.join(bad), loc=f.loc())
    # ---- 2. cache typestate
    for csite, dct, loader in CACHES:
        site = csite + '.__getitem__'
        with R.guard('2.cache', 'DOM', site, 'cache'):
            f = ix.func(site)
            fl = mkflow(ix, site)
            pe = param_env(fl, f, ['k'])
            rets = fl.of('return')
            why = []
            item = spec(fl, 'self.%s[k]' % dct, pe)
            if not rets or not all(fl.tab.equal(r.value, item) for r in rets):
                why.append('returns %s' % [fmt(fl, r.value) for r in rets])
            hit = [r for r in rets if r.guards and r.guards[0].positive and
                   fl.tab.equal(r.guards[0].rf, spec(fl, 'k in self.%s' % dct, pe)) and len(r.guards) == 1]
            if len(hit) != 1:
                why.append('no direct hit path')
            ld = [e for e in calls(fl, loader)]
            if len(ld) != 1 or not ld[0].guards or ld[0].guards[0].positive:
                why.append('%s() is not confined to the miss path' % loader)
            else:
                kw = ld[0].kw
                flt = kw.get('molecule_filter') or kw.get('pair_filter')
                if flt is None or not fl.tab.equal(flt, fl.tab.atom('tuple', (pe['k'],))):
                    why.append('loader filter is %s' % fmt(fl, flt))
            if not fl.of('raise'):
                why.append('a miss after loading does not raise')
            ctor = [e for e in fl.of('call') if e.name and e.name[0].isupper() and e.name not in ('Exception', 'GlobalCache')]
            if ctor:
                why.append('constructs %s per request' % [e.name for e in ctor])
            R.check('2.cache', 'DOM', site,
                    '__getitem__: return the stored object on a hit; on a miss load once with a filter for this key, '
                    'then serve from the dictionary or raise; nothing is constructed per request',
                    not why, key='; '.join(why), detail='; '.join(why), loc=f.loc())
    for csite, dct, loader in CACHES[:2]:
        site = csite + '.add_opacity'
        with R.guard('2.once', 'DOM', site, 'load once'):
            f = ix.func(site)
            fl = mkflow(ix, site)
            pe = param_env(fl, f, ['op', 'flt'])
            sts = [e for e in fl.of('store')]
            why = []
            for e in sts:
                if not any(g.early and not g.positive and 'in self.%s' % dct in g.text() for g in e.guards):
                    why.append('%s can overwrite a loaded molecule' % unparse(e.node))
                ta = atom_of(fl, e.target)
                if ta is None or not fl.tab.equal(ta.args[1], spec(fl, 'op.moleculeName', pe)) or \
                        not fl.tab.equal(e.value, pe['op']):
                    why.append('stores %s' % unparse(e.node))
            R.check('2.once', 'DOM', site, 'an opacity is stored under its moleculeName only if that name is not loaded yet',
                    len(sts) == 2 and not why, key='; '.join(why), detail='; '.join(why), loc=f.loc())
    # ---- 3. clear-after-set
    clear_after_set(ix, R)
    # ---- 4. discover passes the mode
    discover_args(ix, R)
    # ---- 5. molecule names
    names = {
        OD + 'pickleopacity.py::PickleOpacity.discover': 'sanitize_molecule_string(splits[0])',
        OD + 'exotransmit.py::ExoTransmitOpacity.discover': 'sanitize_molecule_string(pathlib.Path(f).stem[4:])',
        OD + 'ktables/picklektable.py::PickleKTable.discover': 'sanitize_molecule_string(splits[0])',
        OD + 'ktables/hdfktable.py::HDF5KTable.discover': 'sanitize_molecule_string(splits[0])',
        OD + 'hdf5opacity.py::HDF5Opacity.discover': 'op.moleculeName',
    }
    for site, want in names.items():
        with R.guard('5.name', 'TAB', site, 'molecule name'):
            f = ix.func(site)
            # the name is the first element of the tuple appended to the discovery list
            names = []
            for n in ast.walk(f.node):
                if isinstance(n, ast.Call) and isinstance(n.func, ast.Attribute) and n.func.attr == 'append' and n.args \
                        and isinstance(n.args[0], ast.Tuple) and len(n.args[0].elts) == 2:
                    e = n.args[0].elts[0]
                    if isinstance(e, ast.Name):
                        defs = [a.value for a in ast.walk(f.node) if isinstance(a, ast.Assign) and
                                isinstance(a.targets[0], ast.Name) and a.targets[0].id == e.id]
                        names.extend(unparse(d) for d in defs)
                    else:
                        names.append(unparse(e))
            sanitised = 'sanitize_molecule_string(' in want
            ok = len(names) == 1 and (names[0].startswith('sanitize_molecule_string(') if sanitised
                                      else names[0].endswith('.moleculeName'))
            R.check('5.name', 'TAB', site, 'discovered molecule name is %s' % (
                'passed through sanitize_molecule_string' if sanitised else 'the name stored in the file'), ok,
                    key=str(names), detail=str(names), loc=f.loc())
    site = 'taurex/util/util.py::sanitize_molecule_string'
    with R.guard('5.sanitize', 'ALG', site, 'sanitize'):
        f = ix.func(site)
        r = unparse(f.body()[-1])
        R.check('5.sanitize', 'ALG', site, 'sanitised name keeps element symbols and counts only (isotope prefixes, suffixes dropped)',
                r == "return ''.join([''.join(s) for s in re.findall('([A-Z][a-z]?)([0-9]*)', molecule)])",
                key=r, detail=r, loc=f.loc())


def loader_keys(ix):
    """{key: {(loader class, cache kind, local var, arg position)}} for
    GlobalCache keys that a discover() passes on to the constructor."""
    ktab = ix.find_class('KTable')
    opac = ix.find_class('Opacity')
    out = {}
    for c in ix.all_classes():
        if not (ix.is_subclass(c, opac) or ix.is_subclass(c, ktab)):
            continue
        for f in c.methods.get('discover', []):
            reads = {}
            for n in ast.walk(f.node):
                if isinstance(n, ast.Assign) and isinstance(n.targets[0], ast.Name):
                    for s in ast.walk(n.value):
                        if isinstance(s, ast.Subscript) and unparse(s.value) == 'GlobalCache()' and \
                                isinstance(s.slice, ast.Constant):
                            reads[n.targets[0].id] = s.slice.value
            for n in ast.walk(f.node):
                if isinstance(n, ast.Call) and isinstance(n.func, ast.Attribute) and n.func.attr == 'append' \
                        and n.args and isinstance(n.args[0], ast.Tuple) and len(n.args[0].elts) == 2 \
                        and isinstance(n.args[0].elts[1], ast.List):
                    for pos, e in enumerate(n.args[0].elts[1].elts):
                        if isinstance(e, ast.Name) and e.id in reads:
                            kind = 'KTableCache' if ix.is_subclass(c, ktab) else 'OpacityCache'
                            out.setdefault(reads[e.id], set()).add((c.name, kind, e.id, pos, f.site))
    return out


def clear_after_set(ix, R):
    keys = loader_keys(ix)
    R.info['constructor_keys'] = {k: sorted(x[0] for x in v) for k, v in keys.items()}
    if 'xsec_interpolation' not in keys:
        R.error('3.keys', 'EFF', OD, 'the interpolation key is passed by loaders', 'xsec_interpolation not found in any discover()')
        return
    n = 0
    for f in ix.all_functions():
        if f.module.relpath.startswith('taurex/plot'):
            continue
        for node in walk_no_nested(f.node):
            if isinstance(node, ast.Assign) and isinstance(node.targets[0], ast.Subscript) and \
                    unparse(node.targets[0].value) == 'GlobalCache()' and \
                    isinstance(node.targets[0].slice, ast.Constant) and node.targets[0].slice.value in keys:
                key = node.targets[0].slice.value
                need = {x[1] for x in keys[key]}
                n += 1
                cleared = set()
                later = False
                for s in walk_no_nested(f.node):
                    if isinstance(s, ast.Call) and isinstance(s.func, ast.Attribute) and s.func.attr == 'clear_cache' \
                            and s.lineno >= node.lineno:
                        tgt = unparse(s.func.value)
                        if tgt == 'self' and f.cls is not None:
                            cleared.add(f.cls.name)
                        elif tgt.endswith('()'):
                            cleared.add(tgt[:-2])
                missing = sorted(need - cleared)
                R.check('3.clear', 'EFF', f.site,
                        "writing GlobalCache()['%s'] is followed by clear_cache() of every cache whose loaders pass that "
                        'key to their constructor (%s)' % (key, sorted(need)),
                        not missing, key="%s written, %s not cleared" % (key, missing),
                        detail="GlobalCache()['%s'] is read by %s; %s keep serving objects built with the old value" % (
                            key, sorted(x[0] for x in keys[key]), missing), loc=f.loc(node))
    if n < 2:
        R.error('3.writers', 'EFF', CA, 'writers of the constructor keys are found', 'found %d' % n)


def discover_args(ix, R):
    keys = loader_keys(ix)
    want_param = {'xsec_interpolation': 'interpolation_mode', 'xsec_in_memory': 'in_memory'}
    n = 0
    for key, users in sorted(keys.items()):
        for cname, kind, var, pos, site in sorted(users):
            c = ix.find_class(cname)
            init = ix.lookup_method(c, '__init__')
            ps = init.params()[1:]
            n += 1
            ok = pos < len(ps) and ps[pos] == want_param.get(key)
            R.check('4.discover', 'ARG', site,
                    "the value read from GlobalCache()['%s'] lands on constructor parameter %r of %s" % (
                        key, want_param.get(key), cname),
                    ok, key='position %d is %s' % (pos, ps[pos] if pos < len(ps) else None),
                    detail='argument %d of %s.__init__ is %s' % (pos, cname, ps[pos] if pos < len(ps) else None))
            # the constructor forwards it to the base class
            if want_param.get(key) == 'interpolation_mode':
                src = unparse(init.node)
                R.check('4.forward', 'ARG', init.site, '%s forwards interpolation_mode to InterpolatingOpacity' % cname,
                        'interpolation_mode=interpolation_mode' in src, key='forward', detail='not forwarded', loc=init.loc())
    if n < 6:
        R.error('4.count', 'ARG', OD, 'the loaders that pass a mode are found', 'found %d' % n)
    site = OD + 'interpolateopacity.py::InterpolatingOpacity.__init__'
    with R.guard('4.mode', 'ARG', site, 'mode stored'):
        f = ix.func(site)
        fl = mkflow(ix, site)
        pe = param_env(fl, f, ['name', 'mode'])
        st = {fmt(fl, e.target): e.value for e in fl.of('store')}
        R.check('4.mode', 'ARG', site, 'the constructor stores the mode the dispatch reads (_interp_mode)',
                '_interp_mode' in ''.join(st) and fl.tab.equal(st.get('self._interp_mode'), pe['mode']),
                key=str({k: fmt(fl, v) for k, v in st.items()}), detail=str({k: fmt(fl, v) for k, v in st.items()}), loc=f.loc())


OC = CA + 'opacitycache.py'
MUTANTS = [
    ('pickle-unit', OD + 'pickleopacity.py', "self._pressure_grid = self._spec_dict['p'] * 100000.0", "self._pressure_grid = self._spec_dict['p'] * 1000.0", '1.pressure'),
    ('pickle-nounit', OD + 'ktables/picklektable.py', "self._pressure_grid = self._spec_dict['p'] * 100000.0", "self._pressure_grid = self._spec_dict['p']", '1.pressure'),
    ('hdf5-nounit', OD + 'hdf5opacity.py', "self._pressure_grid = self._spec_dict['p'][:] * p_conversion", "self._pressure_grid = self._spec_dict['p'][:]", '1.pressure'),
    ('hdf5-fixedunit', OD + 'ktables/hdfktable.py', "pressure_units = self._spec_dict['p'].attrs['units']", "pressure_units = 'bar'", '1.pressure'),
    ('exo-nosort-table', OD + 'exotransmit.py', 'self._xsec_grid = self._xsec_grid[:, :, grid_sort] * 10000', 'self._xsec_grid = self._xsec_grid * 10000', '1.exo'),
    ('exo-unit', OD + 'exotransmit.py', 'self._xsec_grid = self._xsec_grid[:, :, grid_sort] * 10000', 'self._xsec_grid = self._xsec_grid[:, :, grid_sort]', '1.exo'),
    ('exo-axes', OD + 'exotransmit.py', 'self._xsec_grid[pressure_count, :, lambda_count] = arr[1:] + 1e-60', 'self._xsec_grid[:, pressure_count, lambda_count] = arr[1:] + 1e-60', '1.exo'),
    ('pickle-key', OD + 'pickleopacity.py', "self._temperature_grid = self._spec_dict['t']", "self._temperature_grid = self._spec_dict['p']", '1.keys'),
    ('cache-reload', OC, "        if key in self.opacity_dict:\n            return self.opacity_dict[key]\n        else:\n            self.load_opacity(molecule_filter=[key])", "        if False:\n            return self.opacity_dict[key]\n        else:\n            self.load_opacity(molecule_filter=[key])", '2.cache'),
    ('cache-overwrite', OC, "            self.log.warning('Opacity with name %s already in opactiy dictionary %s skipping', opacity.moleculeName, self.opacity_dict.keys())\n            return\n", "            self.log.warning('Opacity with name %s already in opactiy dictionary %s skipping', opacity.moleculeName, self.opacity_dict.keys())\n", '2.once'),
    ('regress-f17', OC, "        self.clear_cache()\n        from .ktablecache import KTableCache\n        KTableCache().clear_cache()\n", "        self.clear_cache()\n", '3.clear'),
    ('memory-noclear', OC, "        GlobalCache()['xsec_in_memory'] = in_memory\n        self.clear_cache()", "        GlobalCache()['xsec_in_memory'] = in_memory", '3.clear'),
    ('discover-swap', OD + 'hdf5opacity.py', 'discovery.append((mol_name, [f, interp, mem]))', 'discovery.append((mol_name, [f, mem, interp]))', '4.discover'),
    ('ctor-drop-mode', OD + 'exotransmit.py', "super().__init__('ExoOpacity:{}'.format(pathlib.Path(filename).stem[4:]), interpolation_mode=interpolation_mode)", "super().__init__('ExoOpacity:{}'.format(pathlib.Path(filename).stem[4:]))", '4.forward'),
    ('name-raw', OD + 'pickleopacity.py', "            mol_name = sanitize_molecule_string(splits[0])\n            discovery.append", "            mol_name = splits[0]\n            discovery.append", '5.name'),
]
EQUIVALENTS = [
    ('pickle-unit-form', OD + 'pickleopacity.py', "self._pressure_grid = self._spec_dict['p'] * 100000.0", "self._pressure_grid = 1e5 * self._spec_dict['p']"),
]
