"""C18 Parallel post-processing is invariant to how samples are split across
ranks."""
import ast

from sa.helpers import (the_return, mkflow, spec, code, one, calls, bind_call, param_env,
                        fmt, atom_of, unparse, walk_no_nested)
from sa.helpers import guard_is, unlicensed
from sa.index import AnalysisError, Index, FuncInfo
from sa.algebra import RF, Slice, dotted

FLOOR = 14
OP = 'taurex/optimizer/optimizer.py'
UM = 'taurex/util/math.py'
MP = 'taurex/mpi.py'
SM = 'taurex/model/simplemodel.py'
FILES = [OP, UM, MP, SM]
EXPLANATION = (
    'Static rule conformance for the MPI post-processing: samples are '
    'partitioned as [rank::size] / range(rank, n, size) with rank and size bound '
    'to the MPI accessors (a disjoint cover); the random sub-sample is drawn on '
    'rank 0 only and then broadcast unconditionally; no collective call is '
    'control-dependent on a rank-derived value (checked on every function that '
    'calls a collective, with a positive fixture); no identity test against NaN '
    'is applied to gathered values (pickling does not preserve identity); the '
    'streaming update and the pooled combination match the weighted formulas.')
ASSUMPTIONS = ['mpi4py allgather/allreduce/bcast semantics (pickle round trip)', 'every rank runs the same program']
NOT_DECIDED = ['anything about a real MPI run', 'tie handling in the weight re-ordering of compute_derived_trace (N5)']

COLLECTIVES = {'allgather', 'allreduce', 'broadcast', 'barrier'}
RAW = {'allgather', 'allreduce', 'bcast', 'Bcast', 'Barrier', 'gather', 'scatter'}

FIXTURE = '''
from taurex import mpi
def bad(x):
    rank = mpi.get_rank()
    if rank == 0:
        x = mpi.allgather(x)
    return x
def bad2(x):
    from taurex.mpi import barrier, get_rank
    count = 0
    for i in range(get_rank(), 10, 2):
        barrier()
    return x
def good(x):
    v = None
    if mpi.get_rank() == 0:
        v = x
    v = mpi.broadcast(v)
    return v
'''


def rank_tainted_names(f):
    """Local names whose value derives from the rank (fixpoint over assignments)."""
    taint = set()
    changed = True

    def expr_tainted(e):
        for n in ast.walk(e):
            if isinstance(n, ast.Call) and (dotted(n.func) or '').split('.')[-1] in ('get_rank', 'shared_rank', 'Get_rank'):
                return True
            if isinstance(n, ast.Name) and n.id in taint:
                return True
        return False
    while changed:
        changed = False
        for n in walk_no_nested(f.node):
            if isinstance(n, ast.Assign) and expr_tainted(n.value):
                for t in n.targets:
                    for x in ast.walk(t):
                        if isinstance(x, ast.Name) and x.id not in taint:
                            taint.add(x.id)
                            changed = True
            if isinstance(n, ast.For) and expr_tainted(n.iter):
                for x in ast.walk(n.target):
                    if isinstance(x, ast.Name) and x.id not in taint:
                        taint.add(x.id)
                        changed = True
    return taint, expr_tainted


def _communicators(f):
    """names of locals of f that hold an MPI communicator: bound (directly or through another such local) to
    MPI.COMM_WORLD or to the result of a communicator method (Split / Split_type / Create / Dup)"""
    names = set()
    changed = True
    while changed:
        changed = False
        for n in walk_no_nested(f.node):
            if isinstance(n, ast.Assign) and len(n.targets) == 1 and isinstance(n.targets[0], ast.Name):
                d = dotted(n.value.func) if isinstance(n.value, ast.Call) else dotted(n.value)
                if d is None:
                    continue
                is_comm = d.endswith('COMM_WORLD') or d.endswith('COMM_SELF') or d.split('.')[-1] in ('shared_comm',) or (
                    isinstance(n.value, ast.Call) and d.split('.')[-1] in ('Split', 'Split_type', 'Create', 'Dup', 'Clone') and
                    d.split('.')[0] in names) or (not isinstance(n.value, ast.Call) and d in names)
                if is_comm and n.targets[0].id not in names:
                    names.add(n.targets[0].id)
                    changed = True
    return names or {'comm'}


def collective_sites(ix, f):
    """[(call node, name)] of collective calls in f (taurex.mpi wrappers or
    raw communicator methods inside taurex/mpi.py)."""
    out = []
    for n in walk_no_nested(f.node):
        if not isinstance(n, ast.Call):
            continue
        d = dotted(n.func)
        if d is None:
            continue
        last = d.split('.')[-1]
        if last in COLLECTIVES:
            r = ix.resolve_expr(f.module, n.func) if '.' in d else ix.resolve_name(f.module, d)
            if isinstance(r, FuncInfo) and r.module.relpath == MP:
                out.append((n, last))
            elif d.split('.')[0] == 'mpi':
                out.append((n, last))
        elif f.module.relpath == MP and last in RAW and d.count('.') >= 1 and d.split('.')[0] in _communicators(f):
            out.append((n, last))
    return out


def control_deps(f, node):
    """ast test/iter expressions the statement containing `node` is control
    dependent on (enclosing if / while / for, plus earlier early exits)."""
    deps = []

    def visit(stmts, acc):
        for i, s in enumerate(stmts):
            here = list(acc)
            if any(n is node for n in ast.walk(s)):
                # earlier siblings that may leave the block under a condition
                for p in stmts[:i]:
                    if isinstance(p, ast.If) and _may_leave(p):
                        here.append(p.test)
                if isinstance(s, ast.If):
                    if any(n is node for b in s.body for n in ast.walk(b)):
                        return visit(s.body, here + [s.test])
                    if any(n is node for b in s.orelse for n in ast.walk(b)):
                        return visit(s.orelse, here + [s.test])
                    return here  # in the test itself
                if isinstance(s, (ast.For, ast.While)):
                    cond = s.iter if isinstance(s, ast.For) else s.test
                    if any(n is node for b in s.body + s.orelse for n in ast.walk(b)):
                        return visit(s.body + s.orelse, here + [cond])
                    return here
                if isinstance(s, ast.Try):
                    for blk in [s.body, s.orelse, s.finalbody] + [h.body for h in s.handlers]:
                        if any(n is node for b in blk for n in ast.walk(b)):
                            return visit(blk, here)
                if isinstance(s, ast.With):
                    return visit(s.body, here)
                return here
        return acc
    return visit(f.node.body, [])


def expr_deps(f, node):
    """conditions of enclosing conditional expressions / short-circuit
    operators / comprehension filters"""
    out = []
    for p in ast.walk(f.node):
        if isinstance(p, ast.IfExp):
            if any(x is node for b in (p.body, p.orelse) for x in ast.walk(b)):
                out.append(p.test)
        elif isinstance(p, ast.BoolOp):
            for i, v in enumerate(p.values[1:], 1):
                if any(x is node for x in ast.walk(v)):
                    out.extend(p.values[:i])
        elif isinstance(p, (ast.ListComp, ast.GeneratorExp, ast.SetComp, ast.DictComp)):
            inside = any(x is node for x in ast.walk(p.elt if not isinstance(p, ast.DictComp) else p.value))
            if inside:
                for g in p.generators:
                    out.extend(g.ifs)
                    out.append(g.iter)
    return out


def _may_leave(stmt):
    """stmt can transfer control out of the enclosing block: return / raise
    anywhere, break / continue not enclosed by a loop inside stmt."""
    def walk(n, in_loop):
        if isinstance(n, (ast.FunctionDef, ast.AsyncFunctionDef, ast.Lambda, ast.ClassDef)):
            return False
        if isinstance(n, (ast.Return, ast.Raise)):
            return True
        if isinstance(n, (ast.Break, ast.Continue)) and not in_loop:
            return True
        loop = in_loop or isinstance(n, (ast.For, ast.While))
        return any(walk(c, loop) for c in ast.iter_child_nodes(n))
    return any(walk(c, False) for c in ast.iter_child_nodes(stmt))


def collective_rule(ix, R, funcs, oid, count_floor=None):
    n = 0
    for f in funcs:
        sites = collective_sites(ix, f)
        if not sites:
            continue
        taint, tainted = rank_tainted_names(f)
        for node, name in sites:
            n += 1
            deps = control_deps(f, node) + expr_deps(f, node)
            bad = [unparse(d) for d in deps if tainted(d)]
            R.check(oid, 'MPI', f.site,
                    'collective %s() is not control-dependent on a rank-derived value' % name,
                    not bad, key='%s under %s' % (name, bad),
                    detail='%s() executes only when %s holds, which depends on the rank: ranks that skip it '
                           'leave the others blocked' % (name, bad), loc=f.loc(node))
    return n


def run(ix, R):
    # ---- 1. partition form
    site = OP + '::Optimizer.generate_profiles'
    with R.guard('1.part.profiles', 'MPI', site, 'partition'):
        f = ix.func(site)
        fl = mkflow(ix, site)
        from rules.C06 import closure_flow
        outer, inner, cfl = closure_flow(ix, site, 'sample_iter')
        fl = outer
        ys = cfl.of('yield')
        y = one(ys, 'yield in the sample iterator')
        lp = one(y.loops, 'sample loop')
        it = lp.iter_rf[0]
        bvals = [e.value for e in fl.of('assign') if isinstance(e.value, RF) and atom_of(fl, e.value) is not None and
                 atom_of(fl, e.value).head == 'call' and 'broadcast' in atom_of(fl, e.value).extra[0]]
        why = []
        ia = atom_of(cfl, it)
        sl = ia.args[1] if ia is not None and ia.head == 'idx' and len(ia.args) == 2 else None
        from sa.algebra import Slice
        if not isinstance(sl, Slice) or sl.hi is not None or sl.lo is None or sl.step is None:
            why.append('iterates %s' % fmt(cfl, it)[:120])
        else:
            if not cfl.tab.equal(sl.lo, spec(cfl, 'mpi.get_rank()')):
                why.append('starts at %s' % fmt(cfl, sl.lo))
            if not cfl.tab.equal(sl.step, spec(cfl, 'mpi.nprocs()')):
                why.append('steps by %s' % fmt(cfl, sl.step))
            if not any(cfl.tab.equal(ia.args[0], b_) for b_ in bvals):
                why.append('partitions %s, which is not the broadcast list' % fmt(cfl, ia.args[0])[:80])
        R.check('1.part.profiles', 'MPI', site,
                'samples are split as sample_list[rank::size], rank = mpi.get_rank(), size = mpi.nprocs() (disjoint cover)',
                not why, key='; '.join(why), detail='; '.join(why), loc=inner.loc(lp.node))
        # each sample: update_model(parameters) then yield its own weight
        item = cfl.tab.atom('elem', (it, lp.index))
        um = [e for e in calls(cfl, 'update_model')]
        ok = len(um) == 1 and len(um[0].args) == 1 and cfl.tab.equal(um[0].args[0], cfl.tab.atom('idx', (item, cfl.tab.const(0)))) and \
            y.value is not None and cfl.tab.equal(y.value, cfl.tab.atom('idx', (item, cfl.tab.const(1)))) and \
            um[0].loops == (lp,) and not um[0].guards and y.loops == (lp,) and not y.guards and \
            cfl.events.index(um[0]) < cfl.events.index(y)
        R.check('1.once', 'MPI', site, 'every assigned sample updates the model and yields its own weight exactly once, unconditionally',
                ok, key='update/yield', detail='update_model %s, yields %s under %s' % (
                    [fmt(cfl, a_) for e in um for a_ in e.args], fmt(cfl, y.value) if y.value is not None else None,
                    [g.text() for g in y.guards]), loc=inner.loc(lp.node))
        ce = one(calls(fl, 'compute_error'), 'compute_error call')
        R.check('1.feed', 'ARG', site, 'the partitioned iterator is what compute_error consumes, with the observation binner',
                unparse(ce.node.args[0]) == 'sample_iter' and unparse(ce.node.func) == 'self._model.compute_error'
                and fl.tab.equal(ce.kw.get('binner'), code(fl, 'self._binner')),
                key=unparse(ce.node), detail=unparse(ce.node), loc=f.loc(ce.node))
    site = OP + '::Optimizer.compute_derived_trace'
    with R.guard('1.part.derived', 'MPI', site, 'partition'):
        f = ix.func(site)
        fl = mkflow(ix, site)
        pe = param_env(fl, f, ['S'])
        loops = [e.loop for e in fl.of('loop') if e.loop.kind == 'range']
        lp = one(loops, 'range loop')
        a, b, c = lp.range_args
        ok = fl.tab.equal(a, spec(fl, 'mpi.get_rank()')) and fl.tab.equal(c, spec(fl, 'mpi.nprocs()')) and \
            fl.tab.equal(b, spec(fl, 'len(self.get_samples(S))', pe))
        R.check('1.part.derived', 'MPI', site,
                'derived traces iterate range(rank, number of samples, number of ranks)', ok,
                key=unparse(lp.iter_ast) + ' = ' + ', '.join(fmt(fl, x) for x in lp.range_args),
                detail='range(%s)' % ', '.join(fmt(fl, x) for x in lp.range_args), loc=f.loc(lp.node))
    # ---- 2. rank-0 draw then broadcast
    site = OP + '::Optimizer.generate_profiles'
    with R.guard('2.draw', 'MPI', site, 'draw'):
        f = ix.func(site)
        fl = mkflow(ix, site)
        draws = calls(fl, 'sample_parameters')
        d = one(draws, 'sample_parameters call')
        bcs = calls(fl, 'broadcast')
        if not bcs:
            R.fail('2.draw', 'MPI', site, 'the rank-0 sub-sample is broadcast to every rank',
                   'no broadcast', 'the sub-sample drawn on rank 0 is never broadcast: other ranks have no samples', f.loc(d.node))
            raise AnalysisError('broadcast removed')
        bc = one(bcs, 'broadcast call')
        why = []
        g = d.guards
        if len(g) != 1 or not g[0].positive or not fl.tab.equal(g[0].rf, spec(fl, 'mpi.get_rank() == 0')):
            why.append('draw guarded by %s' % [x.text() for x in g])
        if bc.guards or bc.loops:
            why.append('broadcast is conditional')
        if fl.events.index(bc) < fl.events.index(d):
            why.append('broadcast precedes the draw')
        # broadcast argument is the drawn list (or None elsewhere) and its result is what is partitioned
        ba = atom_of(fl, bc.args[0])
        if ba is None or ba.head != 'guard' or 'sample_parameters' not in fmt(fl, ba.args[1]):
            why.append('broadcasts %s' % fmt(fl, bc.args[0]))
        from rules.C06 import closure_flow
        _o, _i, cfl = closure_flow(ix, site, 'sample_iter')
        ys_ = cfl.of('yield')
        part_ok = False
        if not ys_ or not ys_[0].loops:
            raise AnalysisError('the loop of the sample iterator is not found')
        if ys_ and ys_[0].loops:
            ia_ = atom_of(cfl, ys_[0].loops[0].iter_rf[0])
            bres = [e.value for e in _o.of('assign') if isinstance(e.value, RF) and atom_of(_o, e.value) is not None and
                    atom_of(_o, e.value).head == 'call' and 'broadcast' in atom_of(_o, e.value).extra[0]]
            part_ok = ia_ is not None and ia_.head == 'idx' and any(cfl.tab.equal(ia_.args[0], b_) for b_ in bres)
        if not part_ok:
            why.append('partitioned list is not the broadcast result')
        R.check('2.draw', 'MPI', site,
                'the random sub-sample is drawn only on rank 0, then broadcast unconditionally, and the broadcast '
                'result is what every rank partitions',
                not why, key='; '.join(why), detail='; '.join(why), loc=f.loc(d.node))
    with R.guard('2.weight', 'DOM', OP, 'positive weights'):
        positive_weights(ix, R)
    with R.guard('5.pooled', 'MPI', SM, 'pooled variance'):
        local_variance(ix, R)
    site = 'taurex/util/util.py::random_int_iter'
    with R.guard('2.rand', 'MPI', site, 'random source'):
        f = ix.func(site)
        ps = f.params()
        fl = mkflow(ix, site)
        pe = param_env(fl, f, ['t', 'fr'])
        y = one(fl.of('yield'), 'yield')
        lp = one(y.loops, 'loop around the yield')
        why = []
        want = spec(fl, 'random.sample(range(t), int(t*fr))', pe)
        if not fl.tab.equal(fl.conv._iterand(lp.iter_rf[0]), want):
            why.append('iterates over %s' % fmt(fl, lp.iter_rf[0]))
        if y.value is None or not fl.tab.equal(y.value, fl.tab.atom('elem', (lp.iter_rf[0], lp.index))):
            why.append('yields %s' % fmt(fl, y.value))
        if unlicensed(fl, y):
            why.append('the yield is conditional: %s' % [g.text() for g in unlicensed(fl, y)])
        R.check('2.rand', 'MPI', site, 'the sub-sample is random.sample(range(total), int(total*fraction)) without replacement: '
                'every drawn index is yielded once', not why, key='; '.join(why), detail='; '.join(why), loc=f.loc(y.node))
        seeded = any(isinstance(n, ast.Call) and (dotted(n.func) or '').endswith('seed') for n in ast.walk(f.node))
        R.check('2.noseed', 'MPI', site, 'no (rank-dependent) re-seeding of the random source', not seeded,
                key='seed call', detail='random_int_iter re-seeds the generator', loc=f.loc())
    # ---- 3. collective discipline
    funcs = [f for f in ix.all_functions() if not f.module.relpath.startswith('taurex/plot')]
    nested = []
    for f in funcs:
        for n in ast.walk(f.node):
            if isinstance(n, ast.FunctionDef) and n is not f.node:
                nested.append(FuncInfo(f.module, f.qualname + '.' + n.name, n, cls=f.cls, parent=f))
    n = collective_rule(ix, R, funcs + nested, '3.coll')
    if n < 10:
        R.error('3.coll.count', 'MPI', 'taurex', 'the confirmed collective call sites exist', 'found %d' % n)
    R.info['collective_sites'] = n
    # positive fixture: the rule must fire on a known-bad example on every run
    fx = Index(overrides={'taurex/_verif_fixture_mpi.py': FIXTURE}, base=ix)
    from sa.report import Report, VIOL
    R2 = Report('C18', quiet=True)
    ffs = [fx.func('taurex/_verif_fixture_mpi.py::' + nm) for nm in ('bad', 'bad2', 'good')]
    collective_rule(fx, R2, ffs, 'fx')
    st = [o.status for o in R2.obls]
    R.check('3.fixture', 'MPI', 'fixture', 'the collective rule flags the two known-bad fixtures and not the good one',
            st == [VIOL, VIOL, 'OK'], key=str(st), detail='fixture statuses %s' % st)
    site = UM + '::OnlineVariance.parallelVariance'
    with R.guard('3.gathers', 'MPI', site, 'gathers'):
        f = ix.func(site)
        fl = mkflow(ix, site)
        ag = calls(fl, 'allgather')
        args = [fmt(fl, e.args[0]) for e in ag]
        meanph = spec(fl, '_guard(self.mean is None, np.nan, self.mean)')
        roles = {'variance': code(fl, 'self.variance'), 'mean': meanph, 'wcount': code(fl, 'self.wcount'),
                 'count': code(fl, 'self.count')}
        cv = one(calls(fl, 'combine_variance'), 'combine_variance call')
        gat = lambda e: fl.tab.atom('call', tuple(e.args), extra=('fn:mpi.allgather',))
        bundle = atom_of(fl, ag[0].args[0]) if len(ag) == 1 and ag[0].args else None
        if bundle is not None and bundle.head == 'tuple':
            # one collective for all per-rank statistics: allgather((variance, mean, wcount, count)) and the lists are
            # rebuilt from the gathered records in rank order
            pos = {}
            for k_, x in enumerate(bundle.args):
                for r_, w_ in roles.items():
                    if fl.tab.equal(x, w_):
                        pos[r_] = k_
            ok = set(pos) >= {'variance', 'mean', 'wcount'} and not ag[0].guards and not ag[0].loops
            args = [fmt(fl, ag[0].args[0])]

            def column(rf):
                a_ = atom_of(fl, rf)
                if a_ is None or a_.head != 'comp' or len(a_.args) < 2 or not fl.tab.equal(a_.args[1], gat(ag[0])):
                    return None
                e_ = atom_of(fl, a_.args[0])
                if e_ is None or e_.head != 'idx' or fmt(fl, e_.args[0]) != '%b0' or e_.args[1].const() is None:
                    return None
                tl = atom_of(fl, a_.args[2]) if len(a_.args) > 2 else None
                if tl is not None and tl.args:
                    return None            # a filtered comprehension drops ranks
                return int(e_.args[1].const())
            cols = [column(a) for a in cv.args]
            okc = ok and cols == [pos.get('mean'), pos.get('variance'), pos.get('wcount')]
        else:
            ok = len(ag) == 4 and all(not e.guards and not e.loops for e in ag) and \
                args[0] == 'self.variance' and args[2] == 'self.wcount' and args[3] == 'self.count' and \
                fl.tab.equal(ag[1].args[0], meanph)
            okc = len(ag) == 4 and [fmt(fl, a) for a in cv.args] == [fmt(fl, gat(ag[1])), fmt(fl, gat(ag[0])), fmt(fl, gat(ag[2]))]
        R.check('3.gathers', 'MPI', site,
                'variance, mean (NaN placeholder when empty), weight sum and count are gathered unconditionally in one order',
                ok, key=str(args), detail='gathers %s' % args, loc=f.loc())
        R.check('3.combine.args', 'ARG', site, 'combine_variance(gathered means, gathered variances, gathered weight sums)',
                okc, key=str([fmt(fl, a) for a in cv.args]), detail=str([fmt(fl, a) for a in cv.args]), loc=f.loc(cv.node))
    # ---- 4. identity tests on gathered values
    scope = [f for f in ix.functions_in(UM)] + [f for f in ix.functions_in(OP)] + [f for f in ix.functions_in(SM)]
    nid = 0
    for f in scope:
        for n in walk_no_nested(f.node):
            if isinstance(n, ast.Compare) and any(isinstance(o, (ast.Is, ast.IsNot)) for o in n.ops):
                for c in [n.left] + n.comparators:
                    t = unparse(c)
                    if t in ('np.nan', 'numpy.nan', 'math.nan', "float('nan')", 'np.NaN', 'np.inf') or \
                            (isinstance(c, ast.Constant) and isinstance(c.value, (int, float)) and
                             not isinstance(c.value, bool)):
                        nid += 1
                        R.fail('4.identity', 'MPI', f.site,
                               'no `is` / `is not` test against NaN (or any non-singleton) on values that crossed an MPI gather',
                               '%s' % unparse(n),
                               '`%s`: values returned by allgather are unpickled copies, so identity with %s is never true '
                               '(pickle.loads(pickle.dumps(np.nan)) is np.nan == False): the NaN placeholder of a rank '
                               'without enough samples is treated as data' % (unparse(n), t), f.loc(n))
    if nid == 0:
        R.ok('4.identity', 'MPI', UM, 'no identity test against NaN / numeric literals in the variance, optimizer and model code')
    # ---- 5. formulas
    site = UM + '::OnlineVariance.update'
    with R.guard('5.update', 'ALG', site, 'welford'):
        f = ix.func(site)
        fl = mkflow(ix, site, forward_attrs=True)
        pe = param_env(fl, f, ['v', 'w'])
        st = {}
        for e in fl.of('store'):
            st.setdefault(fmt(fl, e.target), []).append(e)
        why = []
        for k, inc in (('self.count', '1'), ('self.wcount', 'w'), ('self.wcount2', 'w*w')):
            es = [e for e in fl.of('store') if unparse(e.target_ast) == k]
            if len(es) != 1 or es[0].op != 'Add' or not fl.tab.equal(es[0].value, spec(fl, inc, pe)):
                why.append('%s update %s' % (k, [unparse(e.node) for e in es]))
        mo = None
        means = [e for e in fl.of('store') if unparse(e.target_ast) == 'self.mean' and e.op is None
                 and not any(g.rf is None or (atom_of(fl, g.rf) is not None and atom_of(fl, g.rf).head == 'except')
                             for g in e.guards) and not any(
                     g.rf is not None and guard_is(fl, g, spec(fl, 'self.mean is None'), True) for g in e.guards)]
        m2 = [e for e in fl.of('store') if unparse(e.target_ast) == 'self.M2' and e.op == 'Add']
        # the previous mean: the local whose value the new mean is built from (whatever it is called)
        if len(means) == 1:
            W_ = code(fl, 'self.wcount') + pe['w']
            mo = [e for e in fl.of('assign') if isinstance(e.value, RF) and not e.loops and
                  fl.tab.equal(means[0].value, e.value + (pe['w'] / W_) * (pe['v'] - e.value))]
            if not mo:
                mo = [e for e in fl.of('assign') if isinstance(e.value, RF) and not e.loops and
                      e.value.mentions(lambda a: a.head == 'attr' and a.args[0] == 'self.mean')][:1]
        if not mo or len(means) != 1 or len(m2) != 1:
            why.append('update statements: mean_old %d, mean %d, M2 %d' % (len(mo or []), len(means), len(m2)))
        else:
            m_old = mo[0].value
            W = code(fl, 'self.wcount') + pe['w']
            wantm = m_old + (pe['w'] / W) * (pe['v'] - m_old)
            if not fl.tab.equal(means[0].value, wantm):
                why.append('mean update %s' % fmt(fl, means[0].value))
            m_new = means[0].value
            wantq = pe['w'] * (pe['v'] - m_old) * (pe['v'] - m_new)
            if not fl.tab.equal(m2[0].value, wantq):
                if m2[0].value.mentions(lambda a: a.head == 'phi'):
                    raise AnalysisError('the M2 increment is built from a local with several definitions (%s): which one '
                                        'reaches it is not followed' % unparse(m2[0].node)[:80])
                why.append('M2 increment does not use (x - mean_old)(x - mean_new): %s' % unparse(m2[0].node))
            if fl.events.index(m2[0]) < fl.events.index(means[0]):
                why.append('M2 updated before the mean')
            wc = [e for e in fl.of('store') if unparse(e.target_ast) == 'self.wcount']
            if wc and fl.events.index(wc[0]) > fl.events.index(means[0]):
                why.append('weight sum updated after the mean')
        R.check('5.update', 'ALG', site,
                'weighted Welford: W += w; mean_new = mean_old + (w/W)(x - mean_old); M2 += w (x - mean_old)(x - mean_new)',
                not why, key='; '.join(why), detail='; '.join(why), loc=f.loc())
    site = UM + '::OnlineVariance.variance'
    with R.guard('5.var', 'ALG', site, 'variance'):
        f = ix.func(site)
        fl = mkflow(ix, site)
        rets = fl.of('return')
        # by scenario (the decision may sit in a shared helper): fewer than two samples / at least two
        from sa.helpers import resolve_guards, has_guard
        rv_ = the_return(fl).value
        few_ = fl.tab.canon_cond(spec(fl, 'self.count < 2'))
        vals_ = {}
        for scen_ in (True, False):
            def dec_(c, scen_=scen_):
                cc, fc = fl.tab.canon_cond(c)
                return (scen_ != (fc != few_[1])) if fl.tab.equal(cc, few_[0]) else None
            def dec2_(c, dec_=dec_):
                d_ = dec_(c)
                if d_ is not None:
                    return d_
                ca_ = atom_of(fl, c)
                if ca_ is not None and ca_.head == 'bool' and ca_.extra in ('And', 'Or'):
                    ds_ = [dec2_(x) for x in ca_.args]
                    if ca_.extra == 'Or':
                        return True if any(x is True for x in ds_) else (False if all(x is False for x in ds_) else None)
                    return False if any(x is False for x in ds_) else (True if all(x is True for x in ds_) else None)
                return None
            vals_[scen_] = resolve_guards(fl, rv_, dec2_)
        extra_nan = None
        ga_ = atom_of(fl, vals_[False])
        if ga_ is not None and ga_.head == 'guard' and 'nan' in (fmt(fl, ga_.args[1]), fmt(fl, ga_.args[2])):
            # with two or more samples the placeholder is still returned under some further condition: those ranks are
            # then treated as having no variance when the partial results are pooled
            extra_nan = fmt(fl, ga_.args[0])[:120]
        elif has_guard(vals_[False]) or has_guard(vals_[True]):
            raise AnalysisError('the variance is not settled by `count < 2`: %s' % fmt(fl, vals_[False])[:120])
        ok = extra_nan is None and fl.tab.equal(vals_[False], spec(fl, 'self.M2/self.wcount')) and fmt(fl, vals_[True]) == 'nan'
        if extra_nan is not None:
            rets = []
        R.check('5.var', 'ALG', site, 'variance = M2/W, NaN placeholder with fewer than two samples' if extra_nan is None else
                'variance = M2/W, NaN placeholder with fewer than two samples (and only then: here also under `%s`)' % extra_nan, ok,
                key=str([fmt(fl, r.value) for r in rets]), detail=str([fmt(fl, r.value) for r in rets]), loc=f.loc())
    site = UM + '::OnlineVariance.combine_variance'
    with R.guard('5.combine', 'ALG', site, 'combine'):
        f = ix.func(site)
        fl = mkflow(ix, site)
        pe = param_env(fl, f, ['A', 'V', 'C'])
        size = spec(fl, 'np.sum(C)', pe)
        lps = [e.loop for e in fl.of('loop')]
        if len(lps) != 2:
            raise AnalysisError('expected two loops')
        l1, l2 = lps
        why = []
        # the shape this rule reads: a first pass over zip(averages, counts) that builds the pooled mean, a second over
        # zip(averages, counts', variance) that builds the pooled squares; anything else is not decided here
        if len(l1.iter_rf) != 2 or not fl.tab.equal(l1.iter_rf[0], pe['A']) or not fl.tab.equal(l1.iter_rf[1], pe['C']) or \
                len(l2.iter_rf) != 3 or not fl.tab.equal(l2.iter_rf[0], pe['A']) or not fl.tab.equal(l2.iter_rf[2], pe['V']):
            raise AnalysisError('the two accumulation loops over zip(averages, counts) and zip(averages, counts, variance) '
                                'are not found: %s / %s' % (unparse(l1.iter_ast)[:60], unparse(l2.iter_ast)[:60]))
        a1 = fl.tab.atom('elem', (pe['A'], l1.index))
        c1 = fl.tab.atom('elem', (pe['C'], l1.index))
        # the accumulators are identified by what is added to them, not by their names
        hits = [e for e in fl.of('assign') + fl.of('aug') if l1 in e.loops and isinstance(e.value, RF) and
                getattr(e, 'op', None) != 'for' and fl.tab.equal(e.value, a1 * c1)]
        mname = hits[0].name if hits and len({e.name for e in hits}) == 1 else None
        acc = [e for e in fl.of('assign') + fl.of('aug') if l1 in e.loops and e.name == mname and
               getattr(e, 'op', None) != 'for']
        for e in acc:
            v = e.value
            if not fl.tab.equal(v, a1 * c1):
                why.append('mean term %s' % fmt(fl, v))
        div = [e for e in fl.of('aug') if e.name == mname and not e.loops]
        if len(div) != 1 or div[0].op != 'Div' or not fl.tab.equal(div[0].value, size):
            why.append('mean normalisation %s' % [unparse(e.node) for e in div])
        cn = [e for e in fl.of('assign') if e.name == f.params()[3] and not e.loops]
        cprime = cn[-1].value if cn else pe['C']
        if cn and not fl.tab.equal(cprime, pe['C'] * size / size):
            why.append('counts rescaled to %s' % fmt(fl, cprime))
        a2 = fl.tab.atom('elem', (pe['A'], l2.index))
        c2 = fl.tab.atom('elem', (cprime, l2.index))
        v2 = fl.tab.atom('elem', (pe['V'], l2.index))
        if len(l2.iter_rf) != 3:
            why.append('second loop %s' % unparse(l2.iter_ast))
        sq0 = [e for e in fl.of('assign') + fl.of('aug') if l2 in e.loops and isinstance(e.value, RF) and
               getattr(e, 'op', None) != 'for' and fl.tab.equal(e.value, c2 * v2)]
        sname = sq0[0].name if sq0 else None
        sq = [e for e in fl.of('assign') + fl.of('aug') if l2 in e.loops and e.name == sname and getattr(e, 'op', None) != 'for']
        avg_final = None
        terms = []
        for e in sq:
            terms.append(e.value)
        dev = [t for t in terms if t.mentions(lambda a: a.head == 'elem') and fl.tab.proportional(t, t) and
               not fl.tab.equal(t, c2 * v2)]
        var = [t for t in terms if fl.tab.equal(t, c2 * v2)]
        if len(var) != 1:
            why.append('variance term %s' % [fmt(fl, t) for t in terms])
        m = div[0].new if div else None
        for t in dev:
            # cnt * (average - avg)**2 with average the normalised pooled mean
            if m is None or not fl.tab.equal(t, c2 * (m - a2) * (m - a2)):
                why.append('deviation term %s' % fmt(fl, t))
        if len(dev) != 2:
            why.append('%d deviation statements' % len(dev))
        r = the_return(fl)
        ra = atom_of(fl, r.value)
        fin = [e for e in fl.of('assign') + fl.of('aug') if e.name == sname]
        sq_final = fin[-1].new if fin and hasattr(fin[-1], 'new') and fin[-1].kind == 'aug' else (fin[-1].value if fin else None)
        if ra is None or ra.head != 'tuple' or len(ra.args) != 2 or m is None or not fl.tab.equal(ra.args[0], m) or \
                not (isinstance(ra.args[1], RF) and ra.args[1].mentions(lambda a: a.head == 'phi' and a.args[0] == sname) and
                     fl.tab.proportional(ra.args[1] * size, ra.args[1] * size) is not None):
            why.append('returns %s' % unparse(r.value_ast))
        else:
            # second element: the squares accumulator divided by the total weight
            num = ra.args[1] * size
            if num.mentions(lambda a: fl.tab.equal(RF(fl.tab, __import__('sa.algebra', fromlist=['p_atom']).p_atom(fl.tab.intern(a.head, a.args, a.extra, None))), size)):
                why.append('pooled squares are not divided by the total weight: %s' % fmt(fl, ra.args[1]))
        R.check('5.combine', 'ALG', site,
                'pooled mean = sum c_i m_i / sum c_i; pooled variance = sum c_i (v_i + (m_i - m)^2) / sum c_i',
                not why, key='; '.join(why), detail='; '.join(why), loc=f.loc())
        # placeholder handling uses a value test, and zero-weight ranks are skipped
        # stated on the accumulating statements: the conditions under which each one runs (enclosing tests and the
        # `continue`s before it), whatever form the skipping takes
        skips = [e for e in fl.of('continue')]

        def cond_kind(g, lp):
            c = fl.tab.atom('elem', ((pe['C'] if lp is l1 else cprime), lp.index))
            a_ = fl.tab.atom('elem', (pe['A'], lp.index))
            v_ = fl.tab.atom('elem', (pe['V'], lp.index)) if lp is l2 else None
            if g.rf is None:
                return 'other'
            # (weights are sums of non-negative sample weights: `c > 0` is `not c == 0`)
            if guard_is(fl, g, spec(fl, 'c > 0', {'c': c}), True):
                return 'zero-'
            for cond, label in ((spec(fl, 'c == 0', {'c': c}), 'zero'), (spec(fl, '_missing(a)', {'a': a_}), 'missing-mean'),
                                (spec(fl, '_or(c == 0, _missing(a))', {'c': c, 'a': a_}), 'zero-or-missing-mean')) + \
                    (((spec(fl, '_missing(v)', {'v': v_}), 'missing-var'),) if v_ is not None else ()):
                if guard_is(fl, g, cond, True):
                    return label + '+'
                if guard_is(fl, g, cond, False):
                    return label + '-'
            at_ = atom_of(fl, g.rf)
            if at_ is not None and at_.head == 'cmp' and at_.extra in (('Is',), ('IsNot',)) and 'None' in fmt(fl, g.rf):
                return 'first'          # `acc is None`: the first term is assigned, the others added
            return 'other'
        oks = True
        odd = []
        dev_ev = [e for e in sq if not fl.tab.equal(e.value, c2 * v2)]
        var_ev = [e for e in sq if fl.tab.equal(e.value, c2 * v2)]
        for evs_, lp_, allowed in ((acc, l1, {'zero-', 'missing-mean-', 'zero-or-missing-mean-', 'first'}),
                                   (dev_ev, l2, {'zero-', 'missing-mean-', 'zero-or-missing-mean-', 'first'}),
                                   (var_ev, l2, {'zero-', 'missing-var-', 'missing-mean-', 'zero-or-missing-mean-', 'first'})):
            for e in evs_:
                for g in e.guards:
                    k_ = cond_kind(g, lp_)
                    if k_ in allowed:
                        continue
                    if k_ == 'other' and not (g.rf is not None and g.rf.mentions(lambda a: a.head == 'elem')):
                        raise AnalysisError('an accumulation runs under a condition this rule does not read: %s' % g.text())
                    oks = False
                    odd.append('%s under %s' % (unparse(e.node)[:40], g.text()))
        R.check('5.skip', 'GUARD', site, 'only ranks with zero weight are skipped; the between-rank term c_i (m_i - m)^2 does not depend on the rank having a variance', oks,
                key=str(odd or [[g.text() for g in e.guards] for e in skips]),
                detail=str(odd or [[g.text() for g in e.guards] for e in skips]), loc=f.loc())
    # compute_error feeds OnlineVariance with the yielded weight
    site = SM + '::SimpleForwardModel.compute_error'
    with R.guard('5.feed', 'ARG', site, 'compute_error'):
        f = ix.func(site)
        fl = mkflow(ix, site)
        ups = [e for e in calls(fl, 'update') if e.loops]
        lp = ups[0].loops[0]
        w = fl.tab.atom('elem', (lp.iter_rf[0], lp.index))
        ok = all(e.kw.get('weight') is not None and fl.tab.equal(e.kw['weight'], w) for e in ups) and \
            unparse(lp.iter_ast) == 'samples()'
        # (how many accumulators there are is the model's business; each one that is fed must be fed the sample's weight)
        bad_w = [e for e in ups if not (e.kw.get('weight') is not None and fl.tab.equal(e.kw['weight'], w))]
        R.check('5.feed', 'ARG', site, 'every accumulator is updated with the weight yielded for that sample',
                ok and len(ups) >= 1, key=str([unparse(e.node)[:60] for e in (bad_w or ups)]),
                detail='%d updates, %d without the yielded weight' % (len(ups), len(bad_w)), loc=f.loc())
        pv = calls(fl, 'parallelVariance')
        def _exists(g):
            a_ = atom_of(fl, g.rf) if g.rf is not None else None
            return a_ is not None and a_.head == 'cmp' and a_.extra == ('Is',) and not g.positive and \
                fmt(fl, a_.args[-1]) == 'None'
        okp = all(not e.guards or all(_exists(g) for g in e.guards) for e in pv)
        if not pv:
            R.error('5.pv', 'MPI', site, 'parallelVariance calls are found', 'no parallelVariance call in compute_error', loc=f.loc())
        else:
            R.check('5.pv', 'MPI', site, 'parallelVariance (which gathers) is called for the same accumulators on every rank',
                    okp, key=str([[g.text() for g in e.guards] for e in pv]),
                    detail=str([[g.text() for g in e.guards] for e in pv]), loc=f.loc())


def positive_weights(ix, R):
    """OnlineVariance.update divides by the running sum of weights: with numpy floats a first sample of weight exactly
    0.0 gives 0/0 = NaN (no ZeroDivisionError), and one NaN rank poisons every pooled result.  sample_parameters
    therefore hands out weights[x] + a tiny positive constant."""
    site = OP + '::Optimizer.sample_parameters'
    f = ix.func(site)
    fl = mkflow(ix, site)
    pe = param_env(fl, f, ['S'])
    ys = fl.of('yield')
    stmt = 'every weight handed to the accumulators is strictly positive (the sample weight plus a tiny positive constant)'
    if len(ys) != 1 or len(ys[0].loops) != 1:
        R.error('2.weight', 'DOM', site, stmt, '%d yields' % len(ys), loc=f.loc())
        return
    y = ys[0]
    at = atom_of(fl, y.value)
    if at is None or at.head != 'tuple' or len(at.args) != 2:
        R.error('2.weight', 'DOM', site, stmt, 'yields %s' % fmt(fl, y.value)[:100], loc=f.loc())
        return
    x = fl.tab.atom('elem', (y.loops[0].iter_rf[0], y.loops[0].index))
    w = spec(fl, 'self.get_weights(S)[x]', dict(pe, x=x))
    off = at.args[1] - w
    c = off.const()
    why = []
    if c is None:
        wa = atom_of(fl, at.args[1])
        if wa is not None and wa.head == 'call' and wa.extra[0] in ('fn:max', 'fn:maximum') and len(wa.args) == 2 and \
                any(fl.tab.equal(a_, w) for a_ in wa.args) and any(a_.const() is not None and a_.const() > 0 for a_ in wa.args):
            pass
        else:
            R.error('2.weight', 'DOM', site, stmt, 'weight is %s' % fmt(fl, at.args[1])[:100], loc=f.loc())
            return
    elif c <= 0:
        why.append('the yielded weight is weights[x]%s: a sample of weight 0 reaches OnlineVariance.update as exactly 0.0' % (
            '' if c == 0 else ' %+g' % float(c)))
    R.check('2.weight', 'DOM', site, stmt, not why, key='; '.join(why), detail='; '.join(why), loc=f.loc(y.node))


def local_variance(ix, R):
    """The spread reported by compute_error is the POOLED one: every accumulator is read through parallelVariance()
    only.  Its rank-local properties (variance, sampleVariance, mean) describe the samples of one rank."""
    n = 0
    for site in (SM + '::SimpleForwardModel.compute_error', 'taurex/model/lightcurve/lightcurve.py::LightCurveModel.compute_error'):
        f = ix.func(site)
        accs = set()
        for st in ast.walk(f.node):
            def is_acc(v):
                if isinstance(v, ast.IfExp):
                    return is_acc(v.body) or is_acc(v.orelse)
                return isinstance(v, ast.Call) and unparse(v.func).split('.')[-1] == 'OnlineVariance'
            if isinstance(st, ast.Assign) and len(st.targets) == 1 and isinstance(st.targets[0], ast.Name) and is_acc(st.value):
                accs.add(st.targets[0].id)
        bad = []
        for x in ast.walk(f.node):
            if isinstance(x, ast.Attribute) and isinstance(x.value, ast.Name) and x.value.id in accs:
                n += 1
                if x.attr not in ('update', 'parallelVariance'):
                    bad.append('%s.%s' % (x.value.id, x.attr))
        R.check('5.pooled', 'MPI', site,
                'accumulators are read through parallelVariance() only (the pooled variance), never through a rank-local property',
                not bad, key='; '.join(bad), detail='%s: the spread of the samples this rank happened to process, not of the '
                'whole draw (NaN on a rank with fewer than two samples)' % bad, loc=f.loc())
    if n == 0:
        R.note('5.pooled: the accumulators of compute_error are no longer plain local names; rank-local reads are not checked')


MUTANTS = [
    ('part-offset', OP, 'for parameters, weight in sample_list[rank::size]:', 'for parameters, weight in sample_list[rank + 1::size]:', '1.part.profiles'),
    ('part-size', OP, "        size = mpi.nprocs()\n        enableLogging()", "        size = mpi.nprocs() - 1\n        enableLogging()", '1.part.profiles'),
    ('derived-step', OP, 'for idx in range(rank, len_samples, num_procs):', 'for idx in range(rank, len_samples, num_procs + 1):', '1.part.derived'),
    ('draw-everywhere', OP, "        if mpi.get_rank() == 0:\n            sample_list = list(self.sample_parameters(solution))", "        if True:\n            sample_list = list(self.sample_parameters(solution))", '2.draw'),
    ('no-broadcast', OP, "        sample_list = mpi.broadcast(sample_list)\n", "", '2.draw'),
    ('broadcast-cond', OP, "        sample_list = mpi.broadcast(sample_list)\n", "        if mpi.get_rank() != 0:\n            sample_list = mpi.broadcast(sample_list)\n", '2.draw'),
    ('gather-rank-cond', UM, "        counts = mpi.allgather(self.wcount)", "        counts = mpi.allgather(self.wcount) if mpi.get_rank() > 0 else [self.wcount]", '3.coll'),
    ('allreduce-under-rank', OP, "            all_trace = np.array(mpi.allreduce(trace, op='SUM'))", "            all_trace = np.array(mpi.allreduce(trace, op='SUM')) if rank >= 0 else None", '3.coll'),
    ('regress-f14', UM, 'if not _missing(var):', 'if var is not np.nan:', '4.identity'),
    ('welford-old', UM, 'self.M2 += weight * (value - mean_old) * (value - self.mean)', 'self.M2 += weight * (value - mean_old) * (value - mean_old)', '5.update'),
    ('welford-w', UM, 'self.mean = mean_old + weight / self.wcount * (value - mean_old)', 'self.mean = mean_old + 1 / self.count * (value - mean_old)', '5.update'),
    ('seed-C18A-skip-novar', UM, 'if cnt == 0.0:\n                continue\n            if cnt > 0.0:', 'if cnt == 0.0 or _missing(var):\n                continue\n            if cnt > 0.0:', '5.skip'),
    ('combine-novar', UM, "                squares += cnt * var", "                squares += var", '5.combine'),
    ('combine-size', UM, 'return (average, squares / size)', 'return (average, squares / (size - 1))', '5.combine'),
    ('feed-weight', SM, 'native_spectrum.update(native, weight=weight)', 'native_spectrum.update(native)', '5.feed'),
    ('yield-weight', OP, "                yield weight\n", "                yield 1.0\n", '1.once'),
]
EQUIVALENTS = [
    ('rand-rename', 'taurex/util/util.py', r're:\bn_points\b', 'how_many'),
    ('rank-rename', OP, r're:\bnum_procs\b', 'world'),
    ('welford-reorder', UM, 'self.mean = mean_old + weight / self.wcount * (value - mean_old)', 'self.mean = (value - mean_old) * weight / self.wcount + mean_old'),
]
