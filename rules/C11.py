"""C11 Vertical structure is hydrostatic, ordered and one value per layer."""
import ast

from sa.helpers import (the_return, mkflow, spec, code, one, calls, bind_call, param_env,
                        fmt, atom_of, unparse, walk_no_nested, unalloc, call_kw,
                        loop_matches, guard_is)
from sa.index import AnalysisError
from sa.algebra import RF, Slice

FLOOR = 16
PP = 'taurex/data/profiles/pressure/pressureprofile.py'
PL = 'taurex/data/planet.py'
SM = 'taurex/model/simplemodel.py'
UO = 'taurex/util/output.py'
FILES = [PP, PL, SM, UO]
EXPLANATION = (
    'Static rule conformance for the vertical structure: level and layer '
    'pressure formulas (reversed log-spaced levels, geometric-mean layers); the '
    'hydrostatic recurrence dz_i = -H_{i-1} log(P_i/P_{i-1}), z_i = z_{i-1} + '
    'dz_i, H = kT/(mu g), g = GM/(R+z)^2; number density P/(kT); symbolic '
    'lengths of every array returned and of every per-layer attribute the model '
    'stores (affine in N, slices tracked with their offset); the exported '
    'profile dictionary reads each quantity from the attribute of that name.')
ASSUMPTIONS = ['min pressure <= max pressure (checked by the constructor; the check itself is an obligation)',
               'numpy logspace / slicing semantics']
NOT_DECIDED = ['strict monotonicity as numbers', 'array/file pressure profiles level reconstruction (gradient arithmetic)']


def affine_len(fl, rf, N, allocs):
    """(a, b) meaning length a*N + b of a 1-D array expression, offset of its
    first element relative to the base allocation; None if unknown.
    allocs: {atom id: (a, b)} known base lengths."""
    tab = fl.tab
    at = atom_of(fl, rf)
    if at is None:
        # element-wise arithmetic: all array operands must agree; scalars ignored
        res = None
        from sa.algebra import p_atom
        for a in rf.atoms():
            l = affine_len(fl, RF(tab, p_atom(a)), N, allocs)
            if l is None:
                continue
            if res is None:
                res = l
            elif res != l:
                return ('mismatch', res, l)
        return res
    a = rf.single_atom()
    if a in allocs:
        return allocs[a] + (0,)
    if at.head == 'alloc':
        z = atom_of(fl, at.args[0])
        if z is not None and z.head == 'call' and z.extra[0] in ('fn:zeros', 'fn:ones', 'fn:empty'):
            n = call_kw(z, 'shape', 0)
            d = n - N
            c = d.const()
            if c is not None and c.denominator == 1:
                return (1, int(c), 0)
        return None
    if at.head == 'idx' and len(at.args) == 2 and isinstance(at.args[1], Slice):
        base = affine_len(fl, at.args[0], N, allocs)
        if base is None or base[0] == 'mismatch':
            return base
        s = at.args[1]
        lo = s.lo.const() if s.lo is not None else 0
        hi = s.hi.const() if s.hi is not None else 0
        if lo is None or hi is None or s.step is not None and (s.lo is not None or s.hi is not None):
            return None
        if s.step is not None:
            return base
        n_a, n_b, off = base
        lo, hi = int(lo), int(hi)
        if lo < 0 or hi > 0:
            return None
        return (n_a, n_b - lo + hi, off + lo)
    return None


class _G:
    def __init__(self, rf, positive):
        self.rf, self.positive = rf, positive


def run(ix, R):
    _run(ix, R)
    from rules.common import memo_obligation
    memo_obligation(ix, R, 'M.memo', ['taurex/data/planet.py', 'taurex/data/profiles/pressure/'], 'the planet and pressure profiles')


def _run(ix, R):
    # ---- 1. pressure grid
    site = PP + '::SimplePressureProfile.compute_pressure_profile'
    with R.guard('1.levels', 'ALG', site, 'levels'):
        f = ix.func(site)
        fl = mkflow(ix, site)
        st = {fmt(fl, e.target): e for e in fl.of('store')}
        lev = st['self.pressure_profile_levels']
        want = spec(fl, 'logspace(log10(self._atm_min_pressure), log10(self._atm_max_pressure), self.nLevels)[::-1]')
        R.check('1.levels', 'ALG', site,
                'levels = logspace(log10 Pmin, log10 Pmax, nLevels)[::-1] (reversed: surface first)',
                fl.tab.equal(lev.value, want), key=fmt(fl, lev.value), detail=fmt(fl, lev.value), loc=f.loc(lev.node))
        lay = st['self.pressure_profile']
        want = spec(fl, 'L[:-1]*sqrt(L[1:]/L[:-1])', {'L': code(fl, 'self.pressure_profile_levels')})
        # (the levels may be read back from the attribute or taken from the value just stored in it)
        want_b = spec(fl, 'L[:-1]*sqrt(L[1:]/L[:-1])', {'L': lev.value})
        from sa.helpers import unalloc_deep
        layv = unalloc_deep(fl, lay.value)      # (built in a scratch buffer with out= or not: the value is the same)
        R.check('1.layers', 'ALG', site, 'layer pressure = geometric mean of its two levels: L[:-1]*sqrt(L[1:]/L[:-1])',
                (fl.tab.equal(layv, want) or fl.tab.equal(layv, want_b)) and fl.events.index(lev) < fl.events.index(lay),
                key=fmt(fl, lay.value), detail=fmt(fl, lay.value), loc=f.loc(lay.node))
    # array / file pressure profiles: the levels are rebuilt around the very layer pressures the model reads
    AP = 'taurex/data/profiles/pressure/arraypressure.py'
    site = AP + '::ArrayPressureProfile.compute_pressure_profile'
    with R.guard('1.array.levels', 'ALG', site, 'array levels'):
        f = ix.func(site)
        fl = mkflow(ix, site)
        pf = mkflow(ix, AP + '::ArrayPressureProfile.profile')
        layers = the_return(pf).value
        lev = [e for e in fl.of('store') if fmt(fl, e.target) == 'self.pressure_profile_levels']
        want = spec(fl, '10**append(log10(L) - gradient(log10(L))/2, log10(L)[-1] + gradient(log10(L))[-1]/2)',
                    {'L': pf.tab.fmt(layers)})
        ok = len(lev) == 1 and fl.tab.equal(lev[0].value, want) and not lev[0].guards and not lev[0].loops
        R.check('1.array.levels', 'ALG', site,
                'levels = 10**append(logp - grad(logp)/2, logp[-1] + grad(logp)[-1]/2) with logp = log10 of the layer '
                'pressures that `profile` returns (%s): every layer is bracketed by its own two levels, in the same order'
                % pf.tab.fmt(layers), ok,
                key='; '.join(fmt(fl, e.value) for e in lev), detail='; '.join(fmt(fl, e.value) for e in lev),
                loc=f.loc(lev[0].node) if lev else f.loc())
    site = AP + '::ArrayPressureProfile.__init__'
    with R.guard('1.array.order', 'ALG', site, 'array order'):
        f = ix.func(site)
        fl = mkflow(ix, site)
        pe = param_env(fl, f, ['array', 'reverse'])
        st = [e for e in fl.of('store') if fmt(fl, e.target) == 'self.pressure_profile']
        # by scenario: what the attribute holds when `reverse` is set / not set
        from sa.helpers import merged_store, resolve_guards, has_guard
        mv = merged_store(fl, st)
        vals = []
        for scen in (True, False):
            v = resolve_guards(fl, mv, lambda c: scen if fl.tab.equal(c, pe['reverse']) else None)
            if has_guard(v) or fmt(fl, v) == 'UNSET':
                raise AnalysisError('the stored pressures are not settled by `reverse`: %s' % fmt(fl, mv))
            vals.append((scen, v))
        ok = all(fl.tab.equal(v, spec(fl, 'array[::-1]' if p else 'array', pe)) for p, v in vals)
        R.check('1.array.order', 'ALG', site, 'layer pressures are the given array, reversed exactly when reverse is set',
                ok, key=str([(p, fmt(fl, v)) for p, v in vals]), detail=str([(p, fmt(fl, v)) for p, v in vals]), loc=f.loc())
    site = PP + '::PressureProfile.nLevels'
    with R.guard('1.nlevels', 'ALG', site, 'nLevels'):
        f = ix.func(site)
        fl = mkflow(ix, site)
        r = the_return(fl)
        R.check('1.nlevels', 'ALG', site, 'nLevels = nLayers + 1', fl.tab.equal(r.value, spec(fl, 'self.nLayers + 1')),
                key=fmt(fl, r.value), detail=fmt(fl, r.value), loc=f.loc(r.node))
    site = PP + '::SimplePressureProfile.__init__'
    with R.guard('1.order', 'DOM', site, 'max >= min'):
        f = ix.func(site)
        fl = mkflow(ix, site)
        pe = param_env(fl, f, ['n', 'pmin', 'pmax'])
        rs = fl.of('raise')
        ok = any(fl.tab.equal(g.rf, spec(fl, 'pmax < pmin', pe)) and g.positive for r in rs for g in r.guards)
        st = {fmt(fl, e.target): e for e in fl.of('store')}
        ok = ok and fl.tab.equal(st['self._atm_min_pressure'].value, pe['pmin']) and \
            fl.tab.equal(st['self._atm_max_pressure'].value, pe['pmax'])
        R.check('1.order', 'DOM', site, 'constructor rejects max pressure < min pressure and stores each bound under its own name',
                ok, key='check', detail='raise guards %s' % [g.text() for r in rs for g in r.guards], loc=f.loc())
    site = PP + '::PressureProfile.__init__'
    with R.guard('1.nlayers', 'DOM', site, 'nlayers > 0'):
        f = ix.func(site)
        fl = mkflow(ix, site)
        pe = param_env(fl, f, ['name', 'n'])
        rs = fl.of('raise')
        ok = any(fl.tab.equal(g.rf, spec(fl, 'n <= 0', pe)) and g.positive for r in rs for g in r.guards)
        R.check('1.nlayers', 'DOM', site, 'a layer count <= 0 is rejected', ok, key='check',
                detail='raise guards %s' % [g.text() for r in rs for g in r.guards], loc=f.loc())

    # ---- 2. hydrostatic recurrence
    site = PL + '::BasePlanet.calculate_scale_properties'
    ret_lens = None
    aligned = [False]       # set once the returned arrays are shown to be aligned with the layers (2.hydro, 3.alloc)
    with R.guard('2.hydro', 'ALG', site, 'hydrostatic'):
        f = ix.func(site)
        fl = mkflow(ix, site)
        pe = param_env(fl, f, ['T', 'Pl', 'mu'])
        N = spec(fl, 'T.shape[0]', pe)
        # the four work arrays are identified by the slot of the returned tuple they reach (z, H, g, deltaz),
        # not by their names
        r = the_return(fl)
        ra0 = atom_of(fl, r.value)
        every = {}
        for e in fl.of('assign'):
            at = atom_of(fl, e.value)
            if at is not None and at.head == 'alloc' and not e.loops:
                every[e.value.single_atom()] = e.value
        allocs = {}
        if ra0 is not None and ra0.head == 'tuple' and len(ra0.args) == 4:
            for nm, x in zip(('z', 'H', 'g', 'deltaz'), ra0.args):
                hit = [a for a in x.all_atoms() if a in every]
                if len(set(hit)) == 1:
                    allocs[nm] = every[hit[0]]
        if len(allocs) != 4:
            raise AnalysisError('the returned tuple does not name four locally allocated arrays')
        # what the caller receives: R_a[k] = work_a[k + r_a] * factor  (r_a = start of the slice that is returned, 0 if
        # the whole array is).  Everything below is stated about R_a, so neither the length of a work array nor the
        # base of the loop index is part of the rule.
        fac = spec(fl, "conversion_factor('m', length_units)")
        roff = {}
        why_ret = []
        for nm, x in zip(('z', 'H', 'g', 'deltaz'), ra0.args):
            got = None
            for r_ in range(0, 3):
                cand = allocs[nm] if r_ == 0 else spec(fl, 'A[%d:]' % r_, {'A': allocs[nm]})
                if fl.tab.equal(x, cand * fac):
                    got = r_
            if got is None:
                why_ret.append('%s is returned as %s' % (nm, fmt(fl, x)))
            roff[nm] = got
        R.check('2.ret', 'ARG', site, 'returns (z, H, g, dz), each a work array (or its tail) times the length-unit factor',
                not why_ret, key='; '.join(why_ret), detail='; '.join(why_ret), loc=f.loc(r.node))
        if why_ret:
            return
        base = {allocs[k].single_atom(): affine_len(fl, allocs[k], N, {})[:2] if affine_len(fl, allocs[k], N, {}) else None
                for k in allocs}
        if any(v is None for v in base.values()):
            like = []
            for nm in allocs:
                z_ = atom_of(fl, atom_of(fl, allocs[nm]).args[0])
                if z_ is not None and z_.head == 'call' and z_.extra[0] in ('fn:zeros_like', 'fn:empty_like', 'fn:ones_like',
                                                                           'fn:full_like'):
                    like.append('%s = %s takes the dtype (and shape) of an input array: integer temperatures would '
                                'truncate every value stored in it' % (nm, fmt(fl, allocs[nm])))
            if like:
                R.fail('3.alloc', 'SHAPE', site, 'work arrays are float arrays of N / N+1 entries', '; '.join(like),
                       '; '.join(like), f.loc())
                return
            raise AnalysisError('length of a work array is not affine in the number of layers')
        ra = ra0
        ret_lens = [affine_len(fl, x, N, base) for x in ra.args]
        R.check('3.retlen', 'SHAPE', site, 'returned lengths are (N+1, N, N, N) (N = number of layers = len(T))',
                [l[:2] if l else None for l in ret_lens] == [(1, 1), (1, 0), (1, 0), (1, 0)], key=str(ret_lens),
                detail='lengths/offsets %s' % ret_lens, loc=f.loc(r.node))
        sts = [e for e in fl.of('store')]
        lp_st = [e for e in sts if e.loops]
        lp = lp_st[0].loops[0] if lp_st else None
        why = []
        if lp is None or lp.kind != 'range' or lp.range_args[2].const() != 1 or lp.range_args[0].const() is None or \
                any(e.loops != (lp,) for e in lp_st):
            raise AnalysisError('the integration is not one range() loop with a constant start')
        lo = lp.range_args[0]
        if not fl.tab.equal(lp.range_args[1] - lo, N):
            # fewer passes AND stores to the same arrays after the loop: the last level(s) are handled outside it
            # (a peeled iteration) - a shape this rule does not read.  Fewer passes and nothing after the loop is the
            # off-by-one it reports.
            after_ = [e for e in sts if not e.loops and fl.events.index(e) > fl.events.index(lp_st[-1])]
            if after_ or any(e.value.mentions(lambda a: a.head == 'phi') for e in lp_st if isinstance(e.value, RF)):
                raise AnalysisError('the loop runs %s times and the arrays are also written after it (or from values carried '
                                    'between passes): a peeled / pipelined integration is not read by this rule' % fmt(fl, lp.range_args[1] - lo))
            why.append('the loop runs %s times, not once per layer' % fmt(fl, lp.range_args[1] - lo))
        j = fl.tab.name('k')
        Rn = {nm: fl.tab.name('R_' + nm) for nm in allocs}
        by_atom = {allocs[nm].single_atom(): nm for nm in allocs}
        ia = lp.index.single_atom()

        def to_R(rf):
            """rf in terms of the layer index k (loop variable = k + start) and of the returned arrays"""
            def f1(a, at, nargs):
                if a == ia:
                    return j + lo
                return None
            rf = fl.tab.rewrite(rf, f1)

            def f2(a, at, nargs):
                if at.head == 'idx' and len(nargs) == 2 and isinstance(nargs[0], RF) and nargs[0].single_atom() in by_atom \
                        and isinstance(nargs[1], RF):
                    nm = by_atom[nargs[0].single_atom()]
                    return fl.tab.atom('idx', (Rn[nm], nargs[1] - roff[nm]))
                return None
            return fl.tab.rewrite(rf, f2)
        b = dict(pe, k=j, N=N, **{'R_' + nm: Rn[nm] for nm in Rn})
        b['z'], b['H'], b['g'], b['dz'] = Rn['z'], Rn['H'], Rn['g'], Rn['deltaz']
        seen = []

        def chk(tgt, want, guard=None, loop=True):
            t = spec(fl, tgt, b)
            es = [e for e in sts if e.target is not None and bool(e.loops) == loop and fl.tab.equal(to_R(e.target), t)]
            if len(es) != 1:
                why.append('%s assigned %d times' % (tgt, len(es)))
                return
            e = es[0]
            seen.append(e)
            if not fl.tab.equal(to_R(e.value), spec(fl, want, b)) or e.op is not None:
                why.append('%s = %s (expected %s)' % (tgt, fmt(fl, to_R(e.value)), want))
            gs = [g for g in e.guards if not (g.test is not None and isinstance(g.node, ast.With))]
            if guard is None and gs:
                why.append('%s is conditional' % tgt)
            def int_le(g_):
                # `not (N <= i)` is `i < N` for the loop index and the layer count (integers: no unordered case)
                rf_, fl_ = fl.tab.canon_cond(to_R(g_.rf))
                a_ = atom_of(fl, rf_)
                if a_ is not None and a_.head == 'cmp' and a_.extra == ('LtE',) and len(a_.args) == 2:
                    return _G(fl.tab.atom('cmp', (a_.args[1], a_.args[0]), ('Lt',)), not (g_.positive != fl_))
                return _G(to_R(g_.rf), g_.positive)
            if guard is not None and not (len(gs) == 1 and gs[0].rf is not None and
                                          (guard_is(fl, _G(to_R(gs[0].rf), gs[0].positive), spec(fl, guard, b), True) or
                                           guard_is(fl, int_le(gs[0]), spec(fl, guard, b), True))):
                why.append('%s under %s (read as %s; expected %s)' % (tgt, [g.text() for g in gs], [
                    (fmt(fl, fl.tab.canon_cond(to_R(g.rf))[0]), g.positive != fl.tab.canon_cond(to_R(g.rf))[1]) for g in gs if g.rf is not None],
                    fmt(fl, fl.tab.canon_cond(spec(fl, guard, b))[0])))
        chk('g[0]', 'self.gravity', loop=False)
        chk('H[0]', 'KBOLTZ*T[0]/(mu[0]*g[0])', loop=False)
        chk('dz[k]', '-H[k]*log(Pl[k+1]/Pl[k])')
        chk('z[k+1]', 'z[k] + dz[k]')
        chk('g[k+1]', 'self.gravity_at_height(z[k+1])', 'k + 1 < N')
        chk('H[k+1]', 'KBOLTZ*T[k+1]/(mu[k+1]*g[k+1])', 'k + 1 < N')
        # order inside the loop: dz, z, g, H (each reads what the one before it has just written)
        order = [e for e in lp_st if e in seen]
        if len(seen) == 6 and [id(e) for e in order] != [id(e) for e in seen[2:]]:
            why.append('statement order %s' % [unparse(e.target_ast) for e in order])
        extra = [e for e in sts if e not in seen and e.target is not None and
                 any(a in by_atom for a in e.target.all_atoms())]
        if extra and not why:
            why.append('also writes %s' % [unparse(e.target_ast) for e in extra])
        R.check('2.hydro', 'ALG', site,
                'with k the layer index and the arrays as returned: dz_k = -H_k log(P_{k+1}/P_k); z_{k+1} = z_k + dz_k; '
                'g_{k+1} = g(z_{k+1}), H_{k+1} = k_B T_{k+1}/(mu_{k+1} g_{k+1}) for k+1 < N; z_0 = 0; g_0 = surface gravity; '
                'k = 0..N-1',
                not why, key='; '.join(why), detail='; '.join(why), loc=f.loc())
        # every work array is zero-initialised and long enough for what is returned of it
        why = []
        for nm, d in (('H', 0), ('g', 0), ('z', 1), ('deltaz', 0)):
            L = affine_len(fl, allocs[nm], N, {})
            if L is None or (L[0], L[1] - roff[nm]) != (1, d):
                why.append('%s allocated as %s, returned from element %d' % (nm, fmt(fl, allocs[nm]), roff[nm]))
        R.check('3.alloc', 'SHAPE', site, 'H, g, dz are returned with N entries, z with N+1 (N = number of layers = len(T))',
                not why, key='; '.join(why), detail='; '.join(why), loc=f.loc())
        ret_lens = [l[:2] + (0,) if l else None for l in ret_lens]
        aligned[0] = True
    for nm, want in (('gravity_at_height', 'G*self.fullMass/(self.fullRadius + h)**2'),
                     ('gravity', 'G*self.fullMass/self.fullRadius**2')):
        site = PL + '::BasePlanet.' + nm
        with R.guard('2.' + nm, 'ALG', site, nm):
            f = ix.func(site)
            fl = mkflow(ix, site)
            pe = param_env(fl, f, ['h']) if len(f.params()) > 1 else {}
            r = the_return(fl)
            R.check('2.' + nm, 'ALG', site, '%s = %s' % (nm, want), fl.tab.equal(r.value, spec(fl, want, pe)),
                    key=fmt(fl, r.value), detail=fmt(fl, r.value), loc=f.loc(r.node))
    site = SM + '::SimpleForwardModel.densityProfile'
    with R.guard('2.density', 'ALG', site, 'density'):
        f = ix.func(site)
        fl = mkflow(ix, site)
        r = the_return(fl)
        R.check('2.density', 'ALG', site, 'number density = P/(k T)',
                fl.tab.equal(r.value, spec(fl, 'self.pressureProfile/(KBOLTZ*self.temperatureProfile)')),
                key=fmt(fl, r.value), detail=fmt(fl, r.value), loc=f.loc(r.node))
    # ---- 3. bookkeeping in the model
    site = SM + '::SimpleForwardModel._compute_altitude_gravity_scaleheight_profile'
    with R.guard('3.book', 'SHAPE', site, 'bookkeeping'):
        f = ix.func(site)
        fl = mkflow(ix, site)
        cs = one(calls(fl, 'calculate_scale_properties'), 'calculate_scale_properties call')
        got = bind_call(cs, ['self', 'T', 'Pl', 'mu', 'length_units'], True)
        pe = param_env(fl, f, ['mu'])
        okc = fl.tab.equal(got['T'], code(fl, 'self.temperatureProfile')) and \
            fl.tab.equal(got['Pl'], code(fl, 'self.pressure.pressure_profile_levels')) and \
            fl.tab.equal(got['mu'], spec(fl, '_guard(mu is None, self._chemistry.muProfile, mu)', pe))
        R.check('3.call', 'ARG', site, 'calculate_scale_properties(temperature profile, pressure LEVELS, mu profile)',
                okc, key=str({k: fmt(fl, v) for k, v in got.items()}), detail=str({k: fmt(fl, v) for k, v in got.items()}),
                loc=f.loc(cs.node))
        if ret_lens is None or not aligned[0]:
            raise AnalysisError('the lengths / alignment of what calculate_scale_properties returns were not established '
                                '(its own obligations are undecided)')
        call = fl.tab.atom('call', tuple(cs.args), extra=('fn:' + fl.canon('self.planet') + '.calculate_scale_properties',))
        # the unpacked names are idx(call, k)
        base = {}
        for k in range(4):
            a = fl.tab.atom('idx', (fl.tab.atom('call', tuple(cs.args), extra=(
                'fn:self._planet.calculate_scale_properties',)), fl.tab.const(k))).single_atom()
            base[a] = ret_lens[k][:2]
        offs = {k: ret_lens[k][2] for k in range(4)}
        N = fl.tab.name('N')
        want = {'self.altitude_profile': ((1, 0), 0, 'altitude'), 'self.scaleheight_profile': ((1, 0), 0, 'scale height'),
                'self.gravity_profile': ((1, 0), 0, 'gravity'), 'self.deltaz': ((1, 0), 0, 'layer thickness'),
                'self.altitude_boundaries': ((1, 1), 0, 'altitude boundaries')}
        src_idx = {'self.altitude_profile': 0, 'self.scaleheight_profile': 1, 'self.gravity_profile': 2,
                   'self.deltaz': 3, 'self.altitude_boundaries': 0}
        st = {fmt(fl, e.target): e for e in fl.of('store')}
        for attr, (ln, off, desc) in want.items():
            e = st.get(attr)
            if e is None:
                R.fail('3.len', 'SHAPE', site + '{' + attr + '}', '%s is stored' % attr, 'not stored', 'not stored', f.loc())
                continue
            # which returned array does it come from
            srcs = [a for a in e.value.all_atoms() if a in base]
            L = affine_len(fl, e.value, N, base)
            k = src_idx[attr]
            exp_src = [a for a in base if a == fl.tab.atom('idx', (fl.tab.atom('call', tuple(cs.args), extra=(
                'fn:self._planet.calculate_scale_properties',)), fl.tab.const(k))).single_atom()]
            oksrc = srcs == exp_src
            total_off = (L[2] + offs[k]) if L and L[0] != 'mismatch' else None
            ok = L is not None and L[0] != 'mismatch' and L[:2] == ln and total_off == off and oksrc
            ndesc = 'N+1' if ln == (1, 1) else 'N'
            R.check('3.len', 'SHAPE', site + '{' + attr + '}',
                    'per-layer %s has %s entries aligned with the pressure profile (offset %d)' % (desc, ndesc, off),
                    ok, key='%s = %s has length %s' % (attr, unparse(e.node.value), _ls(L)),
                    detail='%s = %s has length %s, offset %s (source element %s of the returned tuple)' % (
                        attr, unparse(e.node.value), _ls(L), total_off, k), loc=f.loc(e.node))
    # ---- 4. exported dictionary
    site = UO + '::generate_profile_dict'
    with R.guard('4.dict', 'TAB', site, 'profile dict'):
        f = ix.func(site)
        want = {'temp_profile': 'model.temperatureProfile', 'active_mix_profile': 'model.chemistry.activeGasMixProfile',
                'inactive_mix_profile': 'model.chemistry.inactiveGasMixProfile', 'density_profile': 'model.densityProfile',
                'scaleheight_profile': 'model.scaleheight_profile', 'altitude_profile': 'model.altitudeProfile',
                'gravity_profile': 'model.gravity_profile', 'pressure_profile': 'model.pressureProfile'}
        from sa.helpers import dict_facts
        fl = mkflow(ix, site)
        pe = param_env(fl, f, ['model'])
        facts = dict_facts(fl)
        got = {}
        for k, v in want.items():
            vals = facts.get(k, [])
            if len(vals) == 1 and fl.tab.equal(vals[0][0], spec(fl, v, pe)) and not vals[0][1].guards:
                got[k] = v
            else:
                got[k] = [fmt(fl, x[0]) for x in vals] or None
        bad = {k: got.get(k) for k, v in want.items() if got.get(k) != v}
        R.check('4.dict', 'TAB', site, 'each exported per-layer quantity is read from the model attribute of that name',
                not bad, key=str(bad), detail='mismatched entries %s' % bad, loc=f.loc())
    site = SM + '::SimpleForwardModel.generate_profiles'
    with R.guard('4.mu', 'TAB', site, 'mu exported'):
        f = ix.func(site)
        from sa.helpers import dict_facts
        fl = mkflow(ix, site)
        stmt = "generate_profiles adds 'mu_profile' = chemistry.muProfile to generate_profile_dict(self), and returns that dictionary"
        facts = dict_facts(fl).get('mu_profile', [])
        r = the_return(fl)
        base = spec(fl, 'generate_profile_dict(self)')
        if len(facts) != 1 or facts[0][2] is None:
            R.error('4.mu', 'TAB', site, stmt, "%d entries named 'mu_profile'" % len(facts), loc=f.loc())
        else:
            val, ev, cont = facts[0]
            why = []
            if not fl.tab.equal(val, spec(fl, 'self.chemistry.muProfile')) and \
                    not fl.tab.equal(val, spec(fl, 'self._chemistry.muProfile')):
                why.append("'mu_profile' = %s" % fmt(fl, val))
            if ev.guards or ev.loops:
                why.append("'mu_profile' is stored conditionally")
            if not fl.tab.equal(cont, base) or not fl.tab.equal(r.value, base):
                why.append('stored in %s, returns %s' % (fmt(fl, cont)[:60], fmt(fl, r.value)[:60]))
            R.check('4.mu', 'TAB', site, stmt, not why, key='; '.join(why), detail='; '.join(why), loc=f.loc(ev.node))
    site = SM + '::SimpleForwardModel.altitudeProfile'
    with R.guard('4.alt', 'TAB', site, 'altitude getter'):
        f = ix.func(site)
        R.check('4.alt', 'TAB', site, 'altitudeProfile returns the stored altitude_profile',
                unparse(f.body()[-1].value) == 'self.altitude_profile', key=unparse(f.body()[-1].value),
                detail=unparse(f.body()[-1].value), loc=f.loc())


def _ls(L):
    if L is None:
        return 'unknown'
    if L[0] == 'mismatch':
        return 'mismatched operands'
    a, b = L[0], L[1]
    return 'N%+d' % b if b else 'N'


MUTANTS = [
    ('levels-noreverse', PP, 'self.nLevels)[::-1]', 'self.nLevels)', '1.levels'),
    ('levels-count', PP, 'math.log10(self._atm_max_pressure), self.nLevels)[::-1]', 'math.log10(self._atm_max_pressure), self.nLayers)[::-1]', '1.levels'),
    ('layers-arith', PP, 'self.pressure_profile = self.pressure_profile_levels[:-1] * np.sqrt(self.pressure_profile_levels[1:] / self.pressure_profile_levels[:-1])', 'self.pressure_profile = (self.pressure_profile_levels[:-1] + self.pressure_profile_levels[1:]) / 2', '1.layers'),
    ('dz-sign', PL, 'deltaz[i] = -1.0 * H[i - 1] * np.log(Pl[i] / Pl[i - 1])', 'deltaz[i] = H[i - 1] * np.log(Pl[i] / Pl[i - 1])', '2.hydro'),
    ('dz-H-index', PL, 'deltaz[i] = -1.0 * H[i - 1] * np.log(Pl[i] / Pl[i - 1])', 'deltaz[i] = -1.0 * H[0] * np.log(Pl[i] / Pl[i - 1])', '2.hydro'),
    ('z-accumulate', PL, 'z[i] = z[i - 1] + deltaz[i]', 'z[i] = z[i - 1] + deltaz[i - 1]', '2.hydro'),
    ('H-mu', PL, 'H[i] = KBOLTZ * T[i] / (mu[i] * g[i])', 'H[i] = KBOLTZ * T[i] / (mu[0] * g[i])', '2.hydro'),
    ('g-square', PL, 'return G * self.fullMass / (self.fullRadius + height) ** 2', 'return G * self.fullMass / (self.fullRadius + height)', '2.gravity_at_height'),
    ('ret-dz', PL, 'return (z * factor, H * factor, g * factor, deltaz[1:] * factor)', 'return (z * factor, H * factor, g * factor, deltaz[:-1] * factor)', '2.ret'),
    ('density-T', SM, 'return self.pressureProfile / (KBOLTZ * self.temperatureProfile)', 'return self.pressureProfile / KBOLTZ * self.temperatureProfile', '2.density'),
    ('regress-f5', SM, 'self.scaleheight_profile = H\n', 'self.scaleheight_profile = H[:-1]\n', '3.len'),
    ('altitude-shift', SM, 'self.altitude_profile = z[:-1]', 'self.altitude_profile = z[1:]', '3.len'),
    ('levels-arg', SM, 'Pl = self.pressure.pressure_profile_levels', 'Pl = self.pressure.profile', '3.call'),
    ('dict-swap', UO, "out['gravity_profile'] = model.gravity_profile", "out['gravity_profile'] = model.scaleheight_profile", '4.dict'),
    ('minmax-swap', PP, "self._atm_min_pressure = atm_min_pressure\n        self._atm_max_pressure = atm_max_pressure", "self._atm_min_pressure = atm_max_pressure\n        self._atm_max_pressure = atm_min_pressure", '1.order'),
]
EQUIVALENTS = [
    ('dict-rename', UO, r're:\bout\b', 'profiles'),
    ('dz-form', PL, 'deltaz[i] = -1.0 * H[i - 1] * np.log(Pl[i] / Pl[i - 1])', 'deltaz[i] = H[i - 1] * np.log(Pl[i - 1] / Pl[i])'),
    ('layers-form', PP, 'self.pressure_profile = self.pressure_profile_levels[:-1] * np.sqrt(self.pressure_profile_levels[1:] / self.pressure_profile_levels[:-1])', 'lev = self.pressure_profile_levels\n        self.pressure_profile = np.sqrt(lev[1:] / lev[:-1]) * lev[:-1]'),
]
