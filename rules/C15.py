"""C15 An input file builds exactly the documented object graph."""
import ast
import re
import os

from sa.helpers import (validated, guard_is, the_return, mkflow, spec, code, one, calls, bind_call, param_env,
                        fmt, atom_of, unparse, walk_no_nested)
from sa.index import AnalysisError, ClassInfo, FuncInfo, REPO
from sa.algebra import RF, dotted
from sa.api import api_obligations
from sa.docs import load_docs

FLOOR = 60
FA = 'taurex/parameter/factory.py'
CF = 'taurex/parameter/classfactory.py'
PP = 'taurex/parameter/parameterparser.py'
FILES = [FA, CF, PP, 'taurex/chemistry.py', 'taurex/temperature.py', 'doc/source/user/taurex/']
EXPLANATION = (
    'Static rule conformance for input-file resolution: the families scanned by '
    'ClassFactory are derived from its source (collector -> facade module -> '
    'base class); within each family no selector keyword is claimed by two '
    'classes (inherited keyword lists included) and selectors on lower-cased '
    'paths are lower-case; every documented selector with a class path in the '
    'repository is bound in the scanned facade and lists that selector; every '
    'documented keyword is a constructor keyword of the documented class; '
    'create_klass rejects unknown keys, every factory returns only under the '
    'membership test and raises after the loop, constructors reached through '
    'klass(**config) have no **kwargs sink; every constructor keyword is read; '
    'value typing in ParameterParser.transform; no removed library names.')
ASSUMPTIONS = ['documentation grid tables keep their reST format', 'plugins that are not shipped are skipped']
NOT_DECIDED = ['command-line program produces the same spectrum as the library (behavioural)',
               'custom-class files', 'selectors documented for plugins that are not shipped (ace, BHMie)']

FIELD_FAMILY = {'profile_type': None, 'chemistry_type': 'chemistry', 'gas_type': 'gas', 'star_type': 'star',
                'planet_type': 'planet', 'model_type': 'model', 'optimizer': 'optimizer',
                'instrument': 'instrument', 'observation': 'observation'}
FILE_FAMILY = {'temperature.rst': 'temperature', 'pressure.rst': 'pressure', 'planet.rst': 'planet',
               'star.rst': 'star', 'chemistry.rst': 'chemistry', 'models.rst': 'model',
               'optimizer.rst': 'optimizer', 'instrument.rst': 'instrument', 'observation.rst': 'observation'}
# families whose selector is lower-cased by determine_klass before matching
LOWERED = {'temperature', 'pressure', 'chemistry', 'gas', 'star', 'planet', 'model', 'optimizer',
           'observation', 'instrument'}


def families(ix):
    """{family: (facade ModuleInfo, base ClassInfo, excluded class names)}
    derived from ClassFactory.setup_batteries_included and the collectors."""
    f = ix.func(CF + '::ClassFactory.setup_batteries_included')
    mods = {}
    for n in ast.walk(f.node):
        if isinstance(n, ast.ImportFrom) and n.level == 0:
            for a in n.names:
                mods[a.asname or a.name] = (n.module + '.' + a.name)
    fam_names = {'_collect_temperatures': 'temperature', '_collect_chemistry': 'chemistry', '_collect_gas': 'gas',
                 '_collect_pressure': 'pressure', '_collect_planets': 'planet', '_collect_star': 'star',
                 '_collect_instrument': 'instrument', '_collect_model': 'model',
                 '_collect_observation': 'observation', '_collect_contributions': 'contribution',
                 '_collect_optimizer': 'optimizer', '_collect_priors': 'prior'}
    out = {}
    for n in ast.walk(f.node):
        if isinstance(n, ast.Call) and isinstance(n.func, ast.Attribute) and n.func.attr == 'update' and n.args \
                and isinstance(n.args[0], ast.Call) and isinstance(n.args[0].func, ast.Attribute):
            coll = n.args[0].func.attr
            if coll not in fam_names or not n.args[0].args or not isinstance(n.args[0].args[0], ast.Name):
                continue
            modname = mods.get(n.args[0].args[0].id)
            if modname is None or modname not in ix.by_modname:
                raise AnalysisError('facade module of %s not found (%s)' % (coll, modname))
            cfn = ix.func(CF + '::ClassFactory.' + coll)
            base = None
            excl = set()
            for c in ast.walk(cfn.node):
                if isinstance(c, ast.Call) and isinstance(c.func, ast.Attribute) and c.func.attr == '_collect_classes':
                    base = unparse(c.args[1])
                if isinstance(c, ast.Compare) and isinstance(c.ops[0], ast.IsNot):
                    excl.add(unparse(c.comparators[0]))
            if base is None:
                raise AnalysisError('collector %s has no base class' % coll)
            out[fam_names[coll]] = (ix.by_modname[modname], ix.find_class(base), excl)
    return out


def keywords_of(ix, c):
    """input_keywords of class c through the MRO: list of str or None."""
    f = ix.lookup_method(c, 'input_keywords')
    if f is None:
        return None, None
    for n in walk_no_nested(f.node):
        if isinstance(n, ast.Return) and isinstance(n.value, (ast.List, ast.Tuple)):
            vals = [e.value for e in n.value.elts if isinstance(e, ast.Constant)]
            return vals, f
    return None, f


def family_classes(ix, fam):
    m, base, excl = fam
    out = []
    for name in sorted(m.top_bound):
        r = ix.resolve_name(m, name)
        if isinstance(r, ClassInfo) and r is not base and ix.is_subclass(r, base) and r.name not in excl:
            if r not in out:
                out.append(r)
    return out


def ctor_keywords(ix, c):
    """{param: default ast} of the constructor get_keywordarg_dict would see."""
    f = ix.lookup_method(c, '__init__')
    if f is None:
        return {}, None
    a = f.node.args
    names = [x.arg for x in a.args]
    d = a.defaults
    kw = dict(zip(names[len(names) - len(d):], d)) if d else {}
    return kw, f


def run(ix, R):
    fams = families(ix)
    R.info['families'] = {k: v[0].relpath for k, v in fams.items()}
    if len(fams) < 11:
        R.error('1.fams', 'TAB', CF, 'families are derived from ClassFactory', 'only %d' % len(fams))
    table = {}
    # ---- 1. keyword -> class
    for fam, info in sorted(fams.items()):
        if fam == 'prior':
            continue
        classes = family_classes(ix, info)
        kwmap = {}
        for c in classes:
            kws, _ = keywords_of(ix, c)
            for k in kws or []:
                kwmap.setdefault(k, []).append(c)
        table[fam] = (classes, kwmap)
        dups = {k: sorted(x.name for x in v) for k, v in kwmap.items() if len(v) > 1}
        R.check('1.unique', 'TAB', info[0].relpath + '::' + fam,
                'family %s (%d classes bound in %s): every selector keyword resolves to exactly one class' % (
                    fam, len(classes), info[0].relpath),
                not dups and classes, key=str(dups), detail='keywords claimed twice: %s' % dups)
        if fam in LOWERED:
            # determine_klass lower-cases the selector: a class is reachable only
            # through a keyword that is its own lower-case form
            unreachable = []
            for c in classes:
                kws, _ = keywords_of(ix, c)
                if kws and not any(k == k.lower() for k in kws):
                    unreachable.append('%s %s' % (c.name, kws))
            R.check('1.lower', 'TAB', info[0].relpath + '::' + fam,
                    'every class of family %s has a lower-case selector (determine_klass lower-cases the input)' % fam,
                    not unreachable, key=str(unreachable), detail='only mixed-case keywords: %s' % unreachable)
    # ---- docs
    docs = load_docs(ix.root)
    if len(docs) < 8:
        R.error('2.docs', 'TAB', 'doc/source/user/taurex', 'user documentation is found', 'found %d files' % len(docs))
    nsel = 0
    for fname, df in sorted(docs.items()):
        for field, sel, cp, lno in df.selectors:
            fam = FIELD_FAMILY.get(field) or FILE_FAMILY.get(fname)
            if field not in FIELD_FAMILY or fam not in table or sel == 'custom':
                continue
            classes, kwmap = table[fam]
            loc = '%s:%d' % (df.path, lno)
            if cp is None:
                # selector documented without a class path: must simply resolve
                nsel += 1
                R.check('1.doc.sel', 'TAB', df.path + '::' + sel,
                        'documented %s = %s resolves to exactly one class' % (field, sel),
                        len(kwmap.get(sel, [])) == 1, key='%s -> %s' % (sel, [c.name for c in kwmap.get(sel, [])]),
                        detail='%s resolves to %s' % (sel, [c.name for c in kwmap.get(sel, [])]), loc=loc)
                continue
            cname = cp.split('.')[-1]
            modpath = '.'.join(cp.split('.')[:-1])
            target = None
            if modpath in ix.by_modname:
                r = ix.resolve_name(ix.by_modname[modpath], cname)
                if isinstance(r, ClassInfo):
                    target = r
            if modpath.split('.')[0] != ix.package or (target is None and modpath not in ix.by_modname):
                continue   # plugin / module not shipped in this repository
            nsel += 1
            if target is None:
                # class path inside the package that does not exist
                any_named = [c for c in ix.all_classes() if c.name == cname]
                R.fail('2.doc.class', 'TAB', df.path + '::' + sel,
                       'documented class path of %s = %s exists' % (field, sel),
                       '%s does not exist' % cp,
                       'documentation names class %s for %s = %s; no such class (the selector resolves to %s)' % (
                           cp, field, sel, [c.name for c in kwmap.get(sel, [])]), loc)
                continue
            got = kwmap.get(sel, [])
            why = []
            if target not in classes:
                why.append('class %s is not bound in %s, the module ClassFactory scans for family %s' % (
                    target.name, fams[fam][0].relpath, fam))
            kws, _ = keywords_of(ix, target)
            if sel not in (kws or []):
                why.append('%s.input_keywords() = %s does not list %r' % (target.name, kws, sel))
            if got != [target] and not why:
                why.append('selector resolves to %s' % [c.name for c in got])
            R.check('1.doc.sel', 'TAB', df.path + '::' + sel,
                    'documented %s = %s resolves to exactly the documented class %s' % (field, sel, cname),
                    not why, key='%s = %s: %s' % (field, sel, '; '.join(why)), detail='; '.join(why), loc=loc)
    if nsel < 15:
        R.error('1.doc.count', 'TAB', 'doc', 'documented selectors are found', 'found %d' % nsel)
    # ---- 2. documented keys are constructor keywords
    nkey = 0
    for fname, df in sorted(docs.items()):
        for s in df.sections:
            if not s['keywords']:
                continue
            target = None
            fam = None
            if s['classref']:
                cp = s['classref']
                cname = cp.split('.')[-1]
                mp = '.'.join(cp.split('.')[:-1])
                if mp in ix.by_modname:
                    r = ix.resolve_name(ix.by_modname[mp], cname)
                    target = r if isinstance(r, ClassInfo) else None
            elif s['field'] in FIELD_FAMILY:
                fam = FIELD_FAMILY.get(s['field']) or FILE_FAMILY.get(fname)
                if fam in table:
                    got = table[fam][1].get(s['selector'].lower(), [])
                    target = got[0] if len(got) == 1 else None
            elif s['subheaders']:
                got = []
                for h in s['subheaders']:
                    got.extend(table['contribution'][1].get(h, []))
                got = list(dict.fromkeys(got))
                target = got[0] if len(got) == 1 else None
                if not got:
                    continue   # plugin contribution (BHMie)
            else:
                continue
            if target is None:
                if fam and s['selector'] and s['selector'].lower() in ('ace',):
                    continue
                if s['field'] == 'chemistry_type' and s['selector'] == 'ace':
                    continue
                R.fail('2.doc.section', 'TAB', df.path + '::' + s['title'],
                       'documented section resolves to a class', 'section %s unresolved' % s['title'],
                       'section %r (%s = %s) does not resolve to one class' % (s['title'], s['field'], s['selector']),
                       '%s:%d' % (df.path, s['lineno']))
                continue
            kw, init = ctor_keywords(ix, target)
            popped = set()
            if target.name == 'SNRInstrument':
                # the parser removes these keys itself before constructing
                pf = ix.func(PP + '::ParameterParser.generate_instrument')
                for n in ast.walk(pf.node):
                    if isinstance(n, ast.Call) and isinstance(n.func, ast.Attribute) and n.func.attr == 'pop' \
                            and n.args and isinstance(n.args[0], ast.Constant):
                        popped.add(n.args[0].value)
                cs = ix.func(PP + '::ParameterParser.create_snr')
                for n in ast.walk(cs.node):
                    if isinstance(n, ast.Subscript) and isinstance(n.slice, ast.Constant) and \
                            isinstance(n.slice.value, str):
                        popped.add(n.slice.value)
            for var, lno in s['keywords']:
                nkey += 1
                ok = var in kw or var in popped
                R.check('2.doc.key', 'TAB', df.path + '::' + s['title'] + '::' + var,
                        'documented key %r is a constructor keyword of %s' % (var, target.name),
                        ok, key='%s.%s' % (target.name, var),
                        detail='documentation lists key %r for %s, whose constructor keywords are %s: an input '
                               'file written from the documentation is rejected by the strict key check' % (
                                   var, target.name, sorted(kw) + sorted(popped)),
                        loc='%s:%d' % (df.path, lno))
    if nkey < 50:
        R.error('2.doc.keys', 'TAB', 'doc', 'documented keys are found', 'found %d' % nkey)
    R.info['documented_selectors'] = nsel
    R.info['documented_keys'] = nkey
    # ---- 3. strictness
    strictness(ix, R, fams, table)
    # ---- 4. every constructor keyword is used
    use(ix, R, table)
    cli_binner(ix, R)
    cli_final_model(ix, R)
    with R.guard('3.custom.fresh', 'EFF', FA, 'custom files'):
        custom_fresh(ix, R)
    # ---- 5. API
    api_obligations(ix, R, '5.api', [FA + '::get_keywordarg_dict', FA + '::create_klass', FA + '::determine_klass',
                                     FA + '::create_model', FA + '::generate_contributions',
                                     CF + '::ClassFactory._collect_classes'], 'class construction path')
    # ---- 6. typing
    site = PP + '::ParameterParser.transform'
    words = None
    with R.guard('6.transform', 'ALG', site, 'typing'):
        f = ix.func(site)
        from sa.helpers import need
        ps = f.params()
        b = need(R, '6.transform', 'ALG', site,
                 'raw values: list -> floats (kept if not numeric); otherwise float or the string; result stored and returned', f,
                 ['V_val = V_sec[V_key]', 'V_new = V_val', '''
if isinstance(V_val, list):
    ...
elif isinstance(V_val, str):
    ...
''', 'V_new = list(map(float, V_val))', 'V_new = float(V_val)', 'V_sec[V_key] = V_new', 'return V_new'],
                 binding={'V_sec': ps[1], 'V_key': ps[2]},
             under=['isinstance(V_val, list)', 'isinstance(V_val, str)', 'V_val.lower() in V_w1', 'V_val.lower() in V_w2'])
        # the boolean word sets: every `x.lower() in [literals]` test assigns the constant its words mean
        words = {}
        fl6 = mkflow(ix, site)
        rv = the_return(fl6).value
        for a_ in (rv.all_atoms() if rv is not None else []):
            at = fl6.tab.atoms[a_]
            if at.head != 'guard':
                continue
            ca = atom_of(fl6, at.args[0])
            if ca is None or ca.head != 'cmp' or ca.extra[0] != 'In':
                continue
            ta = atom_of(fl6, ca.args[1])
            la = atom_of(fl6, ca.args[0])
            if ta is None or ta.head != 'tuple' or la is None or 'lower' not in fmt(fl6, ca.args[0]):
                continue
            lits = frozenset(str(atom_of(fl6, x).args[0]).strip("'\"") for x in ta.args if atom_of(fl6, x) is not None
                             and atom_of(fl6, x).head == 'const')
            then = fmt(fl6, at.args[1])
            words[lits] = [True if then == 'True' else False if then == 'False' else then]
        why = []
        if not any('true' in k for k in words) or not any('false' in k for k in words):
            R.error('6.bool', 'ALG', site, "the tests `<value>.lower() in <literal words>` with 'true' and with 'false' are found",
                    'word sets found: %s' % sorted(sorted(k) for k in words), loc=f.loc())
            words = None
    with R.guard('6.transform.kinds', 'ALG', site, 'typing by kind of value'):
        # by kind of raw value (the decision tree may be nested or split over helpers in any way):
        #   a list        -> the list of its entries converted with float (all or nothing: the unconverted list otherwise)
        #   a string that is no boolean word -> float(value) (the string itself when that fails)
        from sa.helpers import resolve_guards, has_guard
        f = ix.func(site)
        flk = mkflow(ix, site, keep_casts=True)
        ps = f.params()
        pe = param_env(flk, f, ['sec', 'key'])
        val = spec(flk, 'sec[key]', pe)
        rv = the_return(flk).value
        is_list = spec(flk, 'isinstance(v, list)', {'v': val})
        is_str = spec(flk, 'isinstance(v, str)', {'v': val})

        def kind(scen):
            def decide(c):
                if flk.tab.equal(c, is_list):
                    return scen == 'list'
                if flk.tab.equal(c, is_str):
                    return scen == 'str'
                ca = atom_of(flk, c)
                if scen == 'str' and ca is not None and ca.head == 'cmp' and ca.extra and ca.extra[0] == 'In' and \
                        'lower' in fmt(flk, ca.args[0]):
                    return False        # not a boolean word
                return None
            return resolve_guards(flk, rv, decide)
        why_k = []
        got = kind('list')
        ga_ = atom_of(flk, got)
        if ga_ is None or ga_.head == 'guard' or (ga_.head != 'comp' and has_guard(got)):
            raise AnalysisError('what a list becomes is not settled: %s' % fmt(flk, got)[:200])
        if not (flk.tab.equal(got, spec(flk, 'list(map(float, v))', {'v': val})) or flk.tab.equal(got, val)):
            why_k.append('a list value becomes %s (expected: its entries converted with float, all or nothing)' % fmt(flk, got)[:200])
        got = kind('str')
        if has_guard(got):
            raise AnalysisError('what a plain string becomes is not settled: %s' % fmt(flk, got)[:200])
        if not flk.tab.equal(got, spec(flk, 'float(v)', {'v': val})):
            why_k.append('a string that is no boolean word becomes %s (expected float(value), the string when that fails)' % fmt(flk, got)[:200])
        st_ = [e for e in flk.of('store') if flk.tab.equal(e.target, val)]
        if not st_ or not all(flk.tab.equal(e.value, rv) for e in st_[-1:]):
            raise AnalysisError('the typed value is not what is stored back')
        R.check('6.transform.kinds', 'ALG', site,
                'typing by kind of raw value: a list -> floats of its entries (all or nothing), a string that is no boolean '
                'word -> float (or itself)', not why_k, key='; '.join(why_k), detail='; '.join(why_k), loc=f.loc())
    if words is not None:
      with R.guard('6.bool', 'ALG', site, 'typing'):
        t = [v for k, v in words.items() if 'true' in k]
        fa = [v for k, v in words.items() if 'false' in k]
        if t != [[True]]:
            why.append("the word set containing 'true' assigns %s" % t)
        if fa != [[False]]:
            why.append("the word set containing 'false' assigns %s" % fa)
        ks = list(words)
        if len(ks) == 2 and ks[0] & ks[1]:
            why.append('word sets overlap: %s' % sorted(ks[0] & ks[1]))
        if any(w != w.lower() for k in ks for w in k):
            why.append('a word is not lower-case although the value is lower-cased before the test')
        R.check('6.bool', 'ALG', site, "boolean words: the set with 'true' -> True, the set with 'false' -> False, disjoint, lower-case",
                not why, key='; '.join(why), detail='; '.join(why), loc=f.loc())
    with R.guard('3.parser.copy', 'EFF', PP, 'copies'):
        parser_copies(ix, R)
    with R.guard('3.chem.gases', 'DOM', FA, 'gas hook'):
        gas_hook(ix, R)
    site = PP + '::ParameterParser.read'
    with R.guard('6.read', 'DOM', site, 'read'):
        f = ix.func(site)
        from sa.helpers import need
        need(R, '6.read', 'DOM', site, 'every value of the file passes through transform (ConfigObj.walk)', f,
             ['self._raw_config = configobj.ConfigObj(V_fn)', 'self._raw_config.walk(self.transform)'],
             binding={'V_fn': f.params()[1]})


def parser_copies(ix, R):
    """The factories consume what they are given (determine_klass pops the selector, create_klass pops every key): the
    parser therefore hands out copies (`self._raw_config.dict()`), never the parsed configuration itself - else the
    second build from one parser finds the selectors gone and silently builds the default class."""
    c = ix.cls(PP + '::ParameterParser')
    n = 0
    for name, lst in sorted(c.methods.items()):
        for f in lst:
            parent = {}
            for p_ in ast.walk(f.node):
                for ch in ast.iter_child_nodes(p_):
                    parent[ch] = p_
            bad = []
            for x in ast.walk(f.node):
                if isinstance(x, ast.Attribute) and x.attr == '_raw_config' and isinstance(x.value, ast.Name) and \
                        x.value.id == 'self' and isinstance(x.ctx, ast.Load):
                    n += 1
                    p_ = parent.get(x)
                    # allowed: self._raw_config.dict() / .walk(...) and arguments of logging / formatting calls
                    if isinstance(p_, ast.Attribute) and p_.attr in ('dict', 'walk', 'filename') and \
                            (p_.attr == 'filename' or isinstance(parent.get(p_), ast.Call)):
                        continue
                    q = p_
                    logged = False
                    while q is not None and not isinstance(q, ast.stmt):
                        if isinstance(q, ast.Call) and isinstance(q.func, ast.Attribute) and \
                                q.func.attr in ('format', 'debug', 'info', 'warning', 'error', 'critical'):
                            logged = True
                        q = parent.get(q)
                    if logged:
                        continue
                    if isinstance(p_, ast.Compare) or (isinstance(p_, ast.UnaryOp) and isinstance(p_.op, ast.Not)):
                        continue        # `if self._raw_config is None`
                    bad.append(unparse(parent.get(p_, p_) if isinstance(p_, ast.expr) else p_)[:70])
            if bad:
                R.fail('3.parser.copy', 'EFF', f.site, 'the parsed configuration is only handed out as a copy (.dict())',
                       'live configuration used: %s' % bad[0], '%s uses self._raw_config itself (%s): the factories pop the '
                       'selector and every keyword from the section they are given, so the next build from this parser finds '
                       'them gone and falls back to the default class' % (f.qualname, '; '.join(bad)), f.loc())
    if n < 10:
        R.error('3.parser.copy', 'EFF', PP, 'uses of the parsed configuration are found', 'only %d' % n)
    else:
        R.ok('3.parser.copy', 'EFF', PP + '::ParameterParser',
             'the parsed configuration is only handed out as a copy (.dict()) (%d uses)' % n)


def gas_hook(ix, R):
    """create_chemistry adds the [[gas]] sub-sections to whatever chemistry offers addGas - TaurexChemistry, but also any
    class enhanced with the makefree mixin or a user class; a test on one concrete class leaves the others without
    their gases, silently."""
    site = FA + '::create_chemistry'
    f = ix.func(site)
    fl = mkflow(ix, site)
    ag = [e for e in calls(fl, 'addGas')]
    stmt = 'gas sub-sections are added to every chemistry object that offers addGas'
    if len(ag) != 1:
        R.error('3.chem.gases', 'DOM', site, stmt, '%d addGas calls' % len(ag), loc=f.loc())
        return
    e = ag[0]
    owners = [c for c in ix.all_classes() if 'addGas' in c.methods]
    why = []
    for g in e.guards:
        t = g.text()
        ca, flip = fl.tab.canon_cond(g.rf) if g.rf is not None else (None, False)
        at = atom_of(fl, ca) if ca is not None else None
        pos = g.positive != flip
        fn = at.extra[0] if at is not None and at.head == 'call' and at.extra else None
        if fn == 'fn:isinstance' and len(at.args) == 2:
            names = re.findall(r'[A-Za-z_][A-Za-z_0-9]*', fmt(fl, at.args[1]))
            tested = []
            for nm in names:
                try:
                    tested.append(ix.find_class(nm))
                except AnalysisError:
                    pass
            left = [c.name for c in owners if not any(ix.is_subclass(c, t_) for t_ in tested)]
            if left and pos:
                why.append('gases are added only if %s; %s also define addGas and are left without their gases' % (t, left))
        elif fn == 'fn:hasattr' and len(at.args) == 2 and fmt(fl, at.args[1]).strip('\'"') == 'addGas' and pos:
            continue
        elif not validated(g):
            R.error('3.chem.gases', 'DOM', site, stmt, 'addGas under a condition this rule does not know: %s' % t, loc=f.loc())
            return
    R.check('3.chem.gases', 'DOM', site, stmt + ' (%s)' % sorted(c.name for c in owners), not why, key='; '.join(why),
            detail='; '.join(why), loc=f.loc(e.node))


def strictness(ix, R, fams, table):
    site = FA + '::create_klass'
    with R.guard('3.strict', 'DOM', site, 'strict keys'):
        f = ix.func(site)
        fl = mkflow(ix, site)
        pe = param_env(fl, f, ['config', 'klass', 'mixin'])
        rs = fl.of('raise')
        why = []
        lp = [e.loop for e in fl.of('loop')]
        if len(lp) != 1 or not fl.tab.equal(lp[0].iter_rf[0], pe['config']):
            why.append('keys are not all visited')
        else:
            key = fl.tab.atom('elem', (pe['config'], lp[0].index))
            kwargs = spec(fl, 'get_keywordarg_dict(klass, mixin)', pe)
            ok = any(lp[0] in r.loops and r.guards and not r.guards[-1].positive and
                     fl.tab.equal(r.guards[-1].rf, spec(fl, 'k in d', {'k': key, 'd': kwargs})) for r in rs)
            if not ok:
                why.append('a key that is not a constructor keyword does not raise')
            st = [e for e in fl.of('store') if lp[0] in e.loops]
            if len(st) != 1 or not fl.tab.equal(st[0].value, fl.tab.atom('idx', (pe['config'], key))):
                why.append('value stored is %s' % [fmt(fl, e.value) for e in st])
        r = the_return(fl)
        from sa.pattern import find as _find
        # the value returned is klass(**kwargs), through a temporary or not
        ra_ = atom_of(fl, r.value)
        if ra_ is None or ra_.head not in ('call', 'callexpr') or '**' not in (ra_.extra or ()):
            if _find(f.node, ['V_o = %s(**V_kw)' % f.params()[1], 'return V_o'])[0] is None and \
                    _find(f.node, ['return %s(**V_kw)' % f.params()[1]])[0] is None:
                why.append('object is not built as klass(**kwargs)')
        R.check('3.strict', 'DOM', site,
                'create_klass: every key of the section must be a constructor keyword (else KeyError); the value '
                'given replaces the default; object = klass(**kwargs)',
                not why, key='; '.join(why), detail='; '.join(why), loc=f.loc())
    # factories
    m = ix.module(FA)
    nfac = 0
    for name, f in sorted(m.functions.items()):
        if not (name.endswith('_factory') and name not in ('the_mixin_factory',)):
            continue
        nfac += 1
        why = []
        sel = f.params()[0]
        fl = mkflow(ix, f)
        rets = fl.of('return')
        for r in rets:
            # returned: the loop element, under `selector in <element>.input_keywords()` only
            lp = r.loops[-1] if r.loops else None
            el = fl.tab.atom('elem', (lp.iter_rf[0], lp.index)) if lp is not None and lp.iter_rf else None
            ok = el is not None and r.value is not None and fl.tab.equal(r.value, el) and len(r.guards) == 1 and \
                guard_is(fl, r.guards[0], spec(fl, 'S in K.input_keywords()', {'S': fl.tab.name(sel), 'K': el}), True)
            if not ok:
                why.append('returns %s outside the membership test' % unparse(r.value_ast))
        rs = fl.of('raise')
        if not rs or rs[-1].loops or [g for g in rs[-1].guards if not (g.early and g.exit <= {'return'})]:
            why.append('no raise after an unsuccessful loop')
        R.check('3.factory', 'DOM', f.site,
                '%s returns a class only under `selector in klass.input_keywords()` and raises when nothing matched' % name,
                not why and rets, key='; '.join(why), detail='; '.join(why), loc=f.loc())
    if nfac < 11:
        R.error('3.factory.count', 'DOM', FA, 'factories are found', 'found %d' % nfac)
    # determine_klass lower-cases and pops the selector
    site = FA + '::determine_klass'
    with R.guard('3.determine', 'DOM', site, 'determine_klass'):
        f = ix.func(site)
        from sa.helpers import need
        ps = f.params()
        need(R, '3.determine', 'DOM', site,
             'the selector is removed from the section, lower-cased, and a missing selector is an error', f,
             # (`pop(field)` without a default raises KeyError for a missing selector; a handler that only logs and
             # re-raises KeyError is part of the same statement for sa/normalise.py)
             ['V_sel = V_cfg.pop(V_field).lower()', 'V_k = V_fac(V_sel)', 'return (V_cfg, V_k, V_mix)'],
             binding={'V_cfg': ps[0], 'V_field': ps[1], 'V_fac': ps[2]},
             under=['len(V_split) == 1', 'len(V_split) > 1', 'len(V_split) >= 2', 'len(V_split) < 2', "V_sel == 'custom'"])
        # 'a+b+base': the base class is the LAST component, the mixins are the others in the order written (the order is
        # the method resolution order of the class that is built)
        fl = mkflow(ix, site)
        bm = calls(fl, 'build_new_mixed_class')
        stmt_m = "selector 'm1+m2+base': base = factory(last component), mixins = the other components in written order"
        if len(bm) != 1 or len(bm[0].args) != 2:
            R.error('3.determine.mixins', 'PERM', site, stmt_m, '%d build_new_mixed_class calls' % len(bm), loc=f.loc())
        else:
            base_, mix_ = bm[0].args
            ma = atom_of(fl, mix_)
            why = []
            parts = [a_ for a_ in mix_.all_atoms() if fl.tab.atoms[a_].head in ('call', 'mcall') and fl.tab.atoms[a_].extra and
                     fl.tab.atoms[a_].extra[0] == 'fn:split']
            rev = _popped_from_end(f, bm[0].node.args[1])
            if rev:
                R.fail('3.determine.mixins', 'PERM', site, stmt_m, 'mixins collected in reverse order',
                       'the list handed to build_new_mixed_class is filled by `%s` inside `while %s:` - list.pop() takes from '
                       'the END, so the mixins are applied in the reverse of the order written in the selector' % rev,
                       f.loc(bm[0].node))
            elif mix_.mentions(lambda a: a.head in ('mutated', 'phi')) or ma is None or ma.head != 'comp' or not parts:
                R.error('3.determine.mixins', 'PERM', site, stmt_m,
                        'the list of mixins is built by statements this rule cannot follow: %s' % fmt(fl, mix_)[:200], loc=f.loc())
            else:
                from sa.algebra import p_atom
                SP = RF(fl.tab, p_atom(parts[0]))
                it_ = ma.args[1]
                if not fl.tab.equal(it_, spec(fl, 'S[:-1]', {'S': SP})):
                    why.append('mixins are taken from %s, not from the components before the last in written order' % fmt(fl, it_)[:120])
                if not fl.tab.equal(base_, spec(fl, '%s(S[-1])' % ps[2], {'S': SP})):
                    why.append('base class is %s' % fmt(fl, base_)[:120])
                if len(ma.args) > 3 or (len(ma.args) == 3 and atom_of(fl, ma.args[2]) is not None and atom_of(fl, ma.args[2]).args):
                    why.append('components are filtered')
                R.check('3.determine.mixins', 'PERM', site, stmt_m, not why, key='; '.join(why), detail='; '.join(why),
                        loc=f.loc(bm[0].node))
    # constructors reached through klass(**config): no **kwargs sink
    direct = ['star', 'planet', 'optimizer', 'observation', 'instrument']
    for fam in direct + ['temperature', 'pressure', 'chemistry', 'gas', 'model', 'contribution']:
        if fam not in table:
            continue
        bad = []
        for c in table[fam][0]:
            init = ix.lookup_method(c, '__init__')
            if init is not None and init.node.args.kwarg is not None and init.module.relpath.startswith('taurex/') \
                    and 'mixin' not in init.module.relpath:
                bad.append('%s.__init__(**%s)' % (c.name, init.node.args.kwarg.arg))
        R.check('3.sink', 'DOM', fams[fam][0].relpath + '::' + fam,
                'no constructor of family %s swallows unknown keys with **kwargs' % fam,
                not bad, key='; '.join(bad), detail='; '.join(bad))
    for nm in ('create_star', 'create_planet', 'create_optimizer', 'create_observation', 'create_instrument'):
        site = FA + '::' + nm
        with R.guard('3.direct', 'DOM', site, 'direct construction'):
            f = ix.func(site)
            from sa.helpers import need
            from sa.pattern import find as _find3
            if _find3(f.node, ['V_cfg, V_k, V_m = determine_klass(V_cfg, V_field, V_fac, V_base)', 'return V_k(**V_cfg)'],
                      binding={'V_cfg': f.params()[0]})[0] is not None:
                # the same construction without the temporary
                R.ok('3.direct', 'DOM', site, '%s builds klass(**config) with every remaining key of the section' % nm, loc=f.loc())
                continue
            need(R, '3.direct', 'DOM', site, '%s builds klass(**config) with every remaining key of the section' % nm, f,
                 ['V_cfg, V_k, V_m = determine_klass(V_cfg, V_field, V_fac, V_base)', 'V_o = V_k(**V_cfg)', 'return V_o'],
                 binding={'V_cfg': f.params()[0]})
    site = FA + '::create_model'
    with R.guard('3.model', 'DOM', site, 'model keys'):
        f = ix.func(site)
        from sa.helpers import need
        ps = f.params()
        need(R, '3.model', 'DOM', site,
             'create_model hands EVERY scalar key of [Model] to the constructor (an unknown key then fails in the '
             'constructor call); sub-sections go to generate_contributions', f,
             ['V_cfg, V_k, V_mix = determine_klass(V_cfg, \'model_type\', model_factory, ForwardModel)',
              'V_kw = get_keywordarg_dict(V_k, V_mix)',
              'V_kw.update(V_scalars)',
              'V_o = V_k(**V_kw)', 'V_c = generate_contributions(V_cfg)', '''
for V_ci in V_c:
    V_o.add_contribution(V_ci)
''', 'return V_o'], binding={'V_cfg': ps[0]})
        fl = mkflow(ix, site)
        comp = [n for n in ast.walk(f.node) if isinstance(n, (ast.ListComp, ast.DictComp, ast.GeneratorExp))
                and 'items()' in unparse(n)]
        extra = [unparse(i) for c in comp for g in c.generators for i in g.ifs
                 if not unparse(i).startswith('not isinstance(')]
        # the comprehension passes each (key, value) through unchanged
        for c in comp:
            g0 = c.generators[0]
            if isinstance(g0.target, ast.Tuple) and len(g0.target.elts) == 2 and all(isinstance(x, ast.Name) for x in g0.target.elts):
                k_, v_ = (x.id for x in g0.target.elts)
                if isinstance(c, ast.DictComp):
                    same = unparse(c.key) == k_ and unparse(c.value) == v_
                else:
                    same = isinstance(c.elt, ast.Tuple) and [unparse(x) for x in c.elt.elts] == [k_, v_]
                if not same:
                    extra.append('keys / values rewritten: %s' % unparse(c)[:60])
        if not comp:
            extra.append('the scalar keys are not taken from the section by a comprehension over its items')
        R.check('3.model.filter', 'DOM', site, 'no [Model] key is filtered out before the constructor call',
                not extra, key='filter %s' % extra,
                detail='keys are dropped when %s: an unknown or mistyped key is silently ignored and the default used' % extra,
                loc=f.loc())
        for role, arg in (('planet', ps[4]), ('star', ps[5]), ('chemistry', ps[1]), ('temperature_profile', ps[2]),
                          ('pressure_profile', ps[3])):
            # on the flow: the store kwargs['<role>'] = <component>, written out or as one pass of a loop over a
            # literal table of (role, component) pairs
            ok = None
            for e_ in fl.of('store'):
                ta_ = atom_of(fl, e_.target)
                if ta_ is None or ta_.head != 'idx' or len(ta_.args) != 2 or not isinstance(ta_.args[1], RF):
                    continue
                if fmt(fl, ta_.args[1]) == repr(role):
                    ok = bool(ok) or fl.tab.equal(e_.value, fl.tab.name(arg))
                    continue
                for lp_ in e_.loops:
                    it_ = atom_of(fl, lp_.iter_rf[0]) if getattr(lp_, 'iter_rf', None) else None
                    if it_ is None or it_.head != 'tuple':
                        continue
                    el_ = fl.tab.atom('elem', (lp_.iter_rf[0], lp_.index))
                    if fl.tab.equal(ta_.args[1], fl.tab.atom('idx', (el_, fl.tab.const(0)))) and \
                            fl.tab.equal(e_.value, fl.tab.atom('idx', (el_, fl.tab.const(1)))):
                        for pr_ in it_.args:
                            pa_ = atom_of(fl, pr_) if isinstance(pr_, RF) else None
                            if pa_ is not None and pa_.head == 'tuple' and len(pa_.args) == 2 and fmt(fl, pa_.args[0]) == repr(role):
                                ok = bool(ok) or fl.tab.equal(pa_.args[1], fl.tab.name(arg))
            if ok is None:
                raise AnalysisError('no store under %r found in a shape this rule reads' % role)
            R.check('3.model.comp', 'ARG', site + '{' + role + '}', 'the %s component built from its own section is passed as %r' % (role, role),
                    ok, key='%s <- ?' % role, detail='component %s is not passed under %r' % (arg, role), loc=f.loc())
    # the construction path is stateless: no caching decorator, defaults dictionary built per call
    m = ix.module(FA)
    bad = ['%s @%s' % (n, d) for n, fn in sorted(m.functions.items()) for d in fn.decorators()]
    R.check('3.stateless', 'EFF', FA, 'no function of the factory module is wrapped by a (caching) decorator',
            not bad, key='; '.join(bad),
            detail='%s: create_klass / create_model write the section\'s values into the dictionary returned by '
                   'get_keywordarg_dict, so a cached dictionary carries values from one object to the next' % bad)
    site = FA + '::get_keywordarg_dict'
    with R.guard('3.fresh', 'EFF', site, 'fresh defaults'):
        f = ix.func(site)
        fl = mkflow(ix, site)
        rets = fl.of('return')
        def fresh_dict(v):
            """an expression that builds a new dictionary in this call"""
            return isinstance(v, (ast.Dict, ast.DictComp)) or (
                isinstance(v, ast.Call) and unparse(v.func) in ('determine_mixin_args', 'dict'))
        ok = bool(rets)
        for r in rets:
            if isinstance(r.value_ast, ast.Name):
                defs = [n for n in ast.walk(f.node) if isinstance(n, ast.Assign) and isinstance(n.targets[0], ast.Name)
                        and n.targets[0].id == r.value_ast.id]
                ok = ok and bool(defs) and all(fresh_dict(d.value) for d in defs)
            else:
                ok = ok and fresh_dict(r.value_ast)
        R.check('3.fresh', 'EFF', site, 'the defaults dictionary is created inside each call (callers mutate it)',
                ok, key='returns %s' % [unparse(r.value_ast) for r in rets], detail='returned dictionary is not call-local', loc=f.loc())
    site = FA + '::generate_contributions'
    with R.guard('3.contrib', 'DOM', site, 'contributions'):
        f = ix.func(site)
        from sa.helpers import need
        need(R, '3.contrib', 'DOM', site,
             'every sub-section of [Model] must match a contribution keyword (else an error) and is built by create_klass', f,
             ['V_chk = [V_a for V_a, V_b in V_cfg.items() if isinstance(V_b, dict)]', '''
if V_key in V_k.input_keywords():
    V_out.append(create_klass(V_cfg[V_key], V_k, False))
    V_chk.pop(V_chk.index(V_key))
    break
''', '''
if len(V_chk) > 0:
    ...
    raise Exception(V_msg)
''', 'return V_out'], binding={'V_cfg': f.params()[0]})


def use(ix, R, table):
    n = 0
    seen = set()
    for fam, (classes, kwmap) in sorted(table.items()):
        for c in classes:
            if c.site in seen:
                continue
            seen.add(c.site)
            init = c.methods.get('__init__')
            if not init:
                continue
            f = init[0]
            kw, _ = ctor_keywords(ix, c)
            body = ast.Module(body=f.body(), type_ignores=[])
            used = {x.id for x in ast.walk(body) if isinstance(x, ast.Name) and isinstance(x.ctx, ast.Load)}
            for k in kw:
                n += 1
                R.check('4.use', 'USE', f.site + '{' + k + '}',
                        'constructor keyword %r of %s is read by the constructor' % (k, c.name),
                        k in used, key='%s.%s unused' % (c.name, k),
                        detail='%s accepts the key %r (and the strict check lets it through) but never reads it: '
                               'the value given in the input file is ignored' % (c.name, k), loc=f.loc())
    if n < 100:
        R.error('4.use.count', 'USE', 'taurex', 'constructor keywords are found', 'found %d' % n)


def custom_fresh(ix, R):
    """3.custom.fresh: a `python_file` named in the input is executed and searched for its class every time it is asked
    for - the result depends on that file only, not on what another section (or an earlier input file in the same process)
    loaded under the same module name."""
    site = FA + '::detect_and_return_klass'
    f = ix.func(site)
    fl = mkflow(ix, site)
    stmt = 'a custom python_file is executed afresh for every request (no reuse keyed by a module name)'
    ex = calls(fl, 'exec_module')
    if len(ex) != 1:
        R.error('3.custom.fresh', 'EFF', site, stmt, '%d exec_module calls' % len(ex), loc=f.loc())
        return
    why = []
    gs = [g for g in ex[0].guards if not validated(g)]
    if gs:
        why.append('the file is executed only if %s' % ' and '.join(g.text()[:70] for g in gs))
    reg = [e for e in fl.of('store') if 'sys.modules' in unparse(e.target_ast)]
    if reg:
        why.append('%s registers the module under a name that another file can share' % unparse(reg[0].node)[:60])
    R.check('3.custom.fresh', 'EFF', site, stmt, not why, key='; '.join(w[:90] for w in why), detail='; '.join(why),
            loc=f.loc(ex[0].node))


def cli_final_model(ix, R):
    """7.cli.final: what the command line saves (-S) and stores (-o) is the forward model evaluated AFTER the retrieval
    has written its solution back (optimizer.fit / update_model), not an evaluation made before it."""
    site = 'taurex/taurex.py::main'
    with R.guard('7.cli.final', 'DOM', site, 'final model'):
        f = ix.func(site)
        fl = mkflow(ix, site)
        stmt = ('the spectrum that is saved and stored is model.model() evaluated after the retrieval wrote its solution '
                'into the model')
        writers = [e for e in fl.of('call') if e.name in ('fit', 'update_model')]
        uses = [e for e in fl.of('call') if e.name in ('generate_spectrum_output', 'bin_model') and e.node.args and
                isinstance(e.node.args[0], ast.Name)]
        if not writers or not uses:
            R.error('7.cli.final', 'DOM', site, stmt, '%d fit/update_model calls, %d uses of a stored model result' % (
                len(writers), len(uses)), loc=f.loc())
            return
        why = []
        for u in uses:
            nm = u.node.args[0].id
            defs = [e for e in fl.of('assign') if e.name == nm and fl.events.index(e) < fl.events.index(u)]
            if not defs:
                continue
            d = defs[-1]
            if not (isinstance(d.node, ast.Assign) and isinstance(d.node.value, ast.Call) and
                    unparse(d.node.value.func).endswith('.model')):
                continue
            late = [w for w in writers if fl.events.index(w) > fl.events.index(d)]
            if late:
                why.append('%s = %s (line %d) is evaluated before %s (line %d), and is what %s(...) is given' % (
                    nm, unparse(d.node.value), d.node.lineno, unparse(late[-1].node)[:40], late[-1].node.lineno, u.name))
        R.check('7.cli.final', 'DOM', site, stmt, not why, key='; '.join(w[:90] for w in why), detail='; '.join(why), loc=f.loc())


def cli_binner(ix, R):
    """7.cli.binner: which binner (and grid) the command line uses, as a decision table over the [Binning] selector and
    the presence of an [Observation] - exhaustive over the finite set of cases, evaluated on the merged selection
    expression that reaches generate_instrument(binner=...) (three-valued guard evaluation, sa/guards.py)."""
    from sa.guards import Regions
    site = 'taurex/taurex.py::main'
    with R.guard('7.cli.binner', 'GUARD', site, 'command-line binner'):
        f = ix.func(site)
        fl = mkflow(ix, site)
        gi = one(calls(fl, 'generate_instrument'), 'generate_instrument call')
        sel = gi.kw.get('binner') if gi.kw.get('binner') is not None else (gi.args[0] if gi.args else None)
        if sel is None:
            raise AnalysisError('binner argument not found')
        gb = one(calls(fl, 'generate_binning'), 'generate_binning call')
        go = one(calls(fl, 'generate_observation'), 'generate_observation call')
        B = fl.tab.atom('mcall', (gb.recv_rf,) + tuple(gb.args), extra=('fn:generate_binning',)) if gb.recv_rf is not None else None
        O = fl.tab.atom('mcall', (go.recv_rf,) + tuple(go.args), extra=('fn:generate_observation',)) if go.recv_rf is not None else None
        if B is None or O is None:
            raise AnalysisError('selector / observation expressions not found')
        env = {'B': B, 'O': O}
        atoms = {'Bnone': spec(fl, 'B is None', env), 'Bnative': spec(fl, "B == 'native'", env),
                 'Bobs': spec(fl, "B == 'observed'", env), 'Onone': spec(fl, 'O is None', env),
                 'Oself': spec(fl, "O == 'self'", env), 'Btuple': spec(fl, 'isinstance(B, tuple)', env)}
        reg = Regions(fl.tab, atoms)

        def leaf(rf, asg):
            a = atom_of(fl, rf)
            while a is not None and a.head == 'guard':
                c, flipped = fl.tab.canon_cond(a.args[0])
                v = reg.ev(c, asg)
                if v is None:
                    return None
                if flipped:
                    v = not v
                rf = a.args[1] if v else a.args[2]
                a = atom_of(fl, rf)
            return rf
        cases = []
        for b in ('none', 'native', 'observed', 'manual'):
            for o in ('none', 'self', 'given'):
                if b == 'observed' and o == 'none':
                    continue            # rejected before the selection (quit)
                cases.append((b, o))
        why = []
        for b, o in cases:
            asg = {'Bnone': b == 'none', 'Bnative': b == 'native', 'Bobs': b == 'observed',
                   'Onone': o == 'none', 'Oself': o == 'self', 'Btuple': b == 'manual'}
            lf = leaf(sel, asg)
            if lf is None:
                raise AnalysisError('selection depends on a condition outside the table for case %s/%s: %s' % (b, o, fmt(fl, sel)[:120]))
            t = fmt(fl, lf)
            got = 'native' if 'defaultBinner' in t else 'observed' if 'create_binner' in t else 'manual'
            want = {'native': 'native', 'observed': 'observed', 'manual': 'manual'}.get(b) or \
                ('native' if o in ('none', 'self') else 'observed')
            if got != want:
                why.append('[Binning] %s with observation %s -> %s binner (documented: %s)' % (b, o, got, want))
        R.check('7.cli.binner', 'GUARD', site,
                'command line: bin_type native -> model grid, observed -> observation grid, manual -> the given grid, '
                'no [Binning] -> observation grid if an observation is loaded else the model grid (%d cases)' % len(cases),
                not why, key='; '.join(why), detail='; '.join(why), loc=f.loc(gi.node))


def _popped_from_end(f, arg):
    """(append text, drained list) when the list named by `arg` is filled by  while xs: out.append(g(xs.pop()))"""
    if not isinstance(arg, ast.Name):
        return None
    for w in ast.walk(f.node):
        if isinstance(w, ast.While) and isinstance(w.test, ast.Name):
            xs = w.test.id
            for n in ast.walk(w):
                if isinstance(n, ast.Call) and isinstance(n.func, ast.Attribute) and n.func.attr == 'append' and \
                        isinstance(n.func.value, ast.Name) and n.func.value.id == arg.id and n.args:
                    for p in ast.walk(n.args[0]):
                        if isinstance(p, ast.Call) and isinstance(p.func, ast.Attribute) and p.func.attr == 'pop' and \
                                isinstance(p.func.value, ast.Name) and p.func.value.id == xs and not p.args and not p.keywords:
                            return (unparse(n)[:70], xs)
    return None


TE = 'taurex/data/profiles/temperature/'
MUTANTS = [
    ('seed-c15-a', FA, "for k, v in config.items() if not isinstance(v, dict)]))", "for k, v in config.items() if k in kwargs and (not isinstance(v, dict))]))", '3.model'),
    ('seed-c15-b', FA, "def get_keywordarg_dict(klass, is_mixin=False):", "import functools\n\n@functools.lru_cache(maxsize=None)\ndef get_keywordarg_dict(klass, is_mixin=False):", '3.stateless'),
    ('model-component', FA, "        kwargs['star'] = star\n", "        kwargs['star'] = planet\n", '3.model.comp'),
    ('dup-keyword', TE + 'isothermal.py', "return ['isothermal']", "return ['isothermal', 'npoint']", '1.unique'),
    ('upper-keyword', TE + 'isothermal.py', "return ['isothermal']", "return ['Isothermal']", '1.lower'),
    ('regress-f19-doc', 'taurex/data/profiles/temperature/guillot.py', "def __init__(self, T_irr=1500, kappa_irr=0.01,", "def __init__(self, T_irr=1500, kappa_ir=0.01,", '2.doc.key'),
    ('regress-f20a', TE + 'file.py', "super().__init__(tp_array=temperature_arr, p_points=pressure_arr, reverse=reverse)", "super().__init__(tp_array=temperature_arr, p_points=pressure_arr)", '4.use'),
    ('regress-f20b', 'taurex/data/profiles/chemistry/taurexchemistry.py', "self._base_metallicity = base_metallicty", "self._base_metallicity = 0.013", '4.use'),
    ('unbind-class', 'taurex/temperature.py', "from .data.profiles.temperature import Rodgers2000\n", "", '1.doc.sel'),
    ('rename-keyword', TE + 'rodgers.py', "return ['rodgers', 'rodgers2010']", "return ['rodgers2010']", '1.doc.sel'),
    ('rename-ctor-key', TE + 'isothermal.py', "def __init__(self, T=1500):\n        super().__init__('Isothermal')\n        self._iso_temp = T", "def __init__(self, T_iso=1500):\n        super().__init__('Isothermal')\n        self._iso_temp = T_iso", '2.doc.key'),
    ('strict-drop', FA, "        else:\n            log.error('Object {} does not have parameter {}'.format(klass.__name__, key))\n            log.error('Available parameters are %s', kwargs.keys())\n            raise KeyError\n", "", '3.strict'),
    ('factory-default', FA, "    raise NotImplementedError('Temperature profile {} not implemented'.format(profile_type))", "    return klass", '3.factory'),
    ('kwargs-sink', 'taurex/data/stellar/star.py', 'def __init__(self, temperature=5000, radius=1.0, distance=1, magnitudeK=10.0, mass=1.0, metallicity=1.0):', 'def __init__(self, temperature=5000, radius=1.0, distance=1, magnitudeK=10.0, mass=1.0, metallicity=1.0, **kwargs):', '3.sink'),
    ('unused-key', 'taurex/contributions/simpleclouds.py', 'self._cloud_pressure = clouds_pressure', 'self._cloud_pressure = 1000.0', '4.use'),
    ('regress-f1', FA, 'inspect.getfullargspec(klass.__init__)[:4]', 'inspect.getargspec(klass.__init__)', '5.api'),
    ('transform-true', PP, "if val.lower() in ['true', 'yes', 'yeah', 'yup', 'certainly', 'uh-huh']:\n                newval = True", "if val.lower() in ['true', 'yes', 'yeah', 'yup', 'certainly', 'uh-huh']:\n                newval = False", '6.bool'),
    ('transform-nofloat', PP, "                    newval = float(val)", "                    newval = val", '6.transform'),
    ('nolower', FA, 'klass_field = config.pop(field).lower()', 'klass_field = config.pop(field)', '3.determine'),
]
EQUIVALENTS = [
    ('transform-rename', PP, r're:\bnewval\b', 'converted'),
    ('factory-rename-local', FA, r're:\bklass_field\b', 'selector'),
    ('create-klass-rename', FA, r're:\bkwargs\b', 'ctor_args'),
]
