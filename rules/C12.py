"""C12 Temperature profiles are finite, positive and bounded by their control
values."""
import ast

from sa.helpers import (the_return, mkflow, spec, code, one, calls, bind_call, param_env,
                        fmt, atom_of, unparse, walk_no_nested, unalloc, call_kw,
                        inline_local)
from sa.helpers import guard_is
from sa.index import AnalysisError, ClassInfo
from sa.algebra import RF, Slice, Conv
from sa.api import api_obligations
from rules.C10 import length

FLOOR = 16
TD = 'taurex/data/profiles/temperature/'
FILES = [TD, 'taurex/util/util.py']
EXPLANATION = (
    'Static rule conformance for temperature profiles: node validity checks '
    'dominate the interpolation and raise the invalid-model exception (inverted '
    'pressure nodes, excessive slope, zero opacities, negative temperatures); '
    'the Guillot profile equals the published closed form as a normal form '
    '(local eta closure inlined); isothermal and all-equal shortcuts return the '
    'constant; array / correlated profiles have the stated forms; every profile '
    'has symbolic length nlayers; no removed library names.')
ASSUMPTIONS = ['scipy.special.expn is the exponential integral E_n', 'pressure profile has nlayers entries']
NOT_DECIDED = ['boundedness under smoothing, positivity, NaN-freedom as numbers',
               'Rodgers row normalisation for a user-supplied non-symmetric covariance']

NP = TD + 'npoint.py'
GU = TD + 'guillot.py'


def gen_conditions(f):
    """[(any-call generator elt ast, range ast)] of `if any(<genexp>)` tests
    with the raise that follows."""
    out = []
    single = {}
    cnt = {}
    for n in walk_no_nested(f.node):
        if isinstance(n, ast.Assign) and len(n.targets) == 1 and isinstance(n.targets[0], ast.Name):
            single[n.targets[0].id] = n.value
            cnt[n.targets[0].id] = cnt.get(n.targets[0].id, 0) + 1
    for n in walk_no_nested(f.node):
        test = n.test if isinstance(n, ast.If) else None
        if isinstance(test, ast.Name) and cnt.get(test.id) == 1:
            test = single[test.id]              # the test kept in a local
        if isinstance(n, ast.If) and isinstance(test, ast.Call) and unparse(test.func) == 'any' \
                and test.args and isinstance(test.args[0], ast.GeneratorExp):
            ge = test.args[0]
            rs = [s for s in n.body if isinstance(s, ast.Raise)]
            out.append((n.lineno, ge, rs))
    out.sort(key=lambda x: x[0])
    return [(ge, rs) for _, ge, rs in out]


def run(ix, R):
    _run(ix, R)
    from rules.common import memo_obligation
    memo_obligation(ix, R, 'M.memo', ['taurex/data/profiles/temperature/'], 'the temperature profiles')


def _run(ix, R):
    base = ix.cls('taurex/exceptions.py::InvalidModelException')
    # ---- 1. NPoint
    site = NP + '::NPoint.check_profile'
    with R.guard('1.npoint.check', 'DOM', site, 'node checks'):
        f = ix.func(site)
        fl = mkflow(ix, site)
        pe = param_env(fl, f, ['P', 'T'])
        conds = gen_conditions(f)
        why = []
        if len(conds) != 2:
            raise AnalysisError('expected two any(...) checks, found %d' % len(conds))
        want = ['P[i] <= P[i+1]', 'abs((T[i+1]-T[i])/(log10(P[i+1]) - log10(P[i]))) >= self._limit_slope']
        names = ['inverted (non-decreasing) pressure nodes', 'slope at or above the limit']
        for (ge, rs), w, nm in zip(conds, want, names):
            g = ge.generators[0]
            i = fl.tab.name(g.target.id)
            c = Conv(fl.tab, dict(fl.env), fl.canon, on_call=getattr(fl.conv, 'on_call', None))   # (new helpers are followed)
            elt = c.expr(ge.elt)
            ws = spec(fl, w, dict(pe, i=i))
            if not fl.tab.equal(elt, ws):
                why.append('%s test is %s' % (nm, unparse(ge.elt)))
            if not fl.tab.equal(c.expr(g.iter), spec(fl, 'range(len(P) - 1)', pe)):
                why.append('%s test ranges over %s' % (nm, unparse(g.iter)))
            if len(rs) != 1:
                why.append('%s does not raise' % nm)
            else:
                e = rs[0].exc
                e = e.func if isinstance(e, ast.Call) else e
                cls = ix.resolve_name(f.module, unparse(e))
                if not isinstance(cls, ClassInfo) or not ix.is_subclass(cls, base):
                    why.append('%s raises %s, not an InvalidModelException' % (nm, unparse(e)))
        R.check('1.npoint.check', 'DOM', site,
                'check_profile raises InvalidTemperatureException when any P[i] <= P[i+1] (surface first) or any '
                '|dT/dlog10P| >= limit_slope, over all adjacent node pairs',
                not why, key='; '.join(why), detail='; '.join(why), loc=f.loc())
    site = NP + '::NPoint.profile'
    with R.guard('1.npoint.dom', 'DOM', site, 'check dominates'):
        f = ix.func(site)
        fl = mkflow(ix, site)
        cps = calls(fl, 'check_profile')
        if not cps:
            R.fail('1.npoint.dom', 'DOM', site, 'check_profile runs before any value is returned',
                   'no check_profile call', 'profile never calls check_profile: unphysical nodes are interpolated', f.loc())
            raise AnalysisError('node check removed; remaining NPoint obligations not evaluated')
        cp = one(cps, 'check_profile call')
        rets = fl.of('return')
        why = []
        if cp.guards or cp.loops:
            why.append('check is conditional')
        if any(fl.events.index(r) < fl.events.index(cp) for r in rets):
            why.append('a return precedes the check')
        b = {'Ps': spec(fl, '_guard(_or(self._P_surface is None, self._P_surface < 0), self.pressure_profile[0], self._P_surface)'),
             }
        Tn = spec(fl, '[self._T_surface, *self._t_points, self._T_top]')
        if not fl.tab.equal(cp.args[1], Tn):
            why.append('temperature nodes %s' % fmt(fl, cp.args[1]))
        pa = atom_of(fl, cp.args[0])
        if pa is None or pa.head != 'tuple' or len(pa.args) != 3 or \
                not fl.tab.equal(pa.args[1], fl.tab.atom('star', (code(fl, 'self._p_points'),))):
            why.append('pressure nodes %s' % fmt(fl, cp.args[0]))
        else:
            for k, (attr, edge) in enumerate((('self._P_surface', '0'), ('self._P_top', '-1'))):
                x = pa.args[0 if k == 0 else 2]
                g = atom_of(fl, x)
                ok = g is not None and g.head == 'guard' and \
                    fl.tab.equal(g.args[1], spec(fl, 'self.pressure_profile[%s]' % edge)) and \
                    fl.tab.equal(g.args[2], code(fl, attr))
                if not ok:
                    why.append('%s node is %s' % (attr, fmt(fl, x)))
        R.check('1.npoint.dom', 'DOM', site,
                'check_profile([P_surface|P[0], *p_points, P_top|P[-1]], [T_surface, *t_points, T_top]) runs '
                'unconditionally before any value is returned',
                not why, key='; '.join(why), detail='; '.join(why), loc=f.loc(cp.node))
        # 3. constant shortcut and interpolation form
        allT = spec(fl, 'all(T == T[0])', {'T': Tn})
        const = [r for r in rets if r.guards and any(g.rf is not None and g.positive and fl.tab.equal(g.rf, allT)
                                                     for g in r.guards)]
        c = one(const, 'all-equal return')
        okc = fl.tab.equal(c.value, spec(fl, 'ones_like(self.pressure_profile)*T[0]', {'T': Tn})) and \
            fl.tab.equal(c.guards[-1].rf, spec(fl, 'all(T == T[0])', {'T': Tn}))
        R.check('3.npoint.const', 'ALG', site, 'all nodes equal -> ones_like(pressure_profile) * T_node',
                okc, key=fmt(fl, c.value), detail='%s under %s' % (fmt(fl, c.value), c.guards[-1].text()), loc=f.loc(c.node))
        # the interpolated profile: the assignment whose value is an np.interp of the node arrays (any name)
        tp = [e for e in fl.of('assign') if isinstance(e.value, RF) and atom_of(fl, e.value) is not None and
              atom_of(fl, e.value).head == 'call' and atom_of(fl, e.value).extra[0] == 'fn:interp']
        # (the same value held under several names - `TP = np.interp(...)`, `out = TP` - is one interpolated profile)
        distinct_ = []
        for e_ in tp:
            if not any(fl.tab.equal(e_.value, d_.value) for d_ in distinct_):
                distinct_.append(e_)
        t = one(distinct_, 'interpolated profile')
        want = spec(fl, 'interp(log10(self.pressure_profile[::-1]), log10(Pn[::-1]), Tn[::-1])', {'Pn': cp.args[0], 'Tn': Tn})
        R.check('3.npoint.interp', 'ALG', site,
                'profile = interpolation of the temperature nodes in log10 pressure (ascending order for np.interp)',
                fl.tab.equal(t.value, want), key=fmt(fl, t.value)[:200], detail='differs: %s' % fl.tab.diff(t.value, want),
                loc=f.loc(t.node))
        sm = one(calls(fl, 'movingaverage'), 'movingaverage call')
        oks = fl.tab.equal(sm.args[0], t.value)
        R.check('3.npoint.smooth', 'ARG', site, 'smoothing is a moving average of that interpolated profile',
                oks, key=fmt(fl, sm.args[0])[:100], detail=fmt(fl, sm.args[0])[:200], loc=f.loc(sm.node))
    # ---- Guillot
    site = GU + '::Guillot2010._check_values'
    with R.guard('1.guillot.check', 'DOM', site, 'guillot checks'):
        f = ix.func(site)
        fl = mkflow(ix, site)
        rs = fl.of('raise')
        want = ['self.kappa_ir == 0.0',
                '_or(self.kappa_v1/self.kappa_ir == 0.0, self.kappa_v2/self.kappa_ir == 0.0)',
                '_or(self.T_irr < 0, self.T_int < 0)']
        why = []
        for w in want:
            ws = spec(fl, w)
            hit = [r for r in rs if r.guards and r.guards[-1].positive and fl.tab.equal(r.guards[-1].rf, ws)]
            if len(hit) != 1:
                why.append('no raise under %s' % w)
                continue
            e = hit[0].exc_ast
            e = e.func if isinstance(e, ast.Call) else e
            cls = ix.resolve_name(f.module, unparse(e))
            if not isinstance(cls, ClassInfo) or not ix.is_subclass(cls, base):
                why.append('%s raises %s' % (w, unparse(e)))
        R.check('1.guillot.check', 'DOM', site,
                'zero kappa_ir, zero gamma_1/gamma_2 and negative T_irr/T_int raise InvalidModelException',
                not why, key='; '.join(why), detail='; '.join(why), loc=f.loc())
    site = GU + '::Guillot2010.profile'
    with R.guard('2.guillot', 'ALG', site, 'closed form'):
        f = ix.func(site)
        fl = mkflow(ix, site)
        cvs = calls(fl, '_check_values')
        if not cvs:
            R.fail('1.guillot.dom', 'DOM', site, '_check_values() runs before gamma / tau are formed',
                   'no _check_values call', 'profile never calls _check_values: zero opacities divide by zero', f.loc())
            raise AnalysisError('value check removed; remaining Guillot obligations not evaluated')
        cv = one(cvs, '_check_values call')
        r = the_return(fl)
        okd = not cv.guards and not cv.loops
        divs = [e for e in fl.of('assign') if isinstance(e.value, RF) and any(
            fl.tab.equal(e.value, spec(fl, x)) for x in (
                'self.kappa_v1/self.kappa_ir', 'self.kappa_v2/self.kappa_ir',
                'self.kappa_ir*self.pressure_profile/self.planet.gravity'))]
        okd = okd and all(fl.events.index(cv) < fl.events.index(e) for e in divs)
        R.check('1.guillot.dom', 'DOM', site, '_check_values() runs unconditionally before gamma / tau are formed',
                okd, key='order', detail='check is late or conditional', loc=f.loc(cv.node))
        v = inline_local(ix, fl, r.value, f, {'eta'})
        b = {'Ti': code(fl, 'self.T_int'), 'Tr': code(fl, 'self.T_irr'), 'al': code(fl, 'self.alpha'),
             'g1': spec(fl, 'self.kappa_v1/self.kappa_ir'), 'g2': spec(fl, 'self.kappa_v2/self.kappa_ir'),
             'tau': spec(fl, 'self.kappa_ir*self.pressure_profile/self.planet.gravity')}
        # the exponential integral, under whatever name this module imports it
        en = 'spe.expn'
        for a_ in sorted(v.all_atoms()):
            at_ = fl.tab.atoms[a_]
            if at_.head == 'call' and at_.extra and at_.extra[0][3:].split('.')[-1] == 'expn':
                en = at_.extra[0][3:]
        eta = '(2/3 + 2/(3*G)*(1 + (G*tau/2 - 1)*exp(-G*tau)) + 2*G/3*(1 - tau**2/2)*%s(2, G*tau))' % en
        T4 = ('3*Ti**4/4*(2/3 + tau) + 3*Tr**4/4*(1-al)*%s + 3*Tr**4/4*al*%s' % (
            eta.replace('G', 'g1'), eta.replace('G', 'g2')))
        want = spec(fl, '(%s)**0.25' % T4, b)
        R.check('2.guillot', 'ALG', site,
                'T^4 = 3/4 T_int^4 (2/3 + tau) + 3/4 T_irr^4 (1-alpha) eta(gamma_1, tau) + 3/4 T_irr^4 alpha eta(gamma_2, tau), '
                'eta = 2/3 + 2/(3 gamma)(1 + (gamma tau/2 - 1) e^{-gamma tau}) + 2 gamma/3 (1 - tau^2/2) E_2(gamma tau), '
                'tau = kappa_ir P / g',
                fl.tab.equal(v, want), key=fmt(fl, v)[:240], detail='differs: %s' % fl.tab.diff(v, want),
                loc=f.loc(r.node))
        if '.' in en:
            imp = f.module.imports.get(en.split('.')[0])
            okimp = imp == ('scipy.special', None) or (imp == ('scipy', None) and en == 'scipy.special.expn')
        else:
            imp = f.module.imports.get(en)
            okimp = imp == ('scipy.special', 'expn')
        R.check('2.guillot.expn', 'TAB', site, 'E_2 is scipy.special.expn', okimp,
                key='%s -> %s' % (en, imp), detail='%s -> %s' % (en, imp))
    site = GU + '::Guillot2010.__init__'
    with R.guard('2.guillot.init', 'ARG', site, 'constructor'):
        f = ix.func(site)
        fl = mkflow(ix, site)
        pe = param_env(fl, f, ['T_irr', 'kir', 'kv1', 'kv2', 'alpha', 'T_int'])
        st = {fmt(fl, e.target): e.value for e in fl.of('store')}
        want = {'self.T_irr': 'T_irr', 'self.kappa_ir': 'kir', 'self.kappa_v1': 'kv1', 'self.kappa_v2': 'kv2',
                'self.alpha': 'alpha', 'self.T_int': 'T_int'}
        bad = [k for k, v in want.items() if k not in st or not fl.tab.equal(st[k], pe[v])]
        R.check('2.guillot.init', 'ARG', site, 'each constructor argument is stored in the attribute the closed form reads',
                not bad, key=str(bad), detail='mismatched %s' % bad, loc=f.loc())
    # ---- 3. isothermal
    site = TD + 'isothermal.py::Isothermal.profile'
    with R.guard('3.iso', 'ALG', site, 'isothermal'):
        f = ix.func(site)
        fl = mkflow(ix, site)
        r = the_return(fl)
        rs = fl.of('reset')
        al = [e for e in fl.of('assign') if e.op is None and atom_of(fl, e.value) is not None and
              atom_of(fl, e.value).head == 'alloc']
        ok = False
        if len(rs) == 1 and al:
            ok = fl.tab.equal(r.value, rs[0].new) and fl.tab.equal(rs[0].value, code(fl, 'self._iso_temp')) and \
                fl.tab.equal(rs[0].old, al[0].value) and \
                any(fl.tab.equal(unalloc(fl, al[0].value), spec(fl, '%s(self.nlayers)' % z_)) for z_ in ('zeros', 'empty', 'ones'))
            # (the buffer is overwritten as a whole by the reset that follows, so what it is created with does not matter)
        alt = fl.tab.equal(r.value, spec(fl, 'self._iso_temp*ones(self.nlayers)'))
        R.check('3.iso', 'ALG', site, 'isothermal profile = T in every one of nlayers entries',
                ok or alt, key=fmt(fl, r.value), detail=fmt(fl, r.value), loc=f.loc(r.node))
    # array
    site = TD + 'temparray.py::TemperatureArray.profile'
    with R.guard('3.array', 'ALG', site, 'array'):
        f = ix.func(site)
        fl = mkflow(ix, site)
        from sa.helpers import split_exits
        rets = split_exits(fl, fl.of('return'))
        why = []
        want = spec(fl, 'interp(linspace(1.0, 0.0, self.nlayers)[::-1], linspace(1.0, 0.0, self._tp_profile.shape[0])[::-1], self._tp_profile[::-1])')
        kinds = []
        for r in rets:
            if fl.tab.equal(r.value, want):
                kinds.append('interp')
            elif fl.tab.equal(r.value, code(fl, 'self._tp_profile')):
                kinds.append('same')
                if not any(g.rf is not None and guard_is(fl, g, spec(fl, 'self._tp_profile.shape[0] == self.nlayers'), True)
                           for g in r.guards):
                    why.append('raw array returned without the length test')
            elif fl.tab.equal(r.value, spec(fl, 'self._func(log10(self.pressure_profile))')):
                kinds.append('func')
            else:
                why.append('returns %s' % fmt(fl, r.value))
        if sorted(kinds) != ['func', 'interp', 'same']:
            why.append('returns %s' % kinds)
        R.check('3.array', 'ALG', site,
                'array profile: the array itself when it has nlayers entries, else interpolation onto nlayers points '
                '(ascending abscissae), else the log10-pressure interpolant',
                not why, key='; '.join(why), detail='; '.join(why), loc=f.loc())
    site = TD + 'file.py::TemperatureFile.__init__'
    with R.guard('3.file.cols', 'TAB', site, 'file columns'):
        # the temperatures handed to TemperatureArray come from column temp_col of the file and the pressures from column
        # press_col: the position of each in the array loadtxt returns is its position in `usecols`
        f = ix.func(site)
        fl = mkflow(ix, site)
        pe = param_env(fl, f, ['fn', 'skip', 'tc', 'pc', 'tu', 'pu'])
        stmt = ('temperature = column temp_col x factor to K, pressure = column press_col x factor to Pa (each read at the '
                'position its column number has in usecols)')
        sup = [e for e in fl.of('call') if e.name == '__init__']
        if len(sup) != 1 or sup[0].kw.get('tp_array') is None:
            R.error('3.file.cols', 'TAB', site, stmt, 'the TemperatureArray constructor call was not recognised', loc=f.loc())
        else:
            why = []
            und = []
            def column_of(rf, unit_par):
                """(usecols RF, position RF) when rf is loadtxt(..., usecols=U)[:, k] * conversion_factor(unit, ...)"""
                hits = []
                for a_ in rf.all_atoms():
                    at = fl.tab.atoms[a_]
                    if at.head == 'idx' and isinstance(at.args[0], RF):
                        la = atom_of(fl, at.args[0])
                        if la is not None and la.head == 'call' and la.extra and la.extra[0] == 'fn:loadtxt':
                            kws = dict(zip(la.extra[1:], la.args[len(la.args) - len(la.extra[1:]):]))
                            hits.append((kws.get('usecols'), at.args[-1] if len(at.args) > 2 else None))
                return hits
            from sa.helpers import split_exits
            for role, kw, colpar in (('temperature', 'tp_array', 'tc'), ('pressure', 'p_points', 'pc')):
                v = sup[0].kw.get(kw)
                if v is None:
                    continue
                hits = column_of(v, None)
                for U, k in hits:
                    ua = atom_of(fl, U) if U is not None else None
                    if ua is not None and ua.head == 'tuple' and k is not None and k.const() is not None:
                        kk = int(k.const())
                        kk = kk if kk >= 0 else len(ua.args) + kk
                        want = spec(fl, 'int(%s)' % colpar, pe)
                        if not (0 <= kk < len(ua.args)) or not fl.tab.equal(ua.args[kk], want):
                            why.append('%s is read from position %d of usecols=%s, which is not column %s' % (
                                role, kk, fmt(fl, U)[:60], {'tc': 'temp_col', 'pc': 'press_col'}[colpar]))
                    elif U is not None and U.mentions(lambda a: a.head == 'call' and a.extra and a.extra[0] in ('fn:sorted', 'fn:set')):
                        why.append('usecols=%s orders the columns by their NUMBER while the %s is read at a fixed position: a '
                                   'file with the temperature column to the left of the pressure column swaps the two' % (
                                       fmt(fl, U)[:60], role))
                    elif ua is not None and ua.head != 'tuple' and k is None:
                        pass        # a single column
                    else:
                        und.append('%s from %s' % (role, fmt(fl, v)[:80]))
            if und and not why:
                R.error('3.file.cols', 'TAB', site, stmt, 'not recognised: %s' % und, loc=f.loc())
            else:
                R.check('3.file.cols', 'TAB', site, stmt, not why, key='; '.join(w[:90] for w in why), detail='; '.join(why),
                        loc=f.loc())
    site = TD + 'temparray.py::TemperatureArray.__init__'
    with R.guard('3.array.interp', 'ALG', site, 'array interpolant'):
        # with pressure points: linear in log10(P) between the tabulated points and HELD at the end values outside
        # them (fill_value = (last, first) temperature for pressures below / above the table) - never extrapolated,
        # which would leave the range of the control temperatures (and can go negative)
        f = ix.func(site)
        fl = mkflow(ix, site, forward_attrs=True)
        ic = [e for e in calls(fl, 'interp1d')]
        stmt = ('with pressure points the profile is interp1d(log10(p), T) inside the table and the nearest end value '
                'outside it (no extrapolation, no error)')
        if len(ic) != 1:
            R.error('3.array.interp', 'ALG', site, stmt, '%d interp1d calls' % len(ic), loc=f.loc())
        else:
            e = ic[0]
            why = []
            fv = e.kw.get('fill_value')
            be = e.kw.get('bounds_error')
            tp = e.args[1] if len(e.args) > 1 else None
            if fv is None or be is None or tp is None:
                why.append('interp1d(%s) without bounds_error=False and fill_value' % ', '.join(sorted(e.kw)))
            else:
                if fmt(fl, be) != 'False':
                    why.append('bounds_error=%s' % fmt(fl, be))
                want_fv = fl.tab.atom('tuple', (fl.tab.atom('idx', (tp, fl.tab.const(-1))), fl.tab.atom('idx', (tp, fl.tab.const(0)))))
                if 'extrapolate' in fmt(fl, fv):
                    why.append("fill_value='extrapolate': outside the tabulated pressures the temperature is extrapolated "
                               'linearly without bound')
                elif not fl.tab.equal(fv, want_fv):
                    why.append('fill_value=%s (expected the last and first tabulated temperature)' % fmt(fl, fv)[:120])
                if not fl.tab.equal(e.args[0], fl.tab.log('log10', code(fl, 'self._p_profile'))) and \
                        'log10' not in fmt(fl, e.args[0]):
                    why.append('abscissa is %s, not log10 of the pressure points' % fmt(fl, e.args[0])[:80])
            R.check('3.array.interp', 'ALG', site, stmt, not why, key='; '.join(w[:80] for w in why), detail='; '.join(why),
                    loc=f.loc(e.node))
    # rodgers
    site = TD + 'rodgers.py::Rodgers2000.gen_covariance'
    with R.guard('3.rodgers.cov', 'ALG', site, 'covariance'):
        f = ix.func(site)
        fl = mkflow(ix, site, erase_broadcast=False)
        r = the_return(fl)
        cw = Conv(fl.tab, {}, fl.canon)
        cw.erase_broadcast = False
        want = cw.parse('exp(-abs(log(self.pressure_profile[:, None]/self.pressure_profile[None, :]))/self._tp_corr_length)')
        R.check('3.rodgers.cov', 'ALG', site,
                'default covariance = exp(-|log(P_i/P_j)|/h): symmetric with unit diagonal',
                fl.tab.equal(r.value, want), key=fmt(fl, r.value), detail=fmt(fl, r.value), loc=f.loc(r.node))
    site = TD + 'rodgers.py::Rodgers2000.correlate_temp'
    with R.guard('3.rodgers.w', 'ALG', site, 'weights'):
        f = ix.func(site)
        fl = mkflow(ix, site)
        pe = param_env(fl, f, ['C'])
        r = the_return(fl)
        want = spec(fl, '(C/np.sum(C, axis=0)).dot(self._T_layers)', pe)
        R.check('3.rodgers.w', 'ALG', site, 'profile = (C / column sums) . T_layers (rows sum to one for a symmetric C)',
                fl.tab.equal(r.value, want), key=fmt(fl, r.value), detail=fmt(fl, r.value), loc=f.loc(r.node))
    # lengths
    for site, ret_filter in ((TD + 'isothermal.py::Isothermal.profile', None), (NP + '::NPoint.profile', None),
                             (GU + '::Guillot2010.profile', None), (TD + 'temparray.py::TemperatureArray.profile', None)):
        with R.guard('3.len', 'SHAPE', site, 'length'):
            f = ix.func(site)
            fl = mkflow(ix, site)
            N = code(fl, 'self.nlayers')
            arrays = [code(fl, 'self.pressure_profile')]
            bad = []
            for r in fl.of('return'):
                v = r.value
                if 'eta' in fmt(fl, v):
                    v = inline_local(ix, fl, v, f, {'eta'})
                at = atom_of(fl, v)
                # reset buffers: look through to the original allocation
                if at is not None and at.head == 'alloc' and not isinstance(at.args[0], RF):
                    pass
                for rs in fl.of('reset'):
                    if fl.tab.equal(rs.new, v):
                        v = rs.old
                if fl.tab.equal(v, code(fl, 'self._tp_profile')) and any(
                        g.rf is not None and guard_is(fl, g, spec(fl, 'self._tp_profile.shape[0] == self.nlayers'), True)
                        for g in r.guards):
                    continue
                if fmt(fl, v).startswith('self._func('):
                    v = atom_of(fl, v).args[0]
                # phi of a local that was an array slice-assigned: use its defining assignment
                a2 = atom_of(fl, v)
                if a2 is not None and a2.head in ('phi', 'guard') and isinstance(r.value_ast, ast.Name):
                    defs = [x for x in fl.assign_log.get(r.value_ast.id, []) if isinstance(x[0], ast.Assign)]
                    # a definition under an explicit `len(x) == len(y)` test has the tested length
                    evs = {id(e.node): e for e in fl.of('assign')}
                    defs = [d for d in defs if not any(
                        g.positive and g.rf is not None and 'len(' in fl.tab.fmt(g.rf) and '==' in fl.tab.fmt(g.rf)
                        for g in evs[id(d[0])].guards)]
                    ls = {length(fl, d[1], N, arrays) for d in defs}
                    L = 'N' if ls == {'N'} else str(ls)
                else:
                    L = length(fl, v, N, arrays)
                if L is None:
                    # returned under an explicit `len(x) == len(y)` test: x (or its reversal) has the length of y
                    arr_ = v
                    ba = atom_of(fl, arr_)
                    if ba is not None and ba.head == 'idx' and len(ba.args) == 2 and isinstance(ba.args[1], Slice) and \
                            ba.args[1].lo is None and ba.args[1].hi is None:
                        arr_ = ba.args[0]
                    for g in r.guards:
                        ga = atom_of(fl, g.rf) if g.rf is not None else None
                        if not g.positive or ga is None or ga.head != 'cmp' or ga.extra != ('Eq',):
                            continue
                        for x_, y_ in ((ga.args[0], ga.args[1]), (ga.args[1], ga.args[0])):
                            xa, ya = atom_of(fl, x_), atom_of(fl, y_)
                            if xa is not None and ya is not None and xa.head == ya.head == 'call' and \
                                    xa.extra == ya.extra == ('fn:len',) and fl.tab.equal(xa.args[0], arr_) and \
                                    length(fl, ya.args[0], N, arrays) == 'N':
                                L = 'N'
                if L is None:
                    raise AnalysisError('the length of the returned `%s` is not determined' % unparse(r.value_ast)[:60])
                if L != 'N':
                    bad.append('%s has length class %s' % (unparse(r.value_ast)[:50], L))
            R.check('3.len', 'SHAPE', site, 'every returned profile has nlayers entries', not bad,
                    key='; '.join(bad), detail='; '.join(bad), loc=f.loc())
    # ---- 4. API
    fns = []
    for rel in sorted(ix.modules):
        if rel.startswith(TD):
            fns.extend(fn for fn in ix.functions_in(rel) if fn.name in ('profile', 'check_profile', '_check_values',
                                                                        'gen_covariance', 'correlate_temp', 'initialize_profile'))
    api_obligations(ix, R, '4.api', fns, 'temperature profile evaluation')
    api_obligations(ix, R, '4.api', ['taurex/util/util.py::movingaverage'], 'smoothing')
    # moving average: a window longer than the array must give nothing (the profile then stays unsmoothed)
    site = 'taurex/util/util.py::movingaverage'
    with R.guard('3.movingaverage', 'ALG', site, 'moving average'):
        f = ix.func(site)
        fl = mkflow(ix, site)
        pe = param_env(fl, f, ['a', 'n'])
        r = the_return(fl)
        why = []
        cs = spec(fl, 'cumsum(a)', pe)
        if fl.tab.equal(r.value, spec(fl, 'cumsum(a)[n - 1:]/n', pe)):
            st = [e for e in fl.of('store') if fl.tab.equal(e.target, spec(fl, 'cumsum(a)[n:]', pe))]
            if len(st) != 1 or not fl.tab.equal(st[0].value, spec(fl, 'cumsum(a)[n:] - cumsum(a)[:-n]', pe)) or \
                    st[0].guards or st[0].loops:
                why.append('window sums are not cumsum[n:] - cumsum[:-n]')
            if len(fl.of('store')) != 1:
                why.append('%d stores' % len(fl.of('store')))
        else:
            at = atom_of(fl, r.value)
            conv = at is not None and at.head == 'call' and at.extra[0].endswith('convolve')
            guard = [g for e in fl.of('return') + fl.of('raise') for g in e.guards] + [g for g in r.guards]
            sized = any(('len(' in g.text() or '.size' in g.text() or '.shape' in g.text()) for g in guard)
            if not (conv and sized):
                why.append('returns %s: neither the windowed cumulative-sum form, whose slice is empty when n exceeds '
                           'len(a), nor a convolution guarded by a length test (np.convolve swaps its operands when '
                           'the window is the longer one and returns a zero-padded average)' % fmt(fl, r.value)[:120])
        R.check('3.movingaverage', 'ALG', site,
                'movingaverage(a, n) = (cumsum(a)[n:] - cumsum(a)[:-n], preceded by cumsum(a)[n-1]) / n: len(a)-n+1 window '
                'means, none when the window is longer than the array',
                not why, key='; '.join(why), detail='; '.join(why), loc=f.loc(r.node))
    # exception hierarchy
    site = NP + '::InvalidTemperatureException'
    c = ix.cls(site)
    R.check('1.exc', 'EXC', site, 'InvalidTemperatureException is an InvalidModelException', ix.is_subclass(c, base),
            key='bases %s' % c.base_exprs, detail='bases %s' % c.base_exprs)


MUTANTS = [
    ('seed-C12A-convolve', 'taurex/util/util.py', "    ret = np.cumsum(a)\n    ret[n:] = ret[n:] - ret[:-n]\n    return ret[n - 1:] / n", "    return np.convolve(a, np.ones(n) / n, mode='valid')", '3.movingaverage'),
    ('movavg-window', 'taurex/util/util.py', 'ret[n:] = ret[n:] - ret[:-n]', 'ret[n:] = ret[n:] - ret[:-n - 1]', '3.movingaverage'),
    ('npoint-lt', NP, 'if any((Ppt[i] <= Ppt[i + 1] for i in range(len(Ppt) - 1))):', 'if any((Ppt[i] < Ppt[i + 1] for i in range(len(Ppt) - 1))):', '1.npoint.check'),
    ('npoint-range', NP, 'if any((Ppt[i] <= Ppt[i + 1] for i in range(len(Ppt) - 1))):', 'if any((Ppt[i] <= Ppt[i + 1] for i in range(len(Ppt) - 2))):', '1.npoint.check'),
    ('npoint-slope-noabs', NP, 'abs((Tpt[i + 1] - Tpt[i]) / (np.log10(Ppt[i + 1]) - np.log10(Ppt[i])))', '(Tpt[i + 1] - Tpt[i]) / (np.log10(Ppt[i + 1]) - np.log10(Ppt[i]))', '1.npoint.check'),
    ('npoint-exc', NP, "            self.warning('Temperature profile is not valid - a pressure point is inverted')\n            raise InvalidTemperatureException", "            self.warning('Temperature profile is not valid - a pressure point is inverted')\n            raise ValueError", '1.npoint.check'),
    ('npoint-nocheck', NP, "        self.check_profile(Pnodes, Tnodes)\n", "", '1.npoint.dom'),
    ('npoint-check-late', NP, "        self.check_profile(Pnodes, Tnodes)\n        smooth_window = self._smooth_window\n        if np.all(Tnodes == Tnodes[0]):\n            return np.ones_like(self.pressure_profile) * Tnodes[0]", "        smooth_window = self._smooth_window\n        if np.all(Tnodes == Tnodes[0]):\n            return np.ones_like(self.pressure_profile) * Tnodes[0]\n        self.check_profile(Pnodes, Tnodes)", '1.npoint.dom'),
    ('npoint-nodes', NP, 'Tnodes = [self._T_surface, *self._t_points, self._T_top]', 'Tnodes = [self._T_top, *self._t_points, self._T_surface]', '1.npoint.dom'),
    ('npoint-interp-lin', NP, 'TP = np.interp(np.log10(self.pressure_profile[::-1]), np.log10(Pnodes[::-1]), Tnodes[::-1])', 'TP = np.interp(self.pressure_profile[::-1], np.log10(Pnodes[::-1]), Tnodes[::-1])', '3.npoint.interp'),
    ('guillot-kappa', GU, "        if self.kappa_ir == 0.0:\n            self.warning('Kappa ir is zero')\n            raise InvalidModelException('kappa_ir is zero')\n", "", '1.guillot.check'),
    ('guillot-negT', GU, 'if self.T_irr < 0 or self.T_int < 0:', 'if self.T_irr < 0 and self.T_int < 0:', '1.guillot.check'),
    ('guillot-nocheck', GU, "        planet_grav = self.planet.gravity\n        self._check_values()\n", "        planet_grav = self.planet.gravity\n", '1.guillot.dom'),
    ('guillot-tau', GU, 'tau = self.kappa_ir * self.pressure_profile / planet_grav', 'tau = self.kappa_ir * self.pressure_profile * planet_grav', '2.guillot'),
    ('guillot-alpha', GU, '3.0 * self.T_irr ** 4 / 4.0 * (1.0 - self.alpha) * eta(gamma_1, tau)', '3.0 * self.T_irr ** 4 / 4.0 * self.alpha * eta(gamma_1, tau)', '2.guillot'),
    ('guillot-eta', GU, 'part2 = 2.0 * gamma / 3.0 * (1.0 - tau ** 2 / 2.0) * spe.expn(2, gamma * tau)', 'part2 = 2.0 * gamma / 3.0 * (1.0 - tau ** 2 / 2.0) * spe.expn(1, gamma * tau)', '2.guillot'),
    ('guillot-root', GU, 'T = T4 ** 0.25', 'T = T4 ** 0.5', '2.guillot'),
    ('guillot-init', GU, '        self.kappa_v1 = kappa_v1\n', '        self.kappa_v1 = kappa_v2\n', '2.guillot.init'),
    ('iso-len', TD + 'isothermal.py', 'T = np.zeros(self.nlayers)', 'T = np.zeros(self.nlevels)', '3.iso'),
    ('array-noreverse', TD + 'temparray.py', 'return np.interp(interp_array[::-1], interp_temp[::-1], self._tp_profile[::-1])', 'return np.interp(interp_array[::-1], interp_temp[::-1], self._tp_profile)', '3.array'),
    ('rodgers-axis', TD + 'rodgers.py', 'weights = cov_mat[:, :] / cov_mat_sum[:, None]', 'weights = cov_mat[:, :] * cov_mat_sum[:, None]', '3.rodgers.w'),
    ('regress-f4', NP, 'border = int((len(TP) - len(TP_smooth)) / 2)', 'border = np.int((len(TP) - len(TP_smooth)) / 2)', '4.api'),
]
EQUIVALENTS = [
    ('guillot-reorder', GU, 'tau = self.kappa_ir * self.pressure_profile / planet_grav', 'tau = self.pressure_profile * self.kappa_ir / self.planet.gravity'),
    ('guillot-eta-form', GU, 'part1 = 2.0 / 3.0 + 2.0 / (3.0 * gamma) * (1.0 + (gamma * tau / 2.0 - 1.0) * np.exp(-1.0 * gamma * tau))', 'part1 = 2.0 / 3.0 + 2.0 * (1.0 + (0.5 * gamma * tau - 1.0) * np.exp(-gamma * tau)) / (3.0 * gamma)'),
]
