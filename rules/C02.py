"""C02 Emission / direct-image spectra equal the documented layered integral."""
import ast

from sa.helpers import (guard_is, same_cond, the_return, must_be_unconditional, event_of, conditions, mkflow, spec, code, one, calls, bind_call, param_env,
                        loop_matches, fmt, atom_of, unparse, unalloc, call_kw,
                        inline_calls)
from sa.index import AnalysisError, FuncInfo
from sa.algebra import RF
from rules.C01 import CONTRIB_PARAMS, arg_roles

FLOOR = 20
FILES = ['taurex/model/emission.py', 'taurex/model/directimage.py',
         'taurex/util/emission.py', 'taurex/data/stellar/star.py']
EXPLANATION = (
    'Static rule conformance for the emission integral: layer ranges and '
    'buffers of every contribute() call, per-iteration buffer reset, the '
    'surface and per-layer source terms as normal forms (Planck index = '
    'transmittance index), the licensed clamp idiom, Gauss-Legendre node/weight '
    'map, the angular quadrature sum, flux normalisation (equal / proportional), '
    'the selected Planck kernel with helper inlining, and agreement of the '
    'k-table sibling routine with the cross-section routine.')
ASSUMPTIONS = [
    'numpy broadcasting; builtin sum() iterates the first (quadrature) axis',
    'numpy.polynomial.legendre.leggauss returns nodes/weights on [-1,1]',
    'astropy constant values',
]
NOT_DECIDED = [
    'the isothermal identity and hot/cold bounds as numbers (consequences of the '
    'telescoping sum decided here)', 'quadrature accuracy',
    'logBolometricFlux derived parameter',
    'direct-image constant factor (property fixes only the form F*Rp^2/d^2)',
]

E = 'taurex/model/emission.py'
D = 'taurex/model/directimage.py'
U = 'taurex/util/emission.py'
S = 'taurex/data/stellar/star.py'
CONST = 'taurex/constants.py'


def _contribute_calls(fl):
    return [e for e in calls(fl, 'contribute')]


def _range_of(fl, ev):
    got = bind_call(ev, CONTRIB_PARAMS, True)
    return got


def emission_core(ix, R, pfx, site, ktab=False):
    """Obligations on evaluate_emission (and, with ktab, the sibling)."""
    f = ix.func(site)
    fl = mkflow(ix, site)
    wn = fl.tab.name(f.params()[1])
    b = {'wngrid': wn, 'N': code(fl, 'self.nLayers'),
         'rho': code(fl, 'self.densityProfile'),
         'T': code(fl, 'self.temperatureProfile'),
         'mu': spec(fl, '1/self._mu_quads'),
         'clamp': code(fl, 'self._clamp')}
    disp = code(fl, 'self.usingKTables')

    def cond(ev):
        """guards other than the licensed dispatch on the opacity method"""
        return [g for g in ev.guards if not (g.early and not g.positive and
                                             fl.tab.equal(g.rf, disp))]
    cc = _contribute_calls(fl)
    surf = [e for e in cc if not any(l.kind == 'range' for l in e.loops)]
    lay = [e for e in cc if any(l.kind == 'range' for l in e.loops)]
    if ktab:
        # molecule (k-table) calls are handled separately
        surf = [e for e in surf if e.recv_rf is not None and
                atom_of(fl, e.recv_rf) is not None and
                atom_of(fl, e.recv_rf).head == 'elem']
    # -- dz
    dzs = []
    for e in surf + lay:
        dzs.append(_range_of(fl, e).get('path_length'))
    stmt = 'every contribute() integrates over dz = self.deltaz (layer thickness from the hydrostatic solution)'
    want_dz = code(fl, 'self.deltaz')
    bad = [d for d in dzs if d is None or not fl.tab.equal(d, want_dz)]
    R.check(pfx + '.dz', 'SIB' if ktab else 'ARG', site, stmt, dzs and not bad,
            key='path_length <- %s' % (fmt(fl, bad[0]) if bad else 'none'),
            detail='path_length is %s, the cross-section routine and the '
                   'transmission model use self.deltaz' % (
                       fmt(fl, bad[0]) if bad else 'missing'),
            loc=f.loc((surf + lay)[0].node) if surf + lay else f.loc())
    # -- surface call
    stmt = 'surface column: contribute(0, N, 0, 0, density, surface_tau) for every contribution'
    sv = one(surf, 'surface contribute call')
    arg_roles(R, pfx + '.surf', site, stmt, fl, sv, CONTRIB_PARAMS,
              {'start_layer': '0', 'end_layer': 'N', 'density_offset': '0',
               'layer': '0', 'density': 'rho'}, f, b, drop_self=True)
    Sbuf = _range_of(fl, sv)['tau']
    lst = 'non_molecule' if ktab else 'self.contribution_list'
    oks = len(sv.loops) == 1 and sv.loops[0].kind == 'iter' and not cond(sv)
    if oks and not ktab:
        oks = fl.tab.equal(sv.loops[0].iter_rf[0], code(fl, lst))
    R.check(pfx + '.surf.loop', 'SHAPE', site,
            'surface column loops over the contribution list, unconditionally',
            oks, key='loops %s guards %s' % ([unparse(l.iter_ast) for l in sv.loops],
                                            [g.text() for g in sv.guards]),
            detail='surface call under loops %s guards %s' % (
                [unparse(l.iter_ast) for l in sv.loops], [g.text() for g in sv.guards]),
            loc=f.loc(sv.node))
    # -- layer calls
    if len(lay) != 2:
        raise AnalysisError('expected two per-layer contribute calls, found %d' % len(lay))
    layer_loop = [l for l in lay[0].loops if l.kind == 'range'][0]
    b['layer'] = layer_loop.index
    R.check(pfx + '.loops', 'SHAPE', site, 'per-layer terms run over layer in [0, N)',
            loop_matches(fl, layer_loop, '0', 'N', b) and
            all(len(e.loops) == 2 and e.loops[0] is layer_loop and
                e.loops[1].kind == 'iter' and not cond(e) for e in lay),
            key='layer loop %s' % unparse(layer_loop.iter_ast),
            detail='layer loop is %s; calls under %s' % (
                unparse(layer_loop.iter_ast),
                [[unparse(l.iter_ast) for l in e.loops] for e in lay]),
            loc=f.loc(layer_loop.node))
    Lbuf = Dbuf = None
    for e in lay:
        got = _range_of(fl, e)
        if fl.tab.equal(got['start_layer'], spec(fl, 'layer+1', b)):
            Lbuf = got['tau']
            arg_roles(R, pfx + '.L', site,
                      'layer_tau: contribute(layer+1, N, 0, 0, density) (column above the layer)',
                      fl, e, CONTRIB_PARAMS,
                      {'start_layer': 'layer+1', 'end_layer': 'N', 'density_offset': '0',
                       'layer': '0', 'density': 'rho'}, f, b, drop_self=True)
        else:
            Dbuf = got['tau']
            arg_roles(R, pfx + '.D', site,
                      'dtau: contribute(layer, layer+1, 0, 0, density) (the layer itself)',
                      fl, e, CONTRIB_PARAMS,
                      {'start_layer': 'layer', 'end_layer': 'layer+1', 'density_offset': '0',
                       'layer': '0', 'density': 'rho'}, f, b, drop_self=True)
    if Lbuf is None or Dbuf is None:
        R.fail(pfx + '.L', 'ARG', site, 'one call integrates (layer+1, N) and one (layer, layer+1)',
               'ranges %s' % [(fmt(fl, _range_of(fl, e)['start_layer']),
                               fmt(fl, _range_of(fl, e)['end_layer'])) for e in lay],
               'per-layer calls integrate %s' % [
                   (fmt(fl, _range_of(fl, e)['start_layer']),
                    fmt(fl, _range_of(fl, e)['end_layer'])) for e in lay],
               f.loc(lay[0].node))
        return None
    # -- resets
    stmt = 'layer_tau and dtau are zeroed at the head of every layer iteration, and are distinct buffers'
    why = []
    resets = fl.of('reset')
    for nm, buf in (('layer_tau', Lbuf), ('dtau', Dbuf)):
        at = atom_of(fl, buf)
        rs = [r for r in resets if fl.tab.equal(r.new, buf)]
        if at is None or at.head != 'alloc' or not rs:
            why.append('%s buffer %s is not reset inside the layer loop' % (nm, fmt(fl, buf)))
            continue
        r = rs[0]
        if r.loops != (layer_loop,) or cond(r):
            why.append('%s reset is under loops %s' % (nm, [unparse(l.iter_ast) for l in r.loops]))
        if r.value.const() != 0:
            why.append('%s reset to %s' % (nm, fmt(fl, r.value)))
    if fl.tab.equal(Lbuf, Dbuf) or fl.tab.equal(Lbuf, Sbuf) or fl.tab.equal(Dbuf, Sbuf):
        why.append('buffers alias each other')
    sat = atom_of(fl, Sbuf)
    if sat is None or sat.head != 'alloc' or atom_of(fl, sat.args[0]) is None or \
            atom_of(fl, sat.args[0]).extra[0] != 'fn:zeros':
        why.append('surface_tau is not a fresh zeros array: %s' % fmt(fl, Sbuf))
    # no other writer of the three buffers
    for e in fl.of('store'):
        base = atom_of(fl, e.target)
        if base is not None and base.head == 'idx' and any(
                fl.tab.equal(base.args[0], x) for x in (Lbuf, Dbuf)):
            why.append('extra store %s' % unparse(e.node))
    R.check(pfx + '.reset', 'ACC', site, stmt, not why, key='; '.join(why),
            detail='; '.join(why), loc=f.loc(layer_loop.node))
    return dict(f=f, fl=fl, b=b, S=Sbuf, L=Lbuf, Dd=Dbuf, layer_loop=layer_loop,
                lay=lay, surf=sv)


def run(ix, R):
    _run(ix, R)
    from rules.common import memo_obligation
    memo_obligation(ix, R, 'M.memo', ['taurex/model/emission.py', 'taurex/model/directimage.py', 'taurex/util/emission.py', 'taurex/data/stellar/star.py'], 'the emission path')


def _run(ix, R):
    site = E + '::EmissionModel.evaluate_emission'
    ctx = None
    with R.guard('1', 'ARG', site, 'evaluate_emission structure'):
        ctx = emission_core(ix, R, '1', site)
    if ctx:
        f, fl, b = ctx['f'], ctx['fl'], ctx['b']
        b.update(S=ctx['S'], L=ctx['L'], D=ctx['Dd'])
        # ---- 2. source terms
        stmt = 'I0 = B(T[0])/pi * exp(-surface_tau/mu)'
        with R.guard('2.I0', 'ALG', site, stmt):
            augs = [e for e in fl.of('aug') if e.loops == (ctx['layer_loop'],)
                    and e.op == 'Add' and e.name not in ('dtau',)]
            augs = [e for e in augs if e.value.mentions(
                lambda a: a.head == 'call' and a.extra and a.extra[0] == 'fn:black_body')]
            au = one(augs, 'accumulation of the intensity')
            init = [x for x in fl.assign_log.get(au.name, [])
                    if isinstance(x[0], ast.Assign)]
            node, val = one(init, 'initial assignment of the intensity')
            # the surface term finished in place after its first assignment (I[...] = ..., np.exp(I, out=I), I *= BB
            # before the layer loop): the value that enters the loop is not the assigned one, and whether the in-place
            # steps are seen by other holders of the array is not followed
            later_ = [e for e in fl.of('aug') if e.name == au.name and not e.loops] + \
                     [e for e in fl.of('store') if not e.loops and isinstance(getattr(e, 'target_ast', None), ast.Subscript) and
                      isinstance(e.target_ast.value, ast.Name) and e.target_ast.value.id == au.name]
            if later_:
                raise AnalysisError('the surface term is completed in place after its first assignment: %s' %
                                    [unparse(e.node)[:50] for e in later_])
            want = spec(fl, 'black_body(wngrid, T[0])/pi * exp(-S*mu)', b)
            why0 = []
            ie = event_of(fl, node)
            if ie is not None:
                must_be_unconditional(fl, ie, why0, 'the surface term', allow=[(code(fl, 'self.usingKTables'), False)])
            if ie is not None and ie.loops:
                why0.append('the surface term is set inside a loop')
            R.check('2.I0', 'ALG', site, stmt, fl.tab.equal(val, want) and not why0,
                    key='I0 = %s %s' % (fmt(fl, val), '; '.join(why0)),
                    detail='I0 = %s %s\n    expected %s' % (fmt(fl, val), '; '.join(why0), fmt(fl, want)),
                    loc=f.loc(node), extracted=fmt(fl, val))
            stmt = ('I += B(T[layer])/pi * (exp(-layer_tau/mu) - exp(-(dtau+layer_tau)/mu)), '
                    'each transmittance clamped to 0 only when min(tau) >= clamp')
            want = spec(fl, 'black_body(wngrid, T[layer])/pi * ('
                            '_guard(min(L) < clamp, exp(-L*mu), 0) - '
                            '_guard(min(D+L) < clamp, exp(-(D+L)*mu), 0))', b)
            alt = spec(fl, 'black_body(wngrid, T[layer])/pi * (exp(-L*mu) - exp(-(D+L)*mu))', b)
            ok = fl.tab.equal(au.value, want) or fl.tab.equal(au.value, alt)
            whyI = []
            must_be_unconditional(fl, au, whyI, 'the layer term', allow=[(code(fl, 'self.usingKTables'), False)])
            ok = ok and not whyI
            if au.value.mentions(lambda a: a.head == 'phi') and not ok:
                raise AnalysisError('the layer term depends on a value carried from one loop iteration to the next (%s): '
                                    'whether it equals the per-layer expression needs a loop invariant, which this '
                                    'extractor does not establish' % sorted({a.args[0] for a in map(fl.tab.atoms.__getitem__, au.value.all_atoms()) if a.head == 'phi'}))
            R.check('2.I', 'ALG', site, stmt, ok, key='I += %s %s' % (fmt(fl, au.value), '; '.join(whyI)),
                    detail='I += %s %s\n    expected %s' % (fmt(fl, au.value), '; '.join(whyI), fmt(fl, want)),
                    loc=f.loc(au.node), extracted=fmt(fl, au.value))
            # return roles
            r = [e for e in fl.of('return') if not e.guards or all(
                not g.positive for g in e.guards)]
            r = one([e for e in r if isinstance(e.value_ast, ast.Tuple)], 'tuple return')
            _ret_roles(R, '2.ret', site, fl, f, r, au.name)
    # clamp constant
    site_i = E + '::EmissionModel.__init__'
    stmt = 'the clamp threshold is a constant >= 10 and is written only in __init__'
    with R.guard('2.clamp', 'DOM', site_i, stmt):
        c = ix.cls(E + '::EmissionModel')
        writes = []
        for k in ix.subclasses(c):
            for lst in k.methods.values():
                for fn in lst:
                    for n in ast.walk(fn.node):
                        if isinstance(n, (ast.Assign, ast.AugAssign)):
                            tg = n.targets if isinstance(n, ast.Assign) else [n.target]
                            for t in tg:
                                if isinstance(t, ast.Attribute) and t.attr == '_clamp':
                                    writes.append((fn, n))
        why = []
        if not writes:
            why.append('no assignment of _clamp')
        for fn, n in writes:
            v = n.value
            if fn.name != '__init__' or not isinstance(n, ast.Assign) or not (
                    isinstance(v, ast.Constant) and isinstance(v.value, (int, float))
                    and v.value >= 10):
                why.append('%s in %s' % (unparse(n), fn.qualname))
        R.check('2.clamp', 'DOM', site_i, stmt, not why, key='; '.join(why),
                detail='; '.join(why), loc=writes[0][0].loc(writes[0][1]) if writes else None)

    # ---- 3. quadrature
    for nm in ('set_num_gauss', 'set_quadratures'):
        site = E + '::EmissionModel.' + nm
        stmt = 'nodes = (x+1)/2 and weights = w/2 for Gauss-Legendre (x, w) on [-1,1]'
        with R.guard('3.' + nm, 'ALG', site, stmt):
            f = ix.func(site)
            fl = mkflow(ix, site)
            st = {fmt(fl, e.target): e for e in fl.of('store')}
            mq = st.get('self._mu_quads')
            wq = st.get('self._wi_quads')
            if mq is None or wq is None:
                raise AnalysisError('stores of _mu_quads/_wi_quads not found')
            if nm == 'set_num_gauss':
                lg = one([e for e in fl.of('call') if e.name == 'leggauss'], 'leggauss call')
                call = fl.tab.atom('call', tuple(lg.args), extra=('fn:leggauss',))
                x = fl.tab.atom('idx', (call, fl.tab.const(0)))
                w = fl.tab.atom('idx', (call, fl.tab.const(1)))
                nq = lg.args[0] if lg.args else None
                okn = nq is not None and fl.tab.equal(nq, code(fl, 'self._ngauss'))
                ng = st.get('self._ngauss')
                okn = okn and ng is not None and not ng.guards and not lg.guards and fl.tab.equal(
                    ng.value, spec(fl, 'int(v)', param_env(fl, f, ['v'])))
                R.check('3.order', 'ARG', site, 'leggauss order is the requested ngauss',
                        okn, key='leggauss(%s)' % fmt(fl, nq), detail='leggauss order is %s' % fmt(fl, nq),
                        loc=f.loc(lg.node))
            else:
                pe = param_env(fl, f, ['x', 'w'])
                x, w = pe['x'], pe['w']
            ok = fl.tab.equal(mq.value, (x + 1) / 2) and fl.tab.equal(wq.value, w / 2) and \
                not mq.guards and not wq.guards and not mq.loops and not wq.loops
            R.check('3.' + nm, 'ALG', site, stmt, ok,
                    key='nodes %s weights %s' % (fmt(fl, mq.value), fmt(fl, wq.value)),
                    detail='nodes = %s, weights = %s' % (fmt(fl, mq.value), fmt(fl, wq.value)),
                    loc=f.loc(mq.node))

    # ---- 4. angular integral
    site = E + '::EmissionModel.path_integral'
    stmt = 'flux = 2 pi sum_i I(mu_i) mu_i w_i (sum over the quadrature axis), then compute_final_flux'
    with R.guard('4.flux', 'ALG', site, stmt):
        f = ix.func(site)
        fl = mkflow(ix, site)
        ee = one(calls(fl, 'evaluate_emission'), 'evaluate_emission call')
        ecall = fl.tab.atom('call', tuple(ee.args), extra=('fn:self.evaluate_emission',))
        I = fl.tab.atom('idx', (ecall, fl.tab.const(0)))
        imu = fl.tab.atom('idx', (ecall, fl.tab.const(1)))
        w = fl.tab.atom('idx', (ecall, fl.tab.const(2)))
        tau = fl.tab.atom('idx', (ecall, fl.tab.const(3)))
        r = the_return(fl)
        want = spec(fl, '(self.compute_final_flux(2*pi*sum(I*(w/imu), axis=0)), tau)',
                    {'I': I, 'imu': imu, 'w': w, 'tau': tau})
        R.check('4.flux', 'ALG', site, stmt, fl.tab.equal(r.value, want),
                key='returns %s' % fmt(fl, r.value),
                detail='returns %s\n    expected %s (item1 = 1/mu, item2 = w)' % (
                    fmt(fl, r.value), fmt(fl, want)), loc=f.loc(r.node),
                extracted=fmt(fl, r.value))
        wn = fl.tab.name(f.params()[1])
        R.check('4.grid', 'ARG', site, 'evaluate_emission receives the grid path_integral was given',
                ee.args and fl.tab.equal(ee.args[0], wn), key='grid %s' % (fmt(fl, ee.args[0]) if ee.args else None),
                detail='first argument is %s' % (fmt(fl, ee.args[0]) if ee.args else None), loc=f.loc(ee.node))

    # ---- 5. normalisation
    site = E + '::EmissionModel.compute_final_flux'
    stmt = 'eclipse depth = F / SED_star * (Rp/Rs)^2'
    with R.guard('5.emis', 'ALG', site, stmt):
        f = ix.func(site)
        fl = mkflow(ix, site)
        b = param_env(fl, f, ['F'])
        b.update(SED=code(fl, 'self._star.spectralEmissionDensity'),
                 Rp=code(fl, 'self._planet.fullRadius'), Rs=code(fl, 'self._star.radius'))
        r = the_return(fl)
        want = spec(fl, 'F/SED*(Rp/Rs)**2', b)
        R.check('5.emis', 'ALG', site, stmt, fl.tab.equal(r.value, want),
                key='returns %s' % fmt(fl, r.value),
                detail='returns %s, expected %s' % (fmt(fl, r.value), fmt(fl, want)),
                loc=f.loc(r.node), extracted=fmt(fl, r.value))
    site = D + '::DirectImageModel.compute_final_flux'
    stmt = 'direct image flux = F * 2 pi Rp^2 / (4 pi d^2) with d converted from parsec to metres'
    with R.guard('5.direct', 'ALG', site, stmt):
        f = ix.func(site)
        fl = mkflow(ix, site)
        b = param_env(fl, f, ['F'])
        b.update(Rp=code(fl, 'self._planet.fullRadius'), d=code(fl, 'self._star.distance'))
        r = the_return(fl)
        want = spec(fl, 'F*Rp**2/d**2', b)
        c = fl.tab.proportional(r.value, want)
        PC = 3.0856775814913673e16      # metres per parsec (IAU 2015)
        okc = c is not None and c > 0 and abs(float(c) * 2 * PC * PC - 1) < 1e-6
        R.check('5.direct', 'ALG', site, stmt, okc,
                key='returns %s' % fmt(fl, r.value),
                detail='returns %s = %s x %s, expected the constant 1/(2 pc^2)' % (fmt(fl, r.value), c, fmt(fl, want)),
                loc=f.loc(r.node), extracted='%s (constant %s)' % (fmt(fl, r.value), c))
    # star SED: black body on the same grid
    site = S + '::Star.initialize'
    stmt = 'stellar SED = black_body(grid, star temperature) with the same Planck kernel, recomputed on every initialize()'
    with R.guard('5.sed', 'ALG', site, stmt):
        f = ix.func(site)
        fl = mkflow(ix, site)
        st = one([e for e in fl.of('store') if fmt(fl, e.target) == 'self.sed'], 'store of sed')
        want = spec(fl, 'black_body(g, self._temperature)', param_env(fl, f, ['g']))
        same = ix.resolve_name(ix.module(S), 'black_body') is ix.resolve_name(ix.module(E), 'black_body')
        R.check('5.sed', 'ALG', site, stmt, fl.tab.equal(st.value, want) and same and not st.guards and not st.loops,
                key='sed = %s' % fmt(fl, st.value), detail='sed = %s' % fmt(fl, st.value),
                loc=f.loc(st.node))
    from rules.common import model_pipeline
    with R.guard('5.grid', 'ARG', 'taurex/model/simplemodel.py::SimpleForwardModel.model',
                 'star SED, contributions and path_integral use one grid'):
        model_pipeline(ix, R, '5.grid')

    # ---- 6. Planck kernel
    site = U + '::black_body'
    stmt = ('selected Planck kernel == pi*2hc^2/lam^5/(exp(hc/(lam k T))-1)*1e-6, '
            'lam = 1e-2/wavenumber')
    with R.guard('6.bb', 'ALG', site, stmt):
        tgt = ix.resolve_name(ix.module(U), 'black_body')
        if not isinstance(tgt, FuncInfo):
            raise AnalysisError('black_body does not resolve to a function')
        fl = mkflow(ix, tgt)
        b = param_env(fl, tgt, ['nu', 'T'])
        r = the_return(fl)
        val = inline_calls(ix, fl, r.value, U, {'_black_body_vec', '_convert_lamb'})
        want = spec(fl, 'pi*(2*PLANCK*SPDLIGT**2)/lam**5/(exp(PLANCK*SPDLIGT/(lam*KBOLTZ*T))-1)*1e-6',
                    dict(b, lam=spec(fl, '10000*1e-6/nu', b)))
        R.check('6.bb', 'ALG', tgt.site, stmt, fl.tab.equal(val, want),
                key='returns %s' % fmt(fl, val),
                detail='selected kernel %s returns %s\n    expected %s' % (
                    tgt.name, fmt(fl, val), fmt(fl, want)), loc=tgt.loc(r.node),
                extracted=fmt(fl, val))
        m = ix.module(U)
        why = []
        for nm in ('PLANCK', 'SPDLIGT', 'KBOLTZ', 'PI'):
            if m.imports.get(nm) != ('taurex.constants', nm):
                why.append('%s is %s' % (nm, m.imports.get(nm)))
        cm = ix.module(CONST)
        wantc = {'PLANCK': 'c.h.value', 'KBOLTZ': 'c.k_B.value',
                 'SPDLIGT': "conversion_factor('c', 'm/s')", 'PI': 'np.pi'}
        for nm, ex in wantc.items():
            got = unparse(cm.aliases.get(nm))
            if got != ex:
                why.append('%s = %s' % (nm, got))
        if cm.imports.get('c') != ('astropy.constants', None):
            why.append('c is %s' % (cm.imports.get('c'),))
        R.check('6.const', 'TAB', CONST, 'h, c, k, pi are the astropy / numpy constants of those names',
                not why, key='; '.join(why), detail='; '.join(why))

    # ---- 7. sibling k-table routine
    site = E + '::EmissionModel.evaluate_emission_ktables'
    with R.guard('7', 'SIB', site, 'k-table routine agrees with the cross-section routine'):
        kt = emission_core(ix, R, '7', site, ktab=True)
        if kt:
            ktable_terms(ix, R, kt, '7')
    site = E + '::EmissionModel.evaluate_emission'
    stmt = 'k-table routine is selected exactly when opacity_method == ktables, receives the same grid, and its result is returned'
    with R.guard('7.switch', 'DOM', site, stmt):
        f = ix.func(site)
        fl = mkflow(ix, site)
        kc = one(calls(fl, 'evaluate_emission_ktables'), 'dispatch call')
        from sa.helpers import pos_args
        import types as _types
        _pa, _kd = pos_args(fl, kc)         # evaluate_emission_ktables(wngrid=w, return_contrib=r) is (w, r)
        if _kd:
            raise AnalysisError('the dispatch call passes %s by keyword: not placed' % sorted(_kd))
        kc = _types.SimpleNamespace(args=_pa, guards=kc.guards, loops=kc.loops, node=kc.node)
        ok = len(kc.guards) == 1 and kc.guards[0].positive and \
            fl.tab.equal(kc.guards[0].rf, code(fl, 'self.usingKTables'))
        pe = param_env(fl, f, ['g', 'rc'])
        ok = ok and len(kc.args) >= 1 and fl.tab.equal(kc.args[0], pe['g'])
        # the dispatch result is what is returned
        rr = [r for r in fl.of('return') if r.guards and r.guards[-1].node is kc.guards[-1].node and r.guards[-1].positive] if kc.guards else []
        ok = ok and len(rr) == 1 and fl.tab.equal(
            rr[0].value, fl.tab.atom('call', tuple(kc.args), extra=('fn:self.evaluate_emission_ktables',)))
        uf = mkflow(ix, E + '::EmissionModel.usingKTables')
        ur = the_return(uf)
        ok2 = uf.tab.equal(ur.value, spec(uf, "GlobalCache()['opacity_method'] == 'ktables'"))
        R.check('7.switch', 'DOM', site, stmt, ok and ok2,
                key='guard %s / %s' % ([g.text() for g in kc.guards], fmt(uf, ur.value)),
                detail='dispatch guard %s; usingKTables returns %s' % (
                    [g.text() for g in kc.guards], fmt(uf, ur.value)), loc=f.loc(kc.node))


def _ret_roles(R, oid, site, fl, f, r, iname):
    at = atom_of(fl, r.value)
    ok = at is not None and at.head == 'tuple' and len(at.args) == 4 and \
        isinstance(r.value_ast.elts[0], ast.Name) and r.value_ast.elts[0].id == iname and \
        fl.tab.equal(at.args[1], spec(fl, '1/self._mu_quads')) and \
        fl.tab.equal(at.args[2], code(fl, 'self._wi_quads'))
    R.check(oid, 'SIB', site, 'returns (I, 1/mu_nodes, weights, tau) in that order', ok,
            key='returns %s' % unparse(r.value_ast),
            detail='returns %s = %s' % (unparse(r.value_ast), fmt(fl, r.value)),
            loc=f.loc(r.node))


KE_PARAMS = ['startK', 'endK', 'density_offset', 'sigma', 'density', 'path',
             'weights', 'ngrid', 'layer', 'ngauss']


def ktable_terms(ix, R, kt, pfx='7'):
    site = E + '::EmissionModel.evaluate_emission_ktables'
    f, fl, b = kt['f'], kt['fl'], kt['b']
    b.update(S=kt['S'], L=kt['L'], D=kt['Dd'])
    ke = calls(fl, 'contribute_ktau_emission')
    if len(ke) != 2:
        raise AnalysisError('expected two contribute_ktau_emission calls')
    kp = ix.func(E + '::contribute_ktau_emission').params()
    b['M'] = None
    # molecule object
    kL = kD = None
    for e in ke:
        got = bind_call(e, kp)
        if fl.tab.equal(got['startK'], spec(fl, 'layer+1', b)):
            kL = e
            rng = {'startK': 'layer+1', 'endK': 'N'}
        else:
            kD = e
            rng = {'startK': 'layer', 'endK': 'layer+1'}
        roles = dict(rng, density_offset='0', density='rho', layer='0',
                     ngrid='wngrid.shape[0]')
        arg_roles(R, pfx + '.k' + ('L' if e is kL else 'D'), site,
                  'k-table column %s with density offset 0 and the shared dz' % rng,
                  fl, e, kp, roles, f, b)
    if kL is None or kD is None:
        rr = [(fmt(fl, bind_call(e, kp)['startK']), fmt(fl, bind_call(e, kp)['endK'])) for e in ke]
        R.fail(pfx + '.kL', 'ARG', site, 'k-table columns cover (layer+1, N) and (layer, layer+1)',
               'k ranges %s' % rr, 'k-table columns integrate %s' % rr, f.loc(ke[0].node))
        return
    gl, gd = bind_call(kL, kp), bind_call(kD, kp)
    same = all(fl.tab.equal(gl[p], gd[p]) for p in ('sigma', 'density', 'path', 'weights', 'ngauss'))
    R.check(pfx + '.ksame', 'SIB', site, 'both k-table columns use the same sigma, density, dz and weights',
            same, key='differing arguments',
            detail='L: %s\n    D: %s' % ({k: fmt(fl, v) for k, v in gl.items()},
                                         {k: fmt(fl, v) for k, v in gd.items()}),
            loc=f.loc(kL.node))
    dzok = fl.tab.equal(gl['path'], code(fl, 'self.deltaz'))
    R.check(pfx + '.kdz', 'SIB', site, 'k-table columns integrate over self.deltaz like the cross-section routine',
            dzok, key='path <- %s' % fmt(fl, gl['path']),
            detail='path is %s, the cross-section routine uses self.deltaz' % fmt(fl, gl['path']),
            loc=f.loc(kL.node))
    # which contributions go through the k-distribution columns and which through contribute(): stated on the values
    # the loops walk and the object the columns read, whatever names or helpers they pass through
    split_stmt = ('contributions are split by type: everything that is not an AbsorptionContribution goes through '
                  'contribute(), the AbsorptionContribution (if present) through the k-distribution columns')
    missing = []
    non_spec = spec(fl, '[c_ for c_ in self.contribution_list if not isinstance(c_, AbsorptionContribution)]')
    its = [kt['surf'].loops[0].iter_rf[0]] + [e.loops[1].iter_rf[0] for e in kt['lay']]
    for x in its:
        if fl.tab.equal(x, non_spec):
            continue
        xa = atom_of(fl, x)
        if xa is not None and xa.head == 'comp' and len(xa.args) == 3 and fl.tab.equal(xa.args[1], code(fl, 'self.contribution_list')):
            missing.append('contribute() loops walk %s, not the contributions that are not an AbsorptionContribution' % fmt(fl, x)[:120])
        elif fl.tab.equal(x, code(fl, 'self.contribution_list')):
            missing.append('contribute() loops walk every contribution: the molecular absorption is counted through '
                           'contribute() and again through the k-distribution columns')
        else:
            raise AnalysisError('the list the contribute() loops walk is not recognised: %s' % fmt(fl, x)[:160])
    # the molecule object is an element of contribution_list selected by that type
    mol = [e for e in calls(fl, 'contribute') if e.loops and e.loops[0].kind == 'enumerate']
    for e in mol:
        rv = fmt(fl, e.recv_rf) if e.recv_rf is not None else ''
        if 'self.contribution_list' not in rv or 'index(' not in rv or 'AbsorptionContribution' not in rv:
            raise AnalysisError('the k-table molecule object is not recognised: %s' % rv[:160])
        # the k-distribution columns read that object's own opacities and weights
        for p, a in (('sigma', 'sigma_xsec'), ('weights', 'weights')):
            if fmt(fl, gl[p]) not in ('%s.%s' % (rv, a), 'getattr(%s, %s)' % (rv, a)):
                missing.append('k-table %s is %s, not %s.%s' % (p, fmt(fl, gl[p])[:80], rv[:80], a))
    R.check(pfx + '.split', 'SIB', site, split_stmt,
            not missing, key='; '.join(m[:60] for m in missing),
            detail='; '.join(missing), loc=f.loc())
    # I accumulation
    augs = [e for e in fl.of('aug') if e.loops == (kt['layer_loop'],) and e.op == 'Add'
            and e.value.mentions(lambda a: a.head == 'call' and a.extra and a.extra[0] == 'fn:black_body')]
    au = one(augs, 'accumulation of the intensity')
    KL = fl.tab.atom('call', tuple(kL.args), extra=('fn:contribute_ktau_emission',))
    KD = fl.tab.atom('call', tuple(kD.args), extra=('fn:contribute_ktau_emission',))
    # molecule guard
    gs = [e for e in fl.of('if') if unparse(e.node.test).endswith('is not None')]
    if not gs:
        raise AnalysisError('molecule guard not found')
    b2 = dict(b, KL=KL, KD=KD, M=gs[-1].test, wg=gl['weights'])
    want = spec(fl, 'black_body(wngrid, T[layer])/pi * ('
                    '_guard(M, exp(-L*mu)*sum(exp(-KL*mu)*wg, axis=-1), exp(-L*mu)) - '
                    '_guard(M, exp(-(D+L)*mu)*sum(exp(-(KD+KL)*mu)*wg, axis=-1), exp(-(D+L)*mu)))', b2)
    stmt = ('I += B(T[layer])/pi * (T_above - T_through) with the k-table transmittance '
            'sum_g w_g exp(-tau_g/mu) multiplied in, same Planck index as the cross-section routine')
    whyI = []
    must_be_unconditional(fl, au, whyI, 'the layer term')
    if au.value.mentions(lambda a: a.head == 'phi') and not fl.tab.equal(au.value, want):
        raise AnalysisError('the layer term depends on a value carried from one loop iteration to the next: whether it '
                            'equals the per-layer expression needs a loop invariant, which this extractor does not establish')
    R.check(pfx + '.I', 'SIB', site, stmt, fl.tab.equal(au.value, want) and not whyI,
            key='I += %s %s' % (fmt(fl, au.value), '; '.join(whyI)),
            detail='I += %s %s\n    expected %s' % (fmt(fl, au.value), '; '.join(whyI), fmt(fl, want)),
            loc=f.loc(au.node), extracted=fmt(fl, au.value))
    r = one([e for e in fl.of('return') if isinstance(e.value_ast, ast.Tuple)], 'tuple return')
    _ret_roles(R, pfx + '.ret', site, fl, f, r, au.name)
    # surface column of the molecules: one slant column per emission angle
    cc = [e for e in calls(fl, 'contribute') if e.loops and e.loops[0].kind == 'enumerate' and len(e.loops) == 1]
    why = []
    if len(cc) != 1:
        why.append('%d per-angle molecule calls' % len(cc))
    else:
        e = cc[0]
        lp = e.loops[0]
        got = bind_call(e, CONTRIB_PARAMS, True)
        m = fl.tab.atom('elem', (lp.iter_rf[0], lp.index))
        b3 = dict(b, m=m, dz=code(fl, 'self.deltaz'))
        for p, w in (('start_layer', '0'), ('end_layer', 'N'), ('density_offset', '0'), ('layer', '0'),
                     ('density', 'rho'), ('path_length', 'dz*m')):
            if p not in got or not fl.tab.equal(got[p], spec(fl, w, b3)):
                why.append('%s <- %s' % (p, fmt(fl, got.get(p))))
        if not fl.tab.equal(lp.iter_rf[0], b['mu']):
            why.append('angle loop over %s' % fmt(fl, lp.iter_rf[0]))
        tmp = got.get('tau')
        # the shape this rule reads: the per-angle column is built in a scratch buffer of its own (re-zeroed for every
        # angle) and then added to the surface row of that angle; another layout (one row per angle in a 2-D buffer,
        # added after the loop ...) is not decided here
        ta_ = atom_of(fl, tmp) if tmp is not None else None
        if ta_ is None or ta_.head not in ('alloc', 'reset', 'fresh') and not [x for x in fl.of('reset') if fl.tab.equal(x.new, tmp)] \
                and (ta_.head == 'idx'):
            raise AnalysisError('the per-angle molecular column is not written to a scratch buffer of its own: %s' % (
                fmt(fl, tmp)[:100] if tmp is not None else None))
        rs = [x for x in fl.of('reset') if tmp is not None and fl.tab.equal(x.new, tmp)]
        if not rs or rs[0].loops != (lp,) or rs[0].value.const() != 0:
            why.append('per-angle buffer is not zeroed inside the angle loop')
        sts = [x for x in fl.of('store') if x.loops == (lp,)]
        ok = len(sts) == 1 and sts[0].op == 'Add' and tmp is not None and \
            fl.tab.equal(sts[0].value, fl.tab.atom('idx', (tmp, fl.tab.const(0))))
        if ok:
            ta = atom_of(fl, sts[0].target)
            ok = ta is not None and ta.head == 'idx' and fl.tab.equal(ta.args[1], lp.index)
        if not ok:
            why.append('per-angle column is not added at its own angle index')
        g = [x for x in e.guards]
        # the only condition: the molecule contribution exists (`<receiver> is not None`, in whatever form that test
        # takes after substitution of the receiver's definition)
        okg = False
        if len(g) == 1 and g[0].rf is not None and e.recv_rf is not None:
            ga0 = atom_of(fl, g[0].rf)
            if ga0 is not None and ga0.head == 'cmp' and ga0.extra[0] == 'Is' and fmt(fl, ga0.args[-1]) == 'None':
                okg = not g[0].positive
            # receiver = None by default, set under one condition c: `receiver is not None` is c
            for d in fl.of('assign'):
                if d.value is not None and fl.tab.equal(d.value, e.recv_rf) and len(d.guards) == 1 and d.guards[0].rf is not None:
                    dflt = [x for x in fl.of('assign') if x.name == d.name and x is not d and not x.guards and
                            x.value is not None and fmt(fl, x.value) == 'None']
                    if dflt and fl.tab.equal(d.guards[0].rf, g[0].rf) and d.guards[0].positive == g[0].positive:
                        okg = True
        if not okg:
            why.append('guards %s' % [x.text() for x in g])
        for x in sts + rs[:1]:
            if [y.node for y in x.guards] != [y.node for y in g]:
                why.append('%s runs under %s' % (unparse(x.node), [y.text() for y in x.guards]))
    R.check(pfx + '.ksurf', 'SIB', site,
            'surface column of the k-table molecules: for each emission angle i, contribute(0, N, 0, 0, density, tmp, '
            'dz/mu_i) into a zeroed buffer, added to surface_tau[i]',
            not why, key='; '.join(why), detail='; '.join(why), loc=f.loc())
    # surface intensity
    init = [x for x in fl.assign_log.get(au.name, []) if isinstance(x[0], ast.Assign)]
    node, val = one(init, 'initial assignment of the intensity')
    exps = [a for a in val.all_atoms() if fl.tab.atoms[a].head == 'exp']
    want0 = spec(fl, 'black_body(wngrid, T[0])/pi', b)
    ok0 = len(exps) == 1 and fl.tab.equal(val, want0 * RF(fl.tab, __import__('sa.algebra', fromlist=['p_atom']).p_atom(exps[0])))
    arg = fl.tab.atoms[exps[0]].args[0] if exps else None
    # exponent is -(surface_tau after scaling by 1/mu and the per-angle additions): a phi of surface_tau
    ok0 = ok0 and arg is not None and fl.tab.equal(-arg, kt['S'] * b['mu'])
    why0 = []
    ie = event_of(fl, node)
    if ie is not None:
        must_be_unconditional(fl, ie, why0, 'the surface term')
        if ie.loops:
            why0.append('the surface term is set inside a loop')
    R.check(pfx + '.kI0', 'SIB', site, 'I0 = B(T[0])/pi * exp(-surface column) with the column already divided by mu',
            ok0 and not why0, key='I0 = %s %s' % (fmt(fl, val), '; '.join(why0)),
            detail='I0 = %s %s' % (fmt(fl, val), '; '.join(why0)), loc=f.loc(node))
    scaled = kt['S'] * b['mu']
    sc = [x for x in fl.of('assign') if x.op is None and not x.loops and x.value is not None and
          (fl.tab.equal(x.value, scaled) or kt['S'].single_atom() in x.value.all_atoms())]
    oks = any(fl.tab.equal(x.value, scaled) and not x.guards for x in sc)
    R.check(pfx + '.kscale', 'SIB', site, 'the non-molecule surface column is divided by mu once (surface_tau * (1/mu))',
            oks, key='scale %s' % [fmt(fl, x.value) for x in sc], detail='%s' % [fmt(fl, x.value) for x in sc], loc=f.loc())


MUTANTS = [
    ('planck-index', E, "BB = black_body(wngrid, temperature[layer]) / PI\n            self.debug('BB[%s]=%s,%s', layer, temperature[layer], BB)\n            dtau_calc = 0.0",
     "BB = black_body(wngrid, temperature[layer - 1]) / PI\n            self.debug('BB[%s]=%s,%s', layer, temperature[layer], BB)\n            dtau_calc = 0.0", '2.I'),
    ('drop-dtau-reset', E, "            layer_tau[...] = 0.0\n            dtau[...] = 0.0\n            for contrib in self.contribution_list:",
     "            layer_tau[...] = 0.0\n            for contrib in self.contribution_list:", '1.reset'),
    ('drop-accumulate', E, "            dtau += layer_tau\n            dtau_calc = 0.0\n            if dtau.min() < self._clamp:\n                dtau_calc = np.exp(-dtau)\n",
     "            dtau_calc = 0.0\n            if dtau.min() < self._clamp:\n                dtau_calc = np.exp(-dtau)\n", '2.I'),
    ('layer-range', E, "contrib.contribute(self, layer + 1, total_layers, 0, 0, density, layer_tau, path_length=dz)\n                contrib.contribute(self, layer, layer + 1, 0, 0, density, dtau, path_length=dz)\n            self.debug('Layer_tau",
     "contrib.contribute(self, layer + 1, total_layers - 1, 0, 0, density, layer_tau, path_length=dz)\n                contrib.contribute(self, layer, layer + 1, 0, 0, density, dtau, path_length=dz)\n            self.debug('Layer_tau", '1.L'),
    ('swap-buffers', E, "contrib.contribute(self, layer + 1, total_layers, 0, 0, density, layer_tau, path_length=dz)\n                contrib.contribute(self, layer, layer + 1, 0, 0, density, dtau, path_length=dz)\n            self.debug('Layer_tau",
     "contrib.contribute(self, layer + 1, total_layers, 0, 0, density, dtau, path_length=dz)\n                contrib.contribute(self, layer, layer + 1, 0, 0, density, layer_tau, path_length=dz)\n            self.debug('Layer_tau", '2.I'),
    ('surface-mu', E, "I = BB * np.exp(-surface_tau * _mu)", "I = BB * np.exp(-surface_tau)", '2.I0'),
    ('surface-T', E, "BB = black_body(wngrid, temperature[0]) / PI\n        _mu = 1.0 / self._mu_quads[:, None]", "BB = black_body(wngrid, temperature[-1]) / PI\n        _mu = 1.0 / self._mu_quads[:, None]", '2.I0'),
    ('clamp-low', E, 'self._clamp = 10', 'self._clamp = 2', '2.clamp'),
    ('clamp-max', E, "if layer_tau.min() < self._clamp:\n                layer_tau_calc = np.exp(-layer_tau * _mu)", "if layer_tau.max() < self._clamp:\n                layer_tau_calc = np.exp(-layer_tau * _mu)", '2.I'),
    ('nodes', E, "self._ngauss = int(value)\n        mu, weight = np.polynomial.legendre.leggauss(self._ngauss)\n        self._mu_quads = (mu + 1) / 2\n        self._wi_quads = weight / 2",
     "self._ngauss = int(value)\n        mu, weight = np.polynomial.legendre.leggauss(self._ngauss)\n        self._mu_quads = (mu + 1) / 2\n        self._wi_quads = weight", '3.set_num_gauss'),
    ('flux-mu', E, "flux_total = 2.0 * np.pi * sum(I * (_w / _mu))\n        self.debug('flux_total", "flux_total = 2.0 * np.pi * sum(I * (_w * _mu))\n        self.debug('flux_total", '4.flux'),
    ('flux-npsum', E, "flux_total = 2.0 * np.pi * sum(I * (_w / _mu))\n        self.debug('flux_total", "flux_total = 2.0 * np.pi * np.sum(I * (_w / _mu))\n        self.debug('flux_total", '4.flux'),
    ('final-ratio', E, '(planet_radius / star_radius) ** 2', 'planet_radius / star_radius', '5.emis'),
    ('direct-d', D, '(4 * PI * star_distance_meters ** 2)', '(4 * PI * star_distance_meters)', '5.direct'),
    ('bb-lam5', U, "return PI * (2.0 * PLANCK * SPDLIGT ** 2) / wl ** 5 * (1.0 / (np.exp(", "return PI * (2.0 * PLANCK * SPDLIGT ** 2) / wl ** 4 * (1.0 / (np.exp(", '6.bb'),
    ('bb-conv', U, 'return 10000 * 1e-06 / lamb', 'return 10000 * 1e-06 * lamb', '6.bb'),
    ('bb-alias', U, 'black_body = black_body_numba', 'black_body = integrate_emission_layer', '6.bb'),
    ('star-sed-T', S, 'self.sed = black_body(wngrid, self.temperature)', 'self.sed = black_body(wngrid, self.mass)', '5.sed'),
    ('model-grid', 'taurex/model/simplemodel.py', "self._star.initialize(native_grid)\n        for contrib in self.contribution_list:\n            contrib.prepare(self, native_grid)\n        absorp, tau = self.path_integral(native_grid, False)\n        return (native_grid, absorp, tau, None)",
     "self._star.initialize(self.nativeWavenumberGrid)\n        for contrib in self.contribution_list:\n            contrib.prepare(self, native_grid)\n        absorp, tau = self.path_integral(native_grid, False)\n        return (native_grid, absorp, tau, None)", '5.grid'),
    ('ktab-planck', E, "BB = black_body(wngrid, temperature[layer]) / PI\n            self.debug('BB[%s]=%s,%s', layer, temperature[layer], BB)\n            dtau_calc = np.exp(-dtau * _mu)",
     "BB = black_body(wngrid, temperature[0]) / PI\n            self.debug('BB[%s]=%s,%s', layer, temperature[layer], BB)\n            dtau_calc = np.exp(-dtau * _mu)", '7.I'),
    ('ktab-dz-regress', E, "dz = self.deltaz\n        total_layers = self.nLayers\n        density = self.densityProfile\n        wngrid_size = wngrid.shape[0]\n        temperature = self.temperatureProfile\n        tau = np.zeros(shape=(self.nLayers, wngrid_size))\n        surface_tau = np.zeros(shape=(1, wngrid_size))\n        layer_tau = np.zeros(shape=(1, wngrid_size))\n        tmp_tau",
     "dz = compute_dz(self.altitudeProfile)\n        total_layers = self.nLayers\n        density = self.densityProfile\n        wngrid_size = wngrid.shape[0]\n        temperature = self.temperatureProfile\n        tau = np.zeros(shape=(self.nLayers, wngrid_size))\n        surface_tau = np.zeros(shape=(1, wngrid_size))\n        layer_tau = np.zeros(shape=(1, wngrid_size))\n        tmp_tau", '7.dz'),
    ('ktab-kaccum', E, "                k_dtau += k_layer\n", "                pass\n", '7.I'),
    ('ktab-switch', E, "return GlobalCache()['opacity_method'] == 'ktables'", "return GlobalCache()['opacity_method'] == 'ktable'", '7.switch'),
]
EQUIVALENTS = [
    ('final-flux-commute', E, 'last_flux = f_total / star_sed * (planet_radius / star_radius) ** 2',
     'last_flux = f_total * planet_radius ** 2 / (star_sed * self.star.radius ** 2)'),
    ('flux-npsum-axis0', E, "flux_total = 2.0 * np.pi * sum(I * (_w / _mu))\n        self.debug('flux_total",
     "flux_total = np.sum(I * _w / _mu, axis=0) * 2.0 * np.pi\n        self.debug('flux_total"),
    ('nodes-half', E, "self._ngauss = int(value)\n        mu, weight = np.polynomial.legendre.leggauss(self._ngauss)\n        self._mu_quads = (mu + 1) / 2\n        self._wi_quads = weight / 2",
     "self._ngauss = int(value)\n        mu, weight = np.polynomial.legendre.leggauss(self._ngauss)\n        self._mu_quads = 0.5 * mu + 0.5\n        self._wi_quads = 0.5 * weight"),
    ('bb-reorder', U, 'return PI * (2.0 * PLANCK * SPDLIGT ** 2) / wl ** 5 * (1.0 / (np.exp(PLANCK * SPDLIGT / (wl * KBOLTZ * temp)) - 1)) * 1e-06',
     'return 2e-06 * PI * PLANCK * SPDLIGT * SPDLIGT / (wl ** 5 * (np.exp(PLANCK * SPDLIGT / (KBOLTZ * temp * wl)) - 1.0))'),
    ('emis-temp-inline', E, "I += BB * (layer_tau_calc - dtau_calc)\n        self.debug('I: %s', I)\n        return (I, _mu, _w, tau)\n\n    def path_integral",
     "I += BB * layer_tau_calc - dtau_calc * BB\n        self.debug('I: %s', I)\n        return (I, _mu, _w, tau)\n\n    def path_integral"),
]
# statements that implement an unconditional part of the documented behaviour: wrapped in an `if`
# (so that they may be skipped) each must be reported - generated and checked by the thorough tier
UNCONDITIONAL = [
    ('taurex/model/emission.py', 'I = BB * np.exp(-surface_tau * _mu)'),
    ('taurex/model/emission.py', 'I = BB * np.exp(-surface_tau)'),
    ('taurex/model/emission.py', 'surface_tau = surface_tau * _mu'),
    ('taurex/model/emission.py', 'surface_tau[idx] += tmp_tau[0]'),
    ('taurex/model/emission.py', 'self._mu_quads = (mu + 1) / 2', 0),
    ('taurex/model/emission.py', 'self._mu_quads = (mu + 1) / 2', 1),
    ('taurex/data/stellar/star.py', 'self.sed = black_body('),
    ('taurex/model/simplemodel.py', 'self.initialize_profiles()', 1),
]
