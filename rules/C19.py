"""C19 Clouds and hazes act only inside their declared pressure range."""
import ast

from sa.helpers import (mkflow, spec, code, one, calls, bind_call, param_env,
                        fmt, atom_of, unparse, walk_no_nested, unalloc, call_kw)
from sa.index import AnalysisError
from sa.algebra import RF, Slice
from sa.units import Units

FLOOR = 12
CD = 'taurex/contributions/'
SC = CD + 'simpleclouds.py'
FM = CD + 'flatmie.py'
LM = CD + 'leemie.py'
FILES = [SC, FM, LM]
EXPLANATION = (
    'Static rule conformance for clouds and hazes: the cloud mask is '
    'pressureProfile >= cloud pressure, masked rows are infinite, and only the '
    'current layer row is added; for the hazes a space-tag analysis (Pa vs '
    'log10 Pa) shows that both window bounds and the profile they are compared '
    'with live in one space and that the "unset" sentinel (< 0) is tested on the '
    'raw parameter before any log10; the Lee extinction efficiency and cross '
    'section and the flat-haze overlap weights match their formulas.')
ASSUMPTIONS = ['pressure levels decrease with layer index', 'numpy searchsorted semantics']
NOT_DECIDED = ['the resulting transit-depth inequality', 'searchsorted window arithmetic on data']
MT = {'model': 'SimpleForwardModel'}


def haze_bounds(ix, R, site, tag, profile_spec, profile_space):
    """UNIT obligations shared by FlatMie / LeeMie."""
    f = ix.func(site)
    fl = mkflow(ix, site, MT)
    seeds = [(code(fl, 'model.pressureProfile'), 'Pa'),
             (code(fl, 'model.pressure.pressure_profile_levels'), 'Pa'),
             (code(fl, 'self.mieBottomPressure'), 'Pa'),
             (code(fl, 'self.mieTopPressure'), 'Pa')]
    U = Units(fl.tab, seeds)
    # the two bounds as they are finally used: last definitions of the locals
    finals = {}
    for e in fl.of('assign'):
        if e.op is None and e.name in ('bottom_pressure', 'top_pressure'):
            finals[e.name] = e
    # values after the if-merges are in the final env only if not havocked; use the
    # last value recorded in the assign log / merge: take from uses instead
    uses = []
    for e in fl.events:
        v = getattr(e, 'value', None)
        if e.kind in ('assign', 'store') and isinstance(v, RF):
            uses.append((e, v))
    raw_b = code(fl, 'self.mieBottomPressure')
    raw_t = code(fl, 'self.mieTopPressure')
    # find guard atoms that merge a bound
    merged = {}
    for e, v in uses:
        for a in v.all_atoms():
            at = fl.tab.atoms[a]
            if at.head == 'guard':
                for nm, raw in (('bottom', raw_b), ('top', raw_t)):
                    if at.args[0].mentions(lambda x: x.head == 'attr' and x.args[0] == fl.tab.atoms[raw.single_atom()].args[0]):
                        merged.setdefault(nm, (a, at))
    for nm, raw in (('bottom', raw_b), ('top', raw_t)):
        stmt_s = 'the "unset" test (< 0) of the %s bound is applied to the raw parameter, before any log10' % nm
        stmt_u = 'the %s bound is in the space of the profile it is compared with (%s) whether set or unset' % (nm, profile_space)
        if nm not in merged:
            R.fail('2.%s.%s.sentinel' % (tag, nm), 'UNIT', site, stmt_s, 'no sentinel handling for %s bound' % nm,
                   'no `< 0` default handling found for the %s bound' % nm, f.loc())
            continue
        a, at = merged[nm]
        tests = U.sentinel_tests(at.args[0])
        ok = bool(tests) and all(fl.tab.equal(x, raw) for x, _ in tests)
        R.check('2.%s.%s.sentinel' % (tag, nm), 'UNIT', site, stmt_s, ok,
                key='sentinel test on %s' % [fmt(fl, x) for x, _ in tests],
                detail='`< 0` is tested on %s (space %s); a set bound below 1 Pa has a negative log10 and is '
                       'taken for unset, and log10 of the -1 default is NaN' % (
                           [fmt(fl, x) for x, _ in tests], [t for _, t in tests]),
                loc=f.loc())
        from sa.algebra import p_atom
        t = U.tag(RF(fl.tab, p_atom(a)))
        R.check('2.%s.%s.space' % (tag, nm), 'UNIT', site, stmt_u, t == profile_space,
                key='%s bound has space %s' % (nm, t),
                detail='%s bound is %s with space %s; it is compared with a profile in %s' % (
                    nm, fmt(fl, RF(fl.tab, p_atom(a))), t, profile_space), loc=f.loc())
    return f, fl, U


class _Fill:
    """rows of a zero buffer selected by a mask and set to a value, in either spelling:
         B = zeros(shape); B[mask] = value            (one masked store)
         B = np.where(mask[:, None], value, zeros(shape))   (also with the mask broadcast to the shape first)"""
    def __init__(self, mask, value, base, node):
        self.mask, self.value, self.base, self.node = mask, value, base, node


def masked_fill(fl):
    st = [e for e in fl.of('store') if atom_of(fl, e.target) is not None and atom_of(fl, e.target).head == 'idx']
    if len(st) == 1:
        ta = atom_of(fl, st[0].target)
        return _Fill(ta.args[1] if isinstance(ta.args[1], RF) else None, st[0].value, unalloc(fl, ta.args[0]), st[0].node)
    if st:
        raise AnalysisError('expected exactly one masked store, found %d' % len(st))
    wh = []
    for e in fl.of('assign') + fl.of('store'):
        a = atom_of(fl, unalloc(fl, e.value)) if isinstance(e.value, RF) else None
        if a is not None and a.head == 'call' and a.extra == ('fn:where',) and len(a.args) == 3 and \
                not any(fl.tab.equal(unalloc(fl, e.value), unalloc(fl, o.value)) for o, _ in wh):
            wh.append((e, a))
    if len(wh) != 1:
        raise AnalysisError('expected exactly one masked store (or one np.where selection), found %d' % len(wh))
    e, a = wh[0]
    m = a.args[0]
    ma = atom_of(fl, m)
    if ma is not None and ma.head == 'call' and ma.extra and ma.extra[0] == 'fn:broadcast_to' and ma.args:
        m = ma.args[0]          # the mask repeated along the wavenumber axis selects the same rows
    return _Fill(m, a.args[1], unalloc(fl, a.args[2]), e.node)


def run(ix, R):
    _run(ix, R)
    from rules.common import memo_obligation
    memo_obligation(ix, R, 'M.memo', ['taurex/contributions/simpleclouds.py', 'taurex/contributions/flatmie.py', 'taurex/contributions/leemie.py'], 'clouds and hazes')


def _run(ix, R):
    # ---- 1. clouds
    site = SC + '::SimpleCloudsContribution.prepare_each'
    with R.guard('1.mask', 'ALG', site, 'cloud mask'):
        f = ix.func(site)
        fl = mkflow(ix, site, MT)
        pe = param_env(fl, f, ['model', 'wngrid'])
        s = masked_fill(fl)
        mask = spec(fl, 'model.pressureProfile >= self._cloud_pressure', pe)
        why = []
        if s.mask is None or not fl.tab.equal(s.mask, mask):
            why.append('rows selected by %s, not by the boolean mask pressureProfile >= cloud pressure' % (
                fmt(fl, s.mask) if s.mask is not None else 'a slice'))
        if fmt(fl, s.value) != 'inf':
            why.append('masked rows set to %s' % fmt(fl, s.value))
        z = s.base
        if not fl.tab.equal(z, spec(fl, 'zeros(shape=(model.nLayers, wngrid.shape[0]))', pe)):
            why.append('buffer %s' % fmt(fl, z))
        y = one(fl.of('yield'), 'yield')
        ya = atom_of(fl, y.value)
        R.check('1.mask', 'ALG', site,
                'opacity rows with pressureProfile >= cloud-top pressure are infinite, all others stay zero; '
                'buffer is (nLayers, ngrid) zeros',
                not why, key='; '.join(why), detail='; '.join(why), loc=f.loc(s.node))
    from rules.C03 import run as _c03  # noqa
    site = SC + '::SimpleCloudsContribution.contribute'
    with R.guard('1.add', 'ALG', site, 'cloud add'):
        from rules.C01 import CONTRIB_PARAMS
        f = ix.func(site)
        fl = mkflow(ix, site)
        b = param_env(fl, f, CONTRIB_PARAMS[1:])
        s = one(fl.of('store'), 'store')
        ok = s.op == 'Add' and fl.tab.equal(s.target, spec(fl, 'tau[layer]', b)) and \
            fl.tab.equal(s.value, spec(fl, 'self.sigma_xsec[layer]', b)) and not s.loops and not s.guards
        R.check('1.add', 'ALG', site, 'the cloud opacity of the current layer is added to the current layer row only',
                ok, key=unparse(s.node), detail=unparse(s.node), loc=f.loc(s.node))
    site = SC + '::SimpleCloudsContribution.__init__'
    with R.guard('1.param', 'ARG', site, 'cloud pressure'):
        f = ix.func(site)
        fl = mkflow(ix, site)
        pe = param_env(fl, f, ['p'])
        st = {fmt(fl, e.target): e.value for e in fl.of('store')}
        R.check('1.param', 'ARG', site, 'constructor stores clouds_pressure in the attribute the mask compares with',
                '%s' % fmt(fl, st.get('self._cloud_pressure')) == fmt(fl, pe['p']), key=str({k: fmt(fl, v) for k, v in st.items()}),
                detail=str({k: fmt(fl, v) for k, v in st.items()}), loc=f.loc())
    # ---- 2. haze bounds
    with R.guard('2.flat', 'UNIT', FM, 'flat haze bounds'):
        f, fl, U = haze_bounds(ix, R, FM + '::FlatMieContribution.prepare_each', 'flat', None, 'log10Pa')
        pe = param_env(fl, f, ['model', 'wngrid'])
        lev = spec(fl, 'log10(model.pressure.pressure_profile_levels[::-1])', pe)
        # defaults: bottom -> max of levels, top -> min of levels
        # the two edge arrays, whatever they are called: some local is L[:-1] and some local is L[1:]
        why = []
        vals = [e.value for e in fl.of('assign') if isinstance(e.value, RF)]
        for nm_, sl_ in (('lower edges', 'L[:-1]'), ('upper edges', 'L[1:]')):
            w_ = spec(fl, sl_, {'L': lev})
            if not any(fl.tab.equal(v, w_) for v in vals):
                why.append('no %s (%s of the reversed log10 levels)' % (nm_, sl_))
        R.check('2.flat.levels', 'UNIT', FM + '::FlatMieContribution.prepare_each',
                'layer edges are log10 of the pressure levels in ascending order (reversed), lower = L[:-1], upper = L[1:]',
                not why, key='; '.join(why), detail='; '.join(why), loc=f.loc())
        # defaults: an unset bound covers the whole atmosphere
        why = []
        for e in fl.events:
            pass
        allg = set()
        for e in fl.of('assign') + fl.of('store'):
            v = getattr(e, 'value', None)
            if isinstance(v, RF):
                for a in v.all_atoms():
                    if fl.tab.atoms[a].head == 'guard':
                        allg.add(a)
        got = {}
        for a in allg:
            at = fl.tab.atoms[a]
            for nm, attr in (('bottom', 'self.mieBottomPressure'), ('top', 'self.mieTopPressure')):
                if fl.tab.equal(at.args[0], spec(fl, '%s < 0' % attr)):
                    got[nm] = at
        wantd = {'bottom': ('max(L)', 'log10(self.mieBottomPressure)'), 'top': ('min(L)', 'log10(self.mieTopPressure)')}
        for nm, (d, sset) in wantd.items():
            at = got.get(nm)
            if at is None or not fl.tab.equal(at.args[1], spec(fl, d, {'L': lev})) or \
                    not fl.tab.equal(at.args[2], spec(fl, sset)):
                why.append('%s bound: unset -> %s, set -> %s' % (
                    nm, fmt(fl, at.args[1]) if at else None, fmt(fl, at.args[2]) if at else None))
        R.check('2.flat.defaults', 'ALG', FM + '::FlatMieContribution.prepare_each',
                'unset bottom -> highest log-pressure level, unset top -> lowest (whole atmosphere); a set bound -> its log10',
                not why, key='; '.join(why), detail='; '.join(why), loc=f.loc())
        # weights: overlap of [P_range[0], P_range[-1]] with each layer, normalised by the largest
        st = [e for e in fl.of('store') if atom_of(fl, e.target) is not None and atom_of(fl, e.target).head == 'idx'
              and isinstance(atom_of(fl, e.target).args[1], Slice)]
        s = one(st, 'window store')
        ta = atom_of(fl, s.target)
        win = ta.args[1]
        ss = calls(fl, 'searchsorted')
        # np.searchsorted(a=.., v=.., side=..) is np.searchsorted(.., .., side=..)
        import types as _types

        def _pos(e_):
            a_, kd_ = list(e_.args), dict(e_.kw or {})
            for nm_ in ('a', 'v')[len(a_):]:
                if nm_ in kd_ and len(a_) == ('a', 'v').index(nm_):
                    a_.append(kd_.pop(nm_))
            return _types.SimpleNamespace(args=a_, kw=kd_, guards=e_.guards, loops=e_.loops, node=e_.node)
        ss = [_pos(e_) if getattr(e_, 'recv_rf', None) is None else e_ for e_ in ss]
        why = []
        if len(ss) != 2:
            why.append('%d searchsorted calls' % len(ss))
        else:
            pr = ss[0].args[1]
            pra = atom_of(fl, pr)
            # P_range = sorted([top, bottom])
            rng = atom_of(fl, pra.args[0]) if pra is not None and pra.head == 'idx' else None
            if rng is None or rng.head != 'call' or rng.extra[0] != 'fn:sorted':
                why.append('window bounds are not sorted([top, bottom]): %s' % fmt(fl, pr))
            else:
                b = {'R': pra.args[0], 'L': lev, 's': win.lo, 'e1': win.hi}
                w = spec(fl, 'minimum(R[-1], L[1:][s:e1]) - maximum(R[0], L[:-1][s:e1])', b)
                want = spec(fl, '(w/max(w))*self.mieMixing', {'w': w})
                if not fl.tab.equal(s.value, want):
                    why.append('window rows = %s' % fl.tab.diff(s.value, want))
                if not (fl.tab.equal(ss[0].args[0], spec(fl, 'L[1:]', b)) and fl.tab.equal(ss[0].args[1], spec(fl, 'R[0]', b))
                        and fl.tab.equal(ss[1].args[0], spec(fl, 'L[:-1][1:]', b)) and fl.tab.equal(ss[1].args[1], spec(fl, 'R[1]', b))):
                    why.append('window search operands')
                if not (fl.tab.equal(win.hi - 1, fl.tab.atom('call', tuple(ss[1].args + [ss[1].kw[k] for k in sorted(ss[1].kw)]),
                                                             extra=('fn:searchsorted',) + tuple(sorted(ss[1].kw))))):
                    why.append('window stop is not the inclusive search result + 1')
        R.check('2.flat.weight', 'ALG', FM + '::FlatMieContribution.prepare_each',
                'flat haze: rows in the layer window get (overlap of the layer with [top, bottom] in log10 P, '
                'normalised by the largest overlap) x mixing ratio; other rows stay zero',
                not why, key='; '.join(why), detail='; '.join(why), loc=f.loc(s.node))
        # final reversal back to surface-first order and exposure
        # (stated on values: what is published and what is yielded is the buffer the window rows were written into,
        # reversed - however many names it goes through)
        fs = [e for e in fl.of('store') if fmt(fl, e.target) == 'self.sigma_xsec']
        buf = ta.args[0]
        want_rev = fl.tab.atom('idx', (buf, Slice(None, None, fl.tab.const(-1))))
        outs = [e.value for e in fs]
        for y in fl.of('yield'):
            ya = atom_of(fl, y.value) if y.value is not None else None
            if ya is not None and ya.head == 'tuple' and len(ya.args) == 2:
                outs.append(ya.args[1])
        if not fs or len(outs) < 2:
            raise AnalysisError('the published / yielded haze opacity is not found')
        nrev = [v for v in outs if fl.tab.equal(v, want_rev)]
        plain = [v for v in outs if fl.tab.equal(v, buf)]
        if len(nrev) + len(plain) != len(outs):
            raise AnalysisError('the published haze opacity is not the window buffer: %s' % [fmt(fl, v)[:80] for v in outs])
        R.check('2.flat.reverse', 'ALG', FM + '::FlatMieContribution.prepare_each',
                'rows computed on the reversed (ascending) level grid are reversed back before use',
                not plain, key='reverse %d of %d' % (len(nrev), len(outs)),
                detail='%d of the %d published / yielded values are the un-reversed buffer' % (len(plain), len(outs)), loc=f.loc())
    with R.guard('2.lee', 'UNIT', LM, 'lee haze bounds'):
        f, fl, U = haze_bounds(ix, R, LM + '::LeeMieContribution.prepare_each', 'lee', None, 'Pa')
        pe = param_env(fl, f, ['model', 'wngrid'])
        s = masked_fill(fl)
        P = code(fl, 'model.pressureProfile')
        bt = spec(fl, '_guard(self.mieBottomPressure < 0, P[0], self.mieBottomPressure)', {'P': P})
        tp = spec(fl, '_guard(self.mieTopPressure < 0, P[-1], self.mieTopPressure)', {'P': P})
        mask = fl.tab.atom('binop', (spec(fl, 'P <= b', {'P': P, 'b': bt}), spec(fl, 'P >= t', {'P': P, 't': tp})),
                           extra='BitAnd')
        why = []
        if s.mask is None or not fl.tab.equal(s.mask, mask):
            why.append('mask %s' % (fmt(fl, s.mask) if s.mask is not None else None))
        # ---- 3. Lee formula
        b = {'a': code(fl, 'self.mieRadius'), 'Q0': code(fl, 'self.mieQ'), 'mix': code(fl, 'self.mieMixing'),
             'lam': spec(fl, '10000/wngrid', pe)}
        b['x'] = spec(fl, '2*pi*a/lam', b)
        want = spec(fl, '5/(Q0*x**(-4.0) + x**0.2) * pi * (a*1e-6)**2 * mix', b)
        R.check('2.lee.mask', 'ALG', LM + '::LeeMieContribution.prepare_each',
                'Lee haze acts on layers with top <= P <= bottom (Pa), bounds defaulting to the profile ends',
                not why, key='; '.join(why), detail='; '.join(why), loc=f.loc(s.node))
        R.check('3.lee.formula', 'ALG', LM + '::LeeMieContribution.prepare_each',
                'sigma = Q_ext pi (a 1e-6)^2 mix with Q_ext = 5/(Q0 x^-4 + x^0.2), x = 2 pi a / lambda, lambda = 1e4/wavenumber',
                fl.tab.equal(s.value, want), key=fmt(fl, s.value)[:200],
                detail='differs: %s' % fl.tab.diff(s.value, want), loc=f.loc(s.node))
    for site, attrs in ((FM + '::FlatMieContribution.__init__', {'self._mie_mix': 0, 'self._mie_bottom_pressure': 1, 'self._mie_top_pressure': 2}),
                        (LM + '::LeeMieContribution.__init__', {'self._mie_radius': 0, 'self._mie_q': 1, 'self._mie_mix': 2,
                                                                'self._mie_bottom_pressure': 3, 'self._mie_top_pressure': 4})):
        with R.guard('3.init', 'ARG', site, 'constructor'):
            f = ix.func(site)
            fl = mkflow(ix, site)
            ps = f.params()[1:]
            st = {fmt(fl, e.target): e.value for e in fl.of('store')}
            bad = [k for k, i in attrs.items() if k not in st or not fl.tab.equal(st[k], fl.tab.name(ps[i]))]
            R.check('3.init', 'ARG', site, 'each constructor argument is stored in the attribute its getter reads',
                    not bad, key=str(bad), detail='mismatched %s' % bad, loc=f.loc())


MUTANTS = [
    ('seed-c19-a', SC, "contrib[cloud_filtr, :] = np.inf", "cloud_top = np.argmin(cloud_filtr)\n        contrib[:cloud_top, :] = np.inf", '1.mask'),
    ('cloud-lt', SC, 'cloud_filtr = model.pressureProfile >= self._cloud_pressure', 'cloud_filtr = model.pressureProfile <= self._cloud_pressure', '1.mask'),
    ('cloud-finite', SC, 'contrib[cloud_filtr, :] = np.inf', 'contrib[cloud_filtr, :] = 1.0', '1.mask'),
    ('cloud-row', SC, 'tau[layer] += self.sigma_xsec[layer, :]', 'tau[layer] += self.sigma_xsec[layer - 1, :]', '1.add'),
    ('flat-regress-bottom', FM, "        if bottom_pressure < 0:\n            bottom_pressure = pressure_levels.max()\n        else:\n            bottom_pressure = np.log10(bottom_pressure)", "        if bottom_pressure < 0:\n            bottom_pressure = pressure_levels.max()", '2.flat.bottom.space'),
    ('flat-regress-top', FM, "        top_pressure = self.mieTopPressure\n        if top_pressure < 0:\n            top_pressure = pressure_levels.min()\n        else:\n            top_pressure = np.log10(top_pressure)", "        top_pressure = np.log10(self.mieTopPressure)\n        if top_pressure < 0:\n            top_pressure = pressure_levels.min()", '2.flat.top.sentinel'),
    ('flat-default-swap', FM, "            bottom_pressure = pressure_levels.max()", "            bottom_pressure = pressure_levels.min()", '2.flat.defaults'),
    ('flat-weight', FM, 'weight = np.minimum(P_range[-1], P_max) - np.maximum(P_range[0], P_min)', 'weight = np.minimum(P_range[-1], P_max) - np.minimum(P_range[0], P_min)', '2.flat.weight'),
    ('flat-noreverse', FM, "        sigma_xsec = sigma_xsec[::-1]\n", "", '2.flat.reverse'),
    ('lee-mask', LM, 'cloud_filter = (pressure_profile <= bottom_pressure) & (pressure_profile >= top_pressure)', 'cloud_filter = (pressure_profile <= bottom_pressure) | (pressure_profile >= top_pressure)', '2.lee.mask'),
    ('lee-log-bound', LM, "        top_pressure = self.mieTopPressure\n        if top_pressure < 0:", "        top_pressure = np.log10(self.mieTopPressure)\n        if top_pressure < 0:", '2.lee.top.sentinel'),
    ('lee-q', LM, 'Qext = 5.0 / (self.mieQ * x ** (-4.0) + x ** 0.2)', 'Qext = 5.0 / (self.mieQ * x ** (-4.0) + x ** 2.0)', '3.lee.formula'),
    ('lee-radius-unit', LM, 'am = a * 1e-06', 'am = a * 0.001', '3.lee.formula'),
    ('lee-init', LM, '        self._mie_bottom_pressure = lee_mie_bottomP\n', '        self._mie_bottom_pressure = lee_mie_topP\n', '3.init'),
]
EQUIVALENTS = [
    ('lee-x', LM, 'x = 2.0 * np.pi * a / wltmp', 'x = a * np.pi * 2.0 / wltmp'),
    ('cloud-mask-flip', SC, 'cloud_filtr = model.pressureProfile >= self._cloud_pressure', 'cloud_filtr = self._cloud_pressure <= model.pressureProfile'),
]
