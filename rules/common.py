"""Obligations shared by several properties."""
from sa.helpers import (mkflow, spec, code, one, calls, bind_call, fmt, atom_of,
                        unparse)
from sa.index import AnalysisError

SM = 'taurex/model/simplemodel.py'


def model_pipeline(ix, R, oid, site=SM + '::SimpleForwardModel.model'):
    """model(): star SED, every contribution's prepare() and path_integral()
    all receive the same grid, which is what the function returns first."""
    f = ix.func(site)
    fl = mkflow(ix, site)
    si = one(calls(fl, 'initialize'), 'star.initialize call')
    pr = one(calls(fl, 'prepare'), 'contrib.prepare call')
    pi = one(calls(fl, 'path_integral'), 'path_integral call')
    g = pi.args[0]
    why = []
    if not fl.tab.equal(si.args[0], g):
        why.append('star.initialize(%s)' % fmt(fl, si.args[0]))
    if not (len(pr.args) == 2 and fl.tab.equal(pr.args[1], g)):
        why.append('prepare(%s)' % ', '.join(fmt(fl, a) for a in pr.args))
    if not (len(pr.loops) == 1 and pr.loops[0].kind == 'iter' and fl.tab.equal(
            pr.loops[0].iter_rf[0], code(fl, 'self.contribution_list')) and not pr.guards):
        why.append('prepare is not called for every member of contribution_list')
    if pi.loops or pi.guards or si.loops or si.guards:
        why.append('conditional pipeline step')
    r = one(fl.of('return'), 'return')
    at = atom_of(fl, r.value)
    if at is None or at.head != 'tuple' or not fl.tab.equal(at.args[0], g):
        why.append('returns %s' % fmt(fl, r.value))
    else:
        pic = atom_of(fl, atom_of(fl, at.args[1]).args[0]) if atom_of(fl, at.args[1]) is not None \
            and atom_of(fl, at.args[1]).head == 'idx' else None
        if pic is None or pic.extra[0] != 'fn:self.path_integral' or \
                atom_of(fl, at.args[1]).args[1].const() != 0:
            why.append('second element returned is %s' % fmt(fl, at.args[1]))
    # order: prepare before path_integral
    evs = fl.events
    if evs.index(pr) > evs.index(pi):
        why.append('path_integral runs before prepare')
    R.check(oid, 'ARG', site,
            'star SED, every contribution.prepare and path_integral use one grid; '
            'model() returns (grid, path_integral(...)[0], ...)',
            not why, key='; '.join(why), detail='; '.join(why), loc=f.loc(pi.node),
            extracted=fmt(fl, g))
    return fl, g
