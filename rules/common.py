"""Obligations shared by several properties."""
from sa.helpers import (the_return, mkflow, spec, code, one, calls, bind_call, fmt, atom_of,
                        unparse)
from sa.index import AnalysisError

SM = 'taurex/model/simplemodel.py'


def model_pipeline(ix, R, oid, site=SM + '::SimpleForwardModel.model'):
    """model(): star SED, every contribution's prepare() and path_integral()
    all receive the same grid, which is what the function returns first."""
    f = ix.func(site)
    fl = mkflow(ix, site)
    si = one(calls(fl, 'initialize'), 'star.initialize call')
    pr = one(calls(fl, 'prepare'), 'contrib.prepare call')
    pi = one(calls(fl, 'path_integral'), 'path_integral call')
    g = pi.args[0]
    why = []
    if not fl.tab.equal(si.args[0], g):
        why.append('star.initialize(%s)' % fmt(fl, si.args[0]))
    if not (len(pr.args) == 2 and fl.tab.equal(pr.args[1], g)):
        why.append('prepare(%s)' % ', '.join(fmt(fl, a) for a in pr.args))
    if not (len(pr.loops) == 1 and pr.loops[0].kind == 'iter' and fl.tab.equal(
            pr.loops[0].iter_rf[0], code(fl, 'self.contribution_list')) and not pr.guards):
        why.append('prepare is not called for every member of contribution_list')
    if pi.loops or pi.guards or si.loops or si.guards:
        why.append('conditional pipeline step')
    r = the_return(fl)
    at = atom_of(fl, r.value)
    if at is None or at.head != 'tuple' or not fl.tab.equal(at.args[0], g):
        why.append('returns %s' % fmt(fl, r.value))
    else:
        pic = atom_of(fl, atom_of(fl, at.args[1]).args[0]) if atom_of(fl, at.args[1]) is not None \
            and atom_of(fl, at.args[1]).head == 'idx' else None
        if pic is None or pic.extra[0] != 'fn:self.path_integral' or \
                atom_of(fl, at.args[1]).args[1].const() != 0:
            why.append('second element returned is %s' % fmt(fl, at.args[1]))
    # order: prepare before path_integral
    evs = fl.events
    if evs.index(pr) > evs.index(pi):
        why.append('path_integral runs before prepare')
    # profiles are rebuilt from the current parameters before anything is evaluated
    ip = calls(fl, 'initialize_profiles')
    if len(ip) != 1 or ip[0].guards or ip[0].loops or evs.index(ip[0]) > min(evs.index(si), evs.index(pr), evs.index(pi)):
        why.append('initialize_profiles() is not called unconditionally before the evaluation')
    R.check(oid, 'ARG', site,
            'initialize_profiles() first; star SED, every contribution.prepare and path_integral use one grid; '
            'model() returns (grid, path_integral(...)[0], ...)',
            not why, key='; '.join(why), detail='; '.join(why), loc=f.loc(pi.node),
            extracted=fmt(fl, g))
    return fl, g


# memo / "same as last time" shortcuts: state that is both tested and assigned in an
# evaluation-path function makes the result depend on the call history.
MEMO_ALLOW = {
    ('AbsorptionContribution.prepare_each', 'self._use_ktables'): 'assigned from the global switch at the top of every call, then tested',
    ('AbsorptionContribution.prepare_each', 'self.weights'): 'reset to None at the top of every call, filled from the first k-table',
    ('SimpleForwardModel.initialize_profiles', 'self._initialized'): 'one-off bootstrap of the altitude grid with a default mu before the first chemistry evaluation',
    ('AutoChemistry.determine_active_inactive', 'self._active_mask'): 'assigned earlier in the same call, then converted to an array',
    ('AutoChemistry.determine_active_inactive', 'self._inactive_mask'): 'as above',
    ('OnlineVariance.update', 'self.mean'): 'accumulator initialised on the first sample',
    ('HitranCIA.load_hitran_file', 'self._wn_dict'): 'dictionary of ranges being built while the file is read (constructor-time)',
    ('HDF5Opacity._load_hdf_file', 'self._molecule_name'): 'type normalisation of the value read a line earlier (constructor-time)',
    ('Fittable.add_fittable_param', 'self._param_dict'): 'duplicate-name check of the registry being built',
    ('RadisHITRANOpacity.compute_opacity', '@lru_cache(maxsize=500)'): 'keyed by (self, temperature, pressure); the body reads only those and the line database fixed at construction',
}


def _ctor_only(ix, f):
    """private helper whose only `self.<name>(...)` call sites in its own class
    hierarchy file are in constructors"""
    import ast as _ast
    if f.cls is None:
        return False
    sites = []
    for g in ix.all_functions():
        for n in _ast.walk(g.node):
            if isinstance(n, _ast.Call) and isinstance(n.func, _ast.Attribute) and n.func.attr == f.name:
                sites.append(g)
    # constructors of the SAME object: a method of a shared object (a singleton cache) called from the constructor of
    # something else lives across many constructions
    fam = set(ix.mro(f.cls)) | set(ix.subclasses(f.cls))
    return bool(sites) and all(g.name == '__init__' and g.cls in fam for g in sites)


def _licensed_through_callers(ix, f, attr, depth=0):
    """a function that is new to the reviewed tree (an extracted helper) inherits the licence of the reviewed functions
    it is called from: every `self.<name>(...)` / `<name>(...)` call site must sit in a function that holds the licence
    for `attr` (or in another new helper that inherits it)"""
    import ast as _ast
    from sa.helpers import known_functions
    known = known_functions()
    if known is None or f.site in known or depth > 2:
        return False
    callers = []
    for g in ix.all_functions():
        if g.node is f.node:
            continue
        for n in _ast.walk(g.node):
            if isinstance(n, _ast.Call) and ((isinstance(n.func, _ast.Attribute) and n.func.attr == f.name) or
                                            (isinstance(n.func, _ast.Name) and n.func.id == f.name)):
                callers.append(g)
                break
    if not callers:
        return False
    return all((g.qualname, attr) in MEMO_ALLOW or _licensed_through_callers(ix, g, attr, depth + 1) for g in callers)


def _memo_value_depends(f, attr):
    """does a value assigned to `attr` inside f mention self.* state or a parameter?
    (a constant default cannot carry history)"""
    import ast as _ast
    from sa.algebra import dotted
    params = set(f.params()) - {'self', 'cls'}
    # locals computed from the arguments or from the object's state carry them along
    carry = set(params)
    changed = True

    def tainted(expr):
        for x in _ast.walk(expr):
            if isinstance(x, _ast.Attribute) and isinstance(x.value, _ast.Name) and x.value.id in ('self', 'cls'):
                return True
            if isinstance(x, _ast.Name) and x.id in carry:
                return True
        return False
    while changed:
        changed = False
        for n in _ast.walk(f.node):
            tgs = None
            if isinstance(n, _ast.Assign) and tainted(n.value):
                tgs = n.targets
            elif isinstance(n, _ast.For) and tainted(n.iter):
                tgs = [n.target]
            for t in tgs or []:
                for x in _ast.walk(t):
                    if isinstance(x, _ast.Name) and isinstance(x.ctx, _ast.Store) and x.id not in carry:
                        carry.add(x.id)
                        changed = True
    for n in _ast.walk(f.node):
        flat_ = []
        if isinstance(n, _ast.Assign):
            for t in n.targets:
                flat_.extend(t.elts if isinstance(t, (_ast.Tuple, _ast.List)) else [t])
        if isinstance(n, _ast.Assign) and any(dotted(t) == attr for t in flat_) or \
                isinstance(n, _ast.AugAssign) and dotted(n.target) == attr:
            if tainted(n.value):
                return True
        elif isinstance(n, (_ast.Assign, _ast.AugAssign)):
            tg = n.targets if isinstance(n, _ast.Assign) else [n.target]
            for t in tg:
                b = t
                while isinstance(b, _ast.Subscript):
                    b = b.value
                if b is not t and dotted(b) == attr:
                    return True     # item store into the memo: keyed cache
                if b is not t and isinstance(b, _ast.Name) and b.id in _dict_aliases(f, attr):
                    return True     # ... through a local name for a container kept in the object's __dict__
    return False


def _dict_aliases(f, attr):
    """locals bound by `x = self.__dict__.setdefault('<name>', ...)` / `vars(self).setdefault(...)` for attr self.<name>"""
    import ast as _ast
    out = set()
    leaf = attr.split('.')[-1]
    for n in _ast.walk(f.node):
        if isinstance(n, _ast.Assign) and len(n.targets) == 1 and isinstance(n.targets[0], _ast.Name) and \
                isinstance(n.value, _ast.Call) and isinstance(n.value.func, _ast.Attribute) and n.value.func.attr == 'setdefault' \
                and n.value.args and isinstance(n.value.args[0], _ast.Constant) and n.value.args[0].value == leaf:
            out.add(n.targets[0].id)
    return out


def _size_only_key(f, attr):
    """(arguments the value assigned to `attr` depends on, text) when every comparison in the test(s) that guard the
    assignment looks only at sizes (.shape / len / .size), end points ([0], [-1]) or presence (is None) - else None"""
    import ast as _ast
    from sa.algebra import dotted
    params = set(f.params()) - {'self', 'cls'}
    if not params:
        return None
    # taint of locals by parameters
    carry = {p: {p} for p in params}
    changed = True

    def deps(expr):
        out = set()
        for x in _ast.walk(expr):
            if isinstance(x, _ast.Name) and x.id in carry:
                out |= carry[x.id]
        return out
    while changed:
        changed = False
        for n in _ast.walk(f.node):
            tg = None
            if isinstance(n, _ast.Assign):
                tg, val = n.targets, n.value
            elif isinstance(n, _ast.For):
                tg, val = [n.target], n.iter
            elif isinstance(n, _ast.AugAssign):
                tg, val = [n.target], n.value
            if not tg:
                continue
            d = deps(val)
            if not d:
                continue
            for t in tg:
                for x in _ast.walk(t):
                    if isinstance(x, _ast.Name) and isinstance(x.ctx, _ast.Store):
                        if not d <= carry.get(x.id, set()):
                            carry.setdefault(x.id, set()).update(d)
                            changed = True
                    # item stores into a local array: the array now carries the dependency
                    if isinstance(x, _ast.Subscript) and isinstance(x.value, _ast.Name) and isinstance(x.ctx, _ast.Store):
                        if not d <= carry.get(x.value.id, set()):
                            carry.setdefault(x.value.id, set()).update(d)
                            changed = True
    used = set()
    tests = []
    for n in _ast.walk(f.node):
        if isinstance(n, _ast.If):
            hit = False
            for st in _ast.walk(n):
                if isinstance(st, _ast.Assign) and any(dotted(t) == attr for t in st.targets):
                    used |= deps(st.value)
                    hit = True
            if hit and any(isinstance(x, _ast.Attribute) and dotted(x) is not None and (dotted(x) == attr or dotted(x).startswith(attr + '.'))
                           for x in _ast.walk(n.test)):
                tests.append(n.test)
    used &= params
    if not used or not tests:
        return None

    def size_like(x):
        # expressions that say nothing about contents
        if isinstance(x, _ast.Constant):
            return True
        if isinstance(x, _ast.Attribute) and x.attr in ('shape', 'size', 'ndim', 'dtype', 'nLayers', 'nlayers', 'nLevels',
                                                          '_nlayers', '_ngrid'):     # counts, not contents
            return True
        if isinstance(x, _ast.Call) and isinstance(x.func, _ast.Name) and x.func.id == 'len':
            return True
        if isinstance(x, _ast.Subscript):
            if size_like(x.value):
                return True
            sl = x.slice
            if isinstance(sl, _ast.UnaryOp) and isinstance(sl.operand, _ast.Constant):
                sl = sl.operand
            return isinstance(sl, _ast.Constant) and sl.value in (0, 1)        # first / last element
        if isinstance(x, (_ast.Tuple, _ast.List)):
            return all(size_like(e) for e in x.elts)
        if isinstance(x, _ast.Name):
            # a local built only from size-like things
            for n in _ast.walk(f.node):
                if isinstance(n, _ast.Assign) and len(n.targets) == 1 and isinstance(n.targets[0], _ast.Name) and \
                        n.targets[0].id == x.id:
                    return size_like(n.value)
            return False
        if isinstance(x, _ast.BinOp):
            return size_like(x.left) and size_like(x.right)
        return False
    for t in tests:
        for c in _ast.walk(t):
            if isinstance(c, _ast.Compare):
                for side in [c.left] + list(c.comparators):
                    if isinstance(side, _ast.Constant) and side.value is None:
                        continue
                    if isinstance(side, _ast.Attribute) and dotted(side) == attr:
                        continue
                    if not size_like(side):
                        return None
            if isinstance(c, _ast.Call) and isinstance(c.func, _ast.Attribute) and c.func.attr in (
                    'array_equal', 'allclose', 'array_equiv', 'all', 'any'):
                return None          # contents are compared
    return used, 'sizes / end points match (%s)' % '; '.join(_ast.unparse(t)[:80] for t in tests)


def _invalidation_sites(ix, f, attr):
    """other methods of the class hierarchy (not constructors, not f) that assign attr"""
    from sa.effects import attr_writes
    if f.cls is None:
        return []
    out = []
    fam = set()
    for c in ix.mro(f.cls):
        fam.add(c)
    for c in list(fam):
        fam.update(ix.subclasses(c) if hasattr(ix, 'subclasses') else [])
    for c in fam:
        for lst in c.methods.values():
            for g in lst:
                if g is f or g.name in ('__init__',):
                    continue
                if attr in attr_writes(g):
                    out.append(g.qualname)
    return sorted(set(out))


def _unreset_state_deps(ix, f, attr):
    """[(self attribute the memoised value is computed from, method that changes it without resetting the memo)].
    A memo that is reset by some methods is only sound if EVERY method that changes something the memoised value was
    computed from resets it (or calls a method that does).  Decided on the class's own methods: the value's
    dependencies are the self attributes read by the statements that feed the store into `attr`; their writers are the
    methods that assign them or mutate them in place."""
    import ast as _ast
    from sa.algebra import dotted
    from sa.effects import attr_writes
    if f.cls is None:
        return []
    # locals / attributes that flow into the stored value
    deps = set()
    carry = {}
    for n in _ast.walk(f.node):
        if isinstance(n, _ast.Assign) and len(n.targets) == 1 and isinstance(n.targets[0], _ast.Name):
            carry.setdefault(n.targets[0].id, []).append(n.value)
        if isinstance(n, _ast.For):
            for x in _ast.walk(n.target):
                if isinstance(x, _ast.Name):
                    carry.setdefault(x.id, []).append(n.iter)
        if isinstance(n, _ast.Expr) and isinstance(n.value, _ast.Call) and isinstance(n.value.func, _ast.Attribute) and \
                isinstance(n.value.func.value, _ast.Name) and n.value.func.attr in ('append', 'extend', 'update', 'add'):
            carry.setdefault(n.value.func.value.id, []).extend(n.value.args)

    def collect(expr, seen):
        for x in _ast.walk(expr):
            if isinstance(x, _ast.Attribute) and isinstance(x.value, _ast.Name) and x.value.id in ('self', 'cls'):
                d = 'self.' + x.attr
                if d != attr:
                    deps.add(d)
            if isinstance(x, _ast.Name) and x.id in carry and x.id not in seen:
                seen.add(x.id)
                for v in carry[x.id]:
                    collect(v, seen)
    for n in _ast.walk(f.node):
        if isinstance(n, _ast.Assign) and any(dotted(t) == attr for t in n.targets):
            collect(n.value, set())
    # only attributes that are data of the object (assigned somewhere in the class), not methods / properties
    meths = {}
    for c in ix.mro(f.cls):
        for name, lst in c.methods.items():
            meths.setdefault(name, lst[0])
    deps = {d for d in deps if d.split('.')[1] not in meths}
    if not deps:
        return []

    def mutates(g, d):
        if d in attr_writes(g):
            return True
        for n in _ast.walk(g.node):
            if isinstance(n, (_ast.Assign, _ast.AugAssign, _ast.Delete)):
                tg = n.targets if isinstance(n, (_ast.Assign, _ast.Delete)) else [n.target]
                for t in tg:
                    b = t
                    while isinstance(b, _ast.Subscript):
                        b = b.value
                    if b is not t and dotted(b) == d:
                        return True
            if isinstance(n, _ast.Call) and isinstance(n.func, _ast.Attribute) and dotted(n.func.value) == d and \
                    n.func.attr in ('append', 'extend', 'insert', 'update', 'pop', 'remove', 'clear', 'add', 'setdefault', 'sort'):
                return True
        return False

    def resets(g, depth=0):
        if attr in attr_writes(g):
            return True
        if depth > 2:
            return False
        for n in _ast.walk(g.node):
            if isinstance(n, _ast.Call) and isinstance(n.func, _ast.Attribute) and isinstance(n.func.value, _ast.Name) and \
                    n.func.value.id == 'self' and n.func.attr in meths and meths[n.func.attr] is not g:
                if resets(meths[n.func.attr], depth + 1):
                    return True
        return False
    out = []
    for name, g in sorted(meths.items()):
        if g is f or name == '__init__':
            continue
        for d in sorted(deps):
            if mutates(g, d) and not resets(g):
                out.append((d, g.qualname))
    return out


def _module_memos(ix, f):
    """{name: condition text} of module-level containers ({} / [] / dict() / set() at module scope) that f both tests
    (`key in G`, `G.get(key)`) and fills (`G[key] = v`, G.update / setdefault / append / add), and that no other
    function of the module empties (G.clear(), `global G; G = ...`, del G[...])"""
    import ast as _ast
    conts = set()
    for st in f.module.tree.body:
        if isinstance(st, _ast.Assign) and len(st.targets) == 1 and isinstance(st.targets[0], _ast.Name):
            v = st.value
            if isinstance(v, (_ast.Dict, _ast.List, _ast.Set)) and not (getattr(v, 'keys', None) or getattr(v, 'elts', None)):
                conts.add(st.targets[0].id)
            elif isinstance(v, _ast.Call) and isinstance(v.func, _ast.Name) and v.func.id in ('dict', 'list', 'set', 'OrderedDict', 'defaultdict') and not v.args:
                conts.add(st.targets[0].id)
    if not conts:
        return {}
    local = {n.id for n in _ast.walk(f.node) if isinstance(n, _ast.Name) and isinstance(n.ctx, _ast.Store)}
    glob = {x for n in _ast.walk(f.node) if isinstance(n, _ast.Global) for x in n.names}
    conts = {c for c in conts if c not in local or c in glob}

    def fills(node, g):
        for n in _ast.walk(node):
            if isinstance(n, (_ast.Assign, _ast.AugAssign)):
                for t in (n.targets if isinstance(n, _ast.Assign) else [n.target]):
                    b = t
                    while isinstance(b, _ast.Subscript):
                        b = b.value
                    if b is not t and isinstance(b, _ast.Name) and b.id == g:
                        return True
            if isinstance(n, _ast.Call) and isinstance(n.func, _ast.Attribute) and isinstance(n.func.value, _ast.Name) and \
                    n.func.value.id == g and n.func.attr in ('update', 'setdefault', 'append', 'add', 'extend', 'insert'):
                return True
        return False

    def empties(node, g):
        for n in _ast.walk(node):
            if isinstance(n, _ast.Call) and isinstance(n.func, _ast.Attribute) and isinstance(n.func.value, _ast.Name) and \
                    n.func.value.id == g and n.func.attr in ('clear', 'pop', 'popitem'):
                return True
            if isinstance(n, _ast.Delete) and any(isinstance(t, _ast.Subscript) and isinstance(t.value, _ast.Name) and
                                                  t.value.id == g for t in n.targets):
                return True
            if isinstance(n, _ast.Global) and g in n.names:
                return True
        return False
    out = {}
    for g in sorted(conts):
        tests = [n for n in _ast.walk(f.node) if isinstance(n, (_ast.If, _ast.IfExp, _ast.While)) and any(
            isinstance(x, _ast.Name) and x.id == g for x in _ast.walk(n.test))]
        if not tests or not fills(f.node, g):
            continue
        if any(empties(h.node, g) for h in ix.functions_in(f.module.relpath) if h is not f):
            continue
        out[g] = _ast.unparse(tests[0].test)[:100]
    return out


def memo_obligation(ix, R, oid, relpaths, what, skip=('__init__', 'init')):
    """No evaluation-path function in the given files keeps history in an attribute
    it both tests and assigns (memo / cache / unchanged-input shortcut), unless
    the attribute is invalidated somewhere else in the class, is a constant
    default, lives in a constructor-only helper, or is listed in MEMO_ALLOW."""
    from sa.effects import memo_attrs
    n = 0
    bad = []
    invalidated = []
    for rel in relpaths:
        for path in sorted(ix.modules):
            if not (path == rel or (rel.endswith('/') and path.startswith(rel))):
                continue
            for f in ix.functions_in(path):
                if f.name in skip:
                    continue
                n += 1
                memo = memo_attrs(f)
                if memo and _ctor_only(ix, f):
                    continue
                for attr, cond in sorted(memo.items()):
                    if (f.qualname, attr) in MEMO_ALLOW or _licensed_through_callers(ix, f, attr):
                        continue
                    if not _memo_value_depends(f, attr):
                        continue
                    inv = _invalidation_sites(ix, f, attr)
                    if inv:
                        # invalidated by setters of the object's own state - which cannot know about the ARGUMENTS the
                        # memoised value was computed from.  If it depends on an argument and the reuse test only looks
                        # at sizes / end points / presence, a second call with other data of the same size gets the
                        # stale value
                        weak = _size_only_key(f, attr)
                        if weak:
                            bad.append((f, attr, '%s (the memo depends on the argument%s %s and is reused whenever %s)' % (
                                cond, 's' if len(weak[0]) > 1 else '', ', '.join(sorted(weak[0])), weak[1])))
                            continue
                        stale = _unreset_state_deps(ix, f, attr)
                        if stale:
                            bad.append((f, attr, '%s (the memoised value is computed from %s, which %s changes without '
                                        'resetting the memo)' % (cond, stale[0][0], stale[0][1])))
                            continue
                        invalidated.append('%s %s (reset in %s)' % (f.qualname, attr, ', '.join(inv)))
                        continue
                    bad.append((f, attr, cond))
                for d in f.decorators():
                    if ('cache' in d.lower() or 'memo' in d.lower()) and (f.qualname, '@' + d) not in MEMO_ALLOW:
                        bad.append((f, '@' + d, 'decorator'))
                # a module-level container used as a memo: tested and filled by the function, emptied by nobody
                for gname, cond in sorted(_module_memos(ix, f).items()):
                    if (f.qualname, gname) in MEMO_ALLOW:
                        continue
                    bad.append((f, 'module-level ' + gname, cond))
    R.check(oid, 'EFF', ', '.join(relpaths),
            'no function of %s keeps an un-invalidated memo: an attribute that is both tested in a condition and '
            'assigned from state or arguments and never reset by another method (or a caching decorator), which '
            'would make results depend on earlier calls (%d functions scanned%s)' % (
                what, n, '; invalidated memos, completeness of the invalidation not decided: ' + '; '.join(invalidated)
                if invalidated else ''),
            not bad, key='; '.join('%s %s' % (f.qualname, a) for f, a, c in bad),
            detail='; '.join('%s tests `%s` and assigns %s' % (f.qualname, c, a) for f, a, c in bad),
            loc=bad[0][0].loc() if bad else None)


def cache_state_cleared(ix, R, oid, sites=('taurex/cache/opacitycache.py::OpacityCache',
                                           'taurex/cache/ktablecache.py::KTableCache')):
    """Everything a cache keeps that was derived from a loader's discover() (whose results carry the
    interpolation / memory mode read from GlobalCache at scan time) is dropped by clear_cache(): the
    setters of those modes rely on clear_cache() to forget every object and listing built under the old mode."""
    import ast as _ast
    from sa.effects import attr_writes
    for site in sites:
        c = ix.cls(site)
        meths = {}
        for name, lst in c.methods.items():
            for g in lst:
                meths[name] = g

        def self_calls(g):
            out = set()
            for n in _ast.walk(g.node):
                if isinstance(n, _ast.Call) and isinstance(n.func, _ast.Attribute) and \
                        isinstance(n.func.value, _ast.Name) and n.func.value.id == 'self' and n.func.attr in meths:
                    out.add(n.func.attr)
            return out

        def closure(start):
            seen = set()
            todo = list(start)
            while todo:
                m = todo.pop()
                if m in seen:
                    continue
                seen.add(m)
                todo.extend(self_calls(meths[m]))
            return seen
        disc = [m for m, g in meths.items() if any(
            isinstance(n, _ast.Call) and isinstance(n.func, _ast.Attribute) and n.func.attr == 'discover'
            for n in _ast.walk(g.node))]
        derived = {}
        for m in closure(disc):
            if m in ('init', '__init__'):
                continue
            for a in attr_writes(meths[m]):
                derived.setdefault(a, set()).add(m)
        if 'clear_cache' not in meths:
            R.fail(oid, 'EFF', site, 'the cache has a clear_cache()', 'no clear_cache', 'no clear_cache method', c.loc()
                   if hasattr(c, 'loc') else None)
            continue
        cleared = set()
        for m in closure(['clear_cache']):
            cleared |= attr_writes(meths[m])
        missing = sorted(set(derived) - cleared)
        R.check(oid, 'EFF', site,
                'clear_cache() resets every attribute that methods on the discover() path fill (%s): nothing built '
                'under an earlier interpolation / memory mode survives a mode change' % ', '.join(sorted(derived)),
                bool(disc) and not missing,
                key='not cleared: %s' % missing if disc else 'no discover() caller found',
                detail='; '.join('%s is written by %s (which run or follow discover()) and not reset by clear_cache()'
                                 % (a, sorted(derived[a])) for a in missing) or 'no method calls discover()',
                loc=meths['clear_cache'].loc())


def loop_closures(ix, R, oid, relpaths, what):
    """A function defined inside a loop and handed out of the iteration (registered as a fitting-parameter getter /
    setter, stored, appended, returned) must not read a variable of the loop as a free variable: Python binds it when
    the closure is CALLED, so every closure would see the value of the LAST iteration.  The repository's idiom is a
    default argument (`def write_mol(self, value, idx=idx)`); this rule checks that every per-iteration variable a
    closure reads is bound that way."""
    import ast as _ast
    import builtins as _bi
    bad = []
    n = 0
    for rel in relpaths:
        for path in sorted(ix.modules):
            if not (path == rel or (rel.endswith('/') and path.startswith(rel))):
                continue
            for f in ix.functions_in(path):
                for loop in [x for x in _ast.walk(f.node) if isinstance(x, (_ast.For, _ast.While))]:
                    per_iter = {t.id for t in _ast.walk(loop.target) if isinstance(t, _ast.Name)} if isinstance(loop, _ast.For) else set()
                    for st in loop.body:
                        for x in _ast.walk(st):
                            if isinstance(x, (_ast.FunctionDef, _ast.Lambda)):
                                continue
                            if isinstance(x, _ast.Name) and isinstance(x.ctx, _ast.Store):
                                per_iter.add(x.id)
                    for g in [x for st in loop.body for x in _ast.walk(st) if isinstance(x, (_ast.FunctionDef, _ast.Lambda))]:
                        n += 1
                        a = g.args
                        params = {p.arg for p in a.args + a.kwonlyargs + a.posonlyargs}
                        if a.vararg:
                            params.add(a.vararg.arg)
                        if a.kwarg:
                            params.add(a.kwarg.arg)
                        body = g.body if isinstance(g.body, list) else [g.body]
                        local = {x.id for b_ in body for x in _ast.walk(b_) if isinstance(x, _ast.Name) and isinstance(x.ctx, _ast.Store)}
                        loads = {x.id for b_ in body for x in _ast.walk(b_) if isinstance(x, _ast.Name) and isinstance(x.ctx, _ast.Load)}
                        free = (loads - params - local) & per_iter
                        free -= {getattr(g, 'name', None)}
                        free = {v for v in free if not hasattr(_bi, v)}
                        if not free:
                            continue
                        # does the closure leave the iteration?  (used as a value: passed, stored, appended, returned)
                        nm = getattr(g, 'name', None)
                        escapes = isinstance(g, _ast.Lambda) and not _called_in_place(loop, g)
                        if nm:
                            alias = {nm}
                            for st in loop.body:
                                for x in _ast.walk(st):
                                    if isinstance(x, _ast.Assign) and isinstance(x.value, _ast.Name) and x.value.id in alias:
                                        alias |= {t.id for t in x.targets if isinstance(t, _ast.Name)}
                            for st in loop.body:
                                for x in _ast.walk(st):
                                    if isinstance(x, _ast.Call):
                                        for arg in list(x.args) + [k.value for k in x.keywords]:
                                            if isinstance(arg, _ast.Name) and arg.id in alias:
                                                escapes = True
                                    if isinstance(x, (_ast.Return, _ast.Yield)) and x.value is not None and any(
                                            isinstance(y, _ast.Name) and y.id in alias for y in _ast.walk(x.value)):
                                        escapes = True
                                    if isinstance(x, _ast.Assign) and any(not isinstance(t, _ast.Name) for t in x.targets) and any(
                                            isinstance(y, _ast.Name) and y.id in alias for y in _ast.walk(x.value)):
                                        escapes = True
                        if escapes:
                            bad.append((f, g, sorted(free)))
    R.check(oid, 'EFF', ', '.join(relpaths),
            'every function defined in a loop of %s and handed out of the iteration binds the per-iteration variables it '
            'reads as default arguments (no late-bound loop variable: all closures would see the last iteration) '
            '(%d closures in loops)' % (what, n),
            not bad, key='; '.join('%s.%s reads %s' % (f.qualname, getattr(g, 'name', '<lambda>'), fr) for f, g, fr in bad),
            detail='; '.join('%s (defined in a loop of %s) reads the loop variable(s) %s when it is called, not when it is '
                             'defined' % (getattr(g, 'name', '<lambda>'), f.qualname, fr) for f, g, fr in bad),
            loc=bad[0][0].loc(bad[0][1]) if bad else None)


def _called_in_place(loop, lam):
    import ast as _ast
    for x in _ast.walk(loop):
        if isinstance(x, _ast.Call) and x.func is lam:
            return True
    return False


def prepare_each_state(ix, R, oid):
    """model_full_contrib() calls prepare_each() directly and integrates after each yield, so whatever contribute()
    reads and the base prepare() would set (grid size, layer count) has to be set by prepare_each() too - otherwise the
    component is computed with the values of the previous evaluation (another grid)."""
    import ast
    base = ix.find_class('Contribution')
    pes = ix.implementations(base, 'prepare_each')
    # what contribute() reads besides sigma_xsec and that the base prepare() sets for it (grid size, layer count):
    # model_full_contrib() calls prepare_each() directly, so prepare_each() has to set it too
    bp = ix.lookup_method(base, 'prepare')
    base_sets = {t.attr for n_ in ast.walk(bp.node) if isinstance(n_, ast.Assign) for t in n_.targets
                 if isinstance(t, ast.Attribute) and isinstance(t.value, ast.Name) and t.value.id == 'self'}
    for f in pes:
        if f.cls is base:
            continue
        con = ix.lookup_method(f.cls, 'contribute')
        reads = {x.attr for x in ast.walk(con.node) if isinstance(x, ast.Attribute) and isinstance(x.ctx, ast.Load) and
                 isinstance(x.value, ast.Name) and x.value.id == 'self'}
        # arguments of logging calls do not count
        for n_ in ast.walk(con.node):
            if isinstance(n_, ast.Call) and isinstance(n_.func, ast.Attribute) and n_.func.attr in ('debug', 'info', 'warning', 'error'):
                loud = {x.attr for a_ in n_.args for x in ast.walk(a_) if isinstance(x, ast.Attribute)}
                other = {x.attr for m_ in ast.walk(con.node) if isinstance(m_, ast.Call) and m_ is not n_ and not (
                    isinstance(m_.func, ast.Attribute) and m_.func.attr in ('debug', 'info', 'warning', 'error'))
                    for a_ in list(m_.args) + [k.value for k in m_.keywords] for x in ast.walk(a_) if isinstance(x, ast.Attribute)}
                other |= {x.attr for m_ in ast.walk(con.node) if isinstance(m_, (ast.AugAssign, ast.Assign))
                          for x in ast.walk(m_) if isinstance(x, ast.Attribute)}
                reads = (reads - loud) | (reads & other)
        needed = sorted((reads & base_sets) - {'sigma_xsec'})
        ys_ = [n_ for n_ in ast.walk(f.node) if isinstance(n_, (ast.Yield, ast.YieldFrom))]
        first = min(n_.lineno for n_ in ys_) if ys_ else 10 ** 9
        sets = {t.attr for st_ in f.body() if isinstance(st_, ast.Assign) and st_.lineno < first for t in st_.targets
                if isinstance(t, ast.Attribute) and isinstance(t.value, ast.Name) and t.value.id == 'self'}
        missing = [a_ for a_ in needed if a_ not in sets]
        R.check(oid, 'DOM', f.site,
                'prepare_each() itself sets what %s.contribute() reads and prepare() would otherwise set (%s)' % (
                    con.cls.name if con.cls else '?', ', '.join(needed) or 'nothing'),
                not missing, key='not set: %s' % missing,
                detail='%s.contribute() reads self.%s, which only prepare() sets; model_full_contrib() calls prepare_each() '
                       'directly and then integrates, so the value of an earlier evaluation (another grid) is used' % (
                           con.cls.name if con.cls else '?', ', self.'.join(missing)), loc=f.loc())


def gas_lookup_path(ix, R, oid):
    """Every per-gas look-up (`get_gas_mix_profile`) reads the mixture through activeGasMixProfile / inactiveGasMixProfile -
    the two properties a mixin (MakeFreeMixin) or a subclass overrides to substitute / renormalise gases.  An
    implementation that indexes the raw `mixProfile` bypasses those overrides: absorption, CIA, Rayleigh and H- would weight
    a gas by an abundance that is not the one the model uses."""
    import ast
    base = ix.find_class('Chemistry')
    impls = ix.implementations(base, 'get_gas_mix_profile')
    n = 0
    for f in impls:
        n += 1
        reads = {x.attr for x in ast.walk(f.node) if isinstance(x, ast.Attribute) and isinstance(x.value, ast.Name) and
                 x.value.id == 'self' and isinstance(x.ctx, ast.Load)}
        raw = sorted(reads & {'mixProfile', '_mix_profile', 'mix_profile'})
        via = reads & {'activeGasMixProfile', 'inactiveGasMixProfile'}
        sup = any(isinstance(x, ast.Call) and isinstance(x.func, ast.Attribute) and x.func.attr == 'get_gas_mix_profile' and
                  isinstance(x.func.value, ast.Call) and getattr(x.func.value.func, 'id', '') == 'super' for x in ast.walk(f.node))
        R.check(oid, 'SIB', f.site,
                'get_gas_mix_profile reads the mixture through activeGasMixProfile / inactiveGasMixProfile (what mixins override)',
                not raw and (bool(via) or sup), key='reads self.%s' % (raw or sorted(reads))[:60],
                detail='%s reads self.%s directly: a chemistry enhanced with the makefree mixin (which overrides the active / '
                       'inactive profiles) is looked up in the un-substituted, un-renormalised profile' % (
                           f.qualname, ', self.'.join(raw) or '?'), loc=f.loc())
    if n < 1:
        R.error(oid, 'SIB', 'taurex/data/profiles/chemistry/', 'get_gas_mix_profile implementations are found', 'found none')
