"""Static-analysis engine for the TauREx3 property checks (see DESIGN.md).

Nothing in this package imports, executes or traces `taurex`; every verdict is
computed from the syntax trees of the files under $VERIF_REPO (default /repo).
"""
