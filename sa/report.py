"""Obligation bookkeeping, known findings, evidence and exit protocol."""
import contextlib
import json
import os
import time
import traceback

from .index import AnalysisError

VERIF = os.path.dirname(os.path.dirname(os.path.abspath(__file__)))

OK, VIOL, KNOWN, ERR, NOTE = 'OK', 'VIOLATION', 'KNOWN-FINDING', 'ANALYSIS-ERROR', 'NOTE'


def load_known():
    p = os.path.join(VERIF, 'known_findings.json')
    if not os.path.exists(p):
        return []
    with open(p) as fh:
        return json.load(fh)['findings']


class Obligation:
    def __init__(self, oid, rule, site, statement):
        self.oid = oid
        self.rule = rule
        self.site = site
        self.statement = statement
        self.status = None
        self.key = None
        self.detail = None
        self.loc = None
        self.extracted = None

    def as_dict(self):
        d = {'id': self.oid, 'rule': self.rule, 'site': self.site,
             'statement': self.statement, 'status': self.status}
        for k in ('key', 'detail', 'loc', 'extracted'):
            v = getattr(self, k)
            if v is not None:
                d[k] = v
        return d


class Report:
    def __init__(self, prop, tier='quick', quiet=False, only=None):
        self.prop = prop
        self.tier = tier
        self.quiet = quiet
        self.only = only
        self.obls = []
        self.notes = []
        self.known = [k for k in load_known() if k.get('property') == prop]
        self.t0 = time.time()
        self.info = {}
        self._cur = None

    # ------------------------------------------------------------------
    def _new(self, oid, rule, site, statement):
        o = Obligation('%s.%s' % (self.prop, oid), rule, site, statement)
        self.obls.append(o)
        return o

    def ok(self, oid, rule, site, statement, extracted=None, loc=None):
        o = self._new(oid, rule, site, statement)
        o.status = OK
        o.extracted = extracted
        o.loc = loc
        return o

    def fail(self, oid, rule, site, statement, key, detail, loc=None,
             extracted=None):
        """key: normalised description of the failing construct (no line
        numbers) used to match known findings."""
        o = self._new(oid, rule, site, statement)
        o.key = '%s|%s|%s|%s' % (o.oid, rule, site, key)
        o.detail = detail
        o.loc = loc
        o.extracted = extracted
        kn = [k for k in self.known if k.get('status') == 'known'
              and k.get('key') == o.key]
        o.status = KNOWN if kn else VIOL
        if o.status == VIOL:
            # the anchored function hands part of its work to a helper that is new to the reviewed tree and that
            # the engine could not follow (returns inside loops, *args ...): what was extracted is not the whole
            # construct, so this is "cannot decide", not a violation
            from .helpers import UNFOLLOWED
            un = UNFOLLOWED.get(site.split('{')[0])
            if un:
                o.status = ERR
                o.detail = 'calls %s, which could not be followed; extracted so far: %s' % (sorted(un), detail)
        if kn:
            o.known_title = kn[0].get('what', '')
        return o

    def error(self, oid, rule, site, statement, detail, loc=None):
        o = self._new(oid, rule, site, statement)
        o.status = ERR
        o.detail = detail
        o.loc = loc
        return o

    def check(self, oid, rule, site, statement, cond, key=None, detail=None,
              loc=None, extracted=None):
        if cond:
            return self.ok(oid, rule, site, statement, extracted, loc)
        return self.fail(oid, rule, site, statement, key or 'fails',
                         detail or 'rule does not hold', loc, extracted)

    def note(self, text):
        self.notes.append(text)

    @contextlib.contextmanager
    def guard(self, oid, rule, site, statement):
        """Run an extraction; an AnalysisError (or unexpected exception inside
        the extractor) becomes an ANALYSIS-ERROR obligation."""
        try:
            yield
        except AnalysisError as e:
            self.error(oid, rule, site, statement, str(e))
        except (KeyError, IndexError, AttributeError, TypeError, ValueError,
                ZeroDivisionError, AssertionError) as e:
            tb = traceback.extract_tb(e.__traceback__)[-1]
            self.error(oid, rule, site, statement,
                       'extractor failure %s: %s (%s:%s)' % (
                           type(e).__name__, e, os.path.basename(tb.filename),
                           tb.lineno))

    # ------------------------------------------------------------------
    def counts(self):
        c = {OK: 0, VIOL: 0, KNOWN: 0, ERR: 0}
        for o in self.obls:
            c[o.status] += 1
        return c

    def emit(self, floor, explanation, assumptions, not_decided, extra=None,
             seed=0, evidence=True):
        c = self.counts()
        out = []
        shown = [o for o in self.obls
                 if self.only is None or o.oid == self.only]
        for o in shown:
            line = '%-14s %-8s %-5s %s :: %s' % (o.status, o.oid, o.rule, o.site,
                                                o.statement)
            if o.status != OK:
                line += '\n    at %s\n    %s' % (o.loc or o.site, o.detail)
                if o.status in (VIOL, KNOWN):
                    line += '\n    key: %s' % o.key
            out.append(line)
        for n in self.notes:
            out.append('NOTE           ' + n)
        # floor
        nobl = len(self.obls)
        floor_ok = nobl >= floor
        if not floor_ok:
            out.append('%s %s: only %d obligations instantiated, floor is %d '
                       '(a rule matched fewer sites than confirmed by hand)'
                       % (ERR, self.prop, nobl, floor))
        # stale known findings (listed but not reproduced) are reported, not fatal
        live = {o.key for o in self.obls if o.status == KNOWN}
        for k in self.known:
            if k.get('status') == 'known' and k.get('key') not in live and \
                    self.only is None:
                out.append('NOTE           known finding no longer reproduced: '
                           + k.get('key', '?'))
        viols = [o for o in self.obls if o.status == VIOL]
        errs = [o for o in self.obls if o.status == ERR]
        replay_dir = os.path.join(VERIF, 'evidence', 'replay')
        for o in self.obls:
            if o.status == KNOWN:
                out.append('KNOWN-FINDING: property=%s %s [%s at %s]' % (
                    self.prop, getattr(o, 'known_title', '') or o.detail,
                    o.oid, o.loc or o.site))
        for i, o in enumerate(viols):
            os.makedirs(replay_dir, exist_ok=True)
            rp = os.path.join(replay_dir, '%s-%d.json' % (self.prop, i))
            with open(rp, 'w') as fh:
                json.dump({'property': self.prop, 'obligation': o.as_dict()},
                          fh, indent=1)
            out.append('VIOLATION property=%s replay=%s' % (self.prop, rp))
        wall = time.time() - self.t0
        status = 1 if viols else (2 if (errs or not floor_ok) else 0)
        summary = ('%s %s: %d obligations, %d discharged, %d known findings, '
                   '%d violations, %d analysis errors, floor %d, %.2fs' % (
                       self.prop, self.tier, nobl, c[OK], c[KNOWN], c[VIOL],
                       c[ERR], floor, wall))
        out.append(summary)
        if not self.quiet:
            print('\n'.join(out))
        if evidence:
            self.write_evidence(floor, explanation, assumptions, not_decided,
                                extra or {}, seed, wall)
        return status

    def write_evidence(self, floor, explanation, assumptions, not_decided,
                       extra, seed, wall):
        c = self.counts()
        distinct = len({(o.site, o.rule, o.oid) for o in self.obls
                        if o.status in (OK, KNOWN, VIOL)})
        samples = []
        for o in self.obls[:12]:
            samples.append(o.as_dict())
        for o in self.obls:
            if o.status != OK and o.as_dict() not in samples:
                samples.append(o.as_dict())
        cov = {
            'explanation': explanation,
            'obligations': len(self.obls),
            'discharged': c[OK],
            'known_findings': c[KNOWN],
            'violations': c[VIOL],
            'analysis_errors': c[ERR],
            'floor': floor,
            'evaluations': len(self.obls),
            'distinct_nontrivial': distinct,
            'rule': 'one obligation per (rule kind, site, clause); an '
                    'obligation is non-trivial when its extractor located the '
                    'anchored construct in the current tree; distinct = '
                    'distinct (site, rule, obligation id)',
            'samples': samples,
            'all_obligations': [
                '%s %s %s %s' % (o.status, o.oid, o.rule, o.site)
                for o in self.obls],
            'not_decided': not_decided,
            'exhaustive': True,
            'checker_cmd': '/venv/bin/python -m sa.run %s --tier %s' % (
                self.prop, self.tier),
            'trusted_base': ['CPython ast parser', 'sa/ engine (this repository)',
                             'rule tables in rules/%s.py' % self.prop],
        }
        cov.update(self.info)
        cov.update(extra)
        ev = {
            'property_id': self.prop,
            'tier': self.tier,
            'seed': seed,
            'level': 'other',
            'coverage': cov,
            'assumptions': assumptions,
            'wall_s': round(wall, 3),
            'violations': c[VIOL],
        }
        os.makedirs(os.path.join(VERIF, 'evidence'), exist_ok=True)
        with open(os.path.join(VERIF, 'evidence', '%s.json' % self.prop),
                  'w') as fh:
            json.dump(ev, fh, indent=1, sort_keys=False)
