"""Canonical attribute paths: trivial @property getters are inlined so that
`self.planet.fullRadius`, `self._planet.fullRadius`, `self._planet._radius`
are one atom (DESIGN 2.1)."""
from .index import AnalysisError

# attribute -> simple class name of the family base.  Confirmed by reading:
# these are the attributes through which a forward model / optimizer reaches its
# components.
FAMILY = {
    '_planet': 'BasePlanet',
    '_star': 'Star',
    '_temperature_profile': 'TemperatureProfile',
    '_chemistry': 'Chemistry',
    '_pressure_profile': 'PressureProfile',
    'pressure': 'PressureProfile',
    '_binner': 'Binner',
    '_observed': 'BaseSpectrum',
    '_model': 'ForwardModel',
    '_forward_model': 'ForwardModel',
}


def make_canon(index, cls, extra_family=None, local_types=None):
    """Returns canon(dotted) for code inside class `cls` (may be None).
    local_types: {local name: simple class name} for non-self roots
    (e.g. 'model' -> 'SimpleForwardModel')."""
    fam = dict(FAMILY)
    if extra_family:
        fam.update(extra_family)
    local_types = local_types or {}
    cache = {}

    def family_cls(name):
        try:
            return index.find_class(name)
        except AnalysisError:
            return None

    def canon(d):
        if d in cache:
            return cache[d]
        parts = d.split('.')
        root = parts[0]
        if root == 'self' and cls is not None:
            cur = cls
        elif root in local_types:
            cur = family_cls(local_types[root])
        else:
            cache[d] = d
            return d
        out = [root]
        todo = list(parts[1:])
        expanded = 0
        while todo:
            p = todo.pop(0)
            nxt = None
            if cur is not None and expanded < 6:
                # a property that only hands out an attribute of a component (`return self.pressure.profile`) is that path
                ch = index.getter_chain(cur, p)
                if ch is not None:
                    todo = ch + todo
                    expanded += 1
                    continue
            if cur is not None:
                seen = 0
                while seen < 4:  # follow chains of trivial getters
                    g = index.trivial_getter(cur, p)
                    if g is None or g == p:
                        break
                    p = g
                    seen += 1
                if p in fam:
                    nxt = family_cls(fam[p])
            out.append(p)
            cur = nxt
        r = '.'.join(out)
        cache[d] = r
        return r
    return canon
