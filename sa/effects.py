"""Effect helpers: attribute writes and memoisation patterns."""
import ast
from .algebra import dotted


def attr_writes(f, roots=('self', 'cls')):
    """{dotted attribute path} written by function f (assign, aug-assign, item store, del)."""
    out = set()
    for n in ast.walk(f.node):
        tg = []
        if isinstance(n, ast.Assign):
            tg = n.targets
        elif isinstance(n, (ast.AugAssign, ast.AnnAssign)):
            tg = [n.target]
        elif isinstance(n, ast.Delete):
            tg = n.targets
        for t in tg:
            for x in ([t] if not isinstance(t, (ast.Tuple, ast.List)) else t.elts):
                base = x
                while isinstance(base, ast.Subscript):
                    base = base.value
                d = dotted(base)
                if d and d.split('.')[0] in roots and '.' in d:
                    out.add(d)
    return out


def memo_attrs(f, roots=('self', 'cls')):
    """Attributes that the function both tests in a condition and assigns:
    the shape of a memo / cache / "same as last time" shortcut.  Returns
    {attr path: condition text}."""
    writes = attr_writes(f, roots)
    if f.cls is not None:
        writes |= {w.replace(f.cls.name + '.', 'cls.', 1) for w in attr_writes(f, (f.cls.name,))}
    # a container kept on the object through its __dict__ and used under a local name:
    #   recent = self.__dict__.setdefault('_recent', {}) ... recent[key] = value
    # is a write to self._recent
    derived = {}
    for n in ast.walk(f.node):
        if isinstance(n, ast.Assign) and len(n.targets) == 1 and isinstance(n.targets[0], ast.Name) and \
                isinstance(n.value, ast.Call) and isinstance(n.value.func, ast.Attribute) and \
                n.value.func.attr == 'setdefault' and n.value.args and isinstance(n.value.args[0], ast.Constant) and \
                isinstance(n.value.args[0].value, str):
            holder = n.value.func.value
            own = (isinstance(holder, ast.Attribute) and holder.attr == '__dict__' and isinstance(holder.value, ast.Name) and
                   holder.value.id in roots) or \
                  (isinstance(holder, ast.Call) and isinstance(holder.func, ast.Name) and holder.func.id == 'vars' and
                   len(holder.args) == 1 and isinstance(holder.args[0], ast.Name) and holder.args[0].id in roots)
            if own:
                local = n.targets[0].id
                path = '%s.%s' % (holder.value.id if isinstance(holder, ast.Attribute) else holder.args[0].id, n.value.args[0].value)
                filled = any(isinstance(x, ast.Subscript) and isinstance(x.ctx, ast.Store) and isinstance(x.value, ast.Name)
                             and x.value.id == local for x in ast.walk(f.node)) or \
                    any(isinstance(x, ast.Call) and isinstance(x.func, ast.Attribute) and isinstance(x.func.value, ast.Name)
                        and x.func.value.id == local and x.func.attr in ('update', 'setdefault', 'append', 'add')
                        for x in ast.walk(f.node))
                if filled:
                    writes = set(writes) | {path}
                    derived.setdefault(local, set()).add(path)
    # locals that carry (part of) such an attribute: `stored = self._memo.get(key)`, `a, b = stored`, ...
    changed = True
    while changed:
        changed = False
        for n in ast.walk(f.node):
            if not isinstance(n, ast.Assign):
                continue
            src = set()
            for x in ast.walk(n.value):
                d = dotted(x) if isinstance(x, ast.Attribute) else None
                if d is not None:
                    d2 = 'cls.' + d[len(f.cls.name) + 1:] if f.cls is not None and d.startswith(f.cls.name + '.') else d
                    for w in writes:
                        if d2 == w or d2.startswith(w + '.'):
                            src.add(w)
                if isinstance(x, ast.Name) and x.id in derived:
                    src |= derived[x.id]
            if not src:
                continue
            for t in n.targets:
                for x in ast.walk(t):
                    if isinstance(x, ast.Name) and isinstance(x.ctx, ast.Store):
                        if not src <= derived.get(x.id, set()):
                            derived.setdefault(x.id, set()).update(src)
                            changed = True
    out = {}
    for n in ast.walk(f.node):
        test = None
        if isinstance(n, (ast.If, ast.IfExp, ast.While)):
            test = n.test
        if isinstance(n, ast.If) and not n.orelse and n.body and isinstance(n.body[-1], ast.Raise) and \
                all(isinstance(st, ast.Raise) or (isinstance(st, ast.Expr) and isinstance(st.value, ast.Call))
                    for st in n.body):
            # `if <state is inconsistent>: [log]; raise` rejects the call: it reuses nothing
            test = None
        if test is None:
            continue
        for x in ast.walk(test):
            if isinstance(x, ast.Name) and x.id in derived:
                for w in derived[x.id]:
                    out.setdefault(w, ast.unparse(test)[:100])
            d = dotted(x) if isinstance(x, ast.Attribute) else None
            if d is None:
                continue
            d2 = d
            if f.cls is not None and d.startswith(f.cls.name + '.'):
                d2 = 'cls.' + d[len(f.cls.name) + 1:]
            for w in writes:
                if d2 == w or d2.startswith(w + '.') or w.startswith(d2 + '.'):
                    out[w] = ast.unparse(test)[:100]
    return out
