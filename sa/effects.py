"""Effect helpers: attribute writes and memoisation patterns."""
import ast
from .algebra import dotted


def attr_writes(f, roots=('self', 'cls')):
    """{dotted attribute path} written by function f (assign, aug-assign, item store, del)."""
    out = set()
    for n in ast.walk(f.node):
        tg = []
        if isinstance(n, ast.Assign):
            tg = n.targets
        elif isinstance(n, (ast.AugAssign, ast.AnnAssign)):
            tg = [n.target]
        elif isinstance(n, ast.Delete):
            tg = n.targets
        for t in tg:
            for x in ([t] if not isinstance(t, (ast.Tuple, ast.List)) else t.elts):
                base = x
                while isinstance(base, ast.Subscript):
                    base = base.value
                d = dotted(base)
                if d and d.split('.')[0] in roots and '.' in d:
                    out.add(d)
    return out


def memo_attrs(f, roots=('self', 'cls')):
    """Attributes that the function both tests in a condition and assigns:
    the shape of a memo / cache / "same as last time" shortcut.  Returns
    {attr path: condition text}."""
    writes = attr_writes(f, roots)
    if f.cls is not None:
        writes |= {w.replace(f.cls.name + '.', 'cls.', 1) for w in attr_writes(f, (f.cls.name,))}
    # locals that carry (part of) such an attribute: `stored = self._memo.get(key)`, `a, b = stored`, ...
    derived = {}
    changed = True
    while changed:
        changed = False
        for n in ast.walk(f.node):
            if not isinstance(n, ast.Assign):
                continue
            src = set()
            for x in ast.walk(n.value):
                d = dotted(x) if isinstance(x, ast.Attribute) else None
                if d is not None:
                    d2 = 'cls.' + d[len(f.cls.name) + 1:] if f.cls is not None and d.startswith(f.cls.name + '.') else d
                    for w in writes:
                        if d2 == w or d2.startswith(w + '.'):
                            src.add(w)
                if isinstance(x, ast.Name) and x.id in derived:
                    src |= derived[x.id]
            if not src:
                continue
            for t in n.targets:
                for x in ast.walk(t):
                    if isinstance(x, ast.Name) and isinstance(x.ctx, ast.Store):
                        if not src <= derived.get(x.id, set()):
                            derived.setdefault(x.id, set()).update(src)
                            changed = True
    out = {}
    for n in ast.walk(f.node):
        test = None
        if isinstance(n, (ast.If, ast.IfExp, ast.While)):
            test = n.test
        if test is None:
            continue
        for x in ast.walk(test):
            if isinstance(x, ast.Name) and x.id in derived:
                for w in derived[x.id]:
                    out.setdefault(w, ast.unparse(test)[:100])
            d = dotted(x) if isinstance(x, ast.Attribute) else None
            if d is None:
                continue
            d2 = d
            if f.cls is not None and d.startswith(f.cls.name + '.'):
                d2 = 'cls.' + d[len(f.cls.name) + 1:]
            for w in writes:
                if d2 == w or d2.startswith(w + '.') or w.startswith(d2 + '.'):
                    out[w] = ast.unparse(test)[:100]
    return out
