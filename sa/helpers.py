"""Shared helpers for the rule modules."""
import ast

from .algebra import Conv, Table, RF, Slice, dotted
from .canon import make_canon
from .flow import Flow
from .index import AnalysisError


from .consts import add_module_constants, _numeric_literal  # noqa: E402


def _all_params(f):
    a = f.node.args
    return {x.arg for x in a.posonlyargs + a.args + a.kwonlyargs + [y for y in (a.vararg, a.kwarg) if y is not None]}


def mkflow(ix, site, local_types=None, which=0, tab=None, env=None,
           extra_family=None, erase_broadcast=True, forward_attrs=False, scalars=(), keep_casts=False):
    f = ix.func(site, which) if isinstance(site, str) else site
    canon = make_canon(ix, f.cls, extra_family, local_types)
    conv = Conv(tab or Table(), env or {}, canon)
    if scalars:
        conv.tab.scalars = [Conv(conv.tab, {}, canon).parse(x) if isinstance(x, str) else x for x in scalars]
    conv.tab.ret_len = _ret_len(ix)
    conv.tab.records = _records(ix)
    conv.tab.signatures = _signatures(ix)
    fl = Flow(f, conv)
    fl.conv.erase_broadcast = erase_broadcast
    fl.conv.forward_attrs = forward_attrs
    fl.conv.keep_casts = keep_casts      # float(x) stays a conversion (rules about typing); else it is erased as numerically neutral
    fl.canon = canon
    fl.ix = ix
    fl.known = known_functions()
    # numeric module-level constants that are new to the reviewed tree stand for their value
    # (replacing a literal by a named constant changes nothing)
    if fl.known is not None:
        add_module_constants(fl.conv, f.module, fl.known, skip=_all_params(f))
    fl.run()
    if getattr(fl, 'unfollowed', None):
        UNFOLLOWED.setdefault(f.site, set()).update(fl.unfollowed)
    return fl


# site -> helpers (new to the reviewed tree) that the flow of that function could not follow
UNFOLLOWED = {}


_IX = []


def set_index(ix):
    del _IX[:]
    _IX.append(ix)


def new_helpers_of(f, depth=2):
    """functions that f calls (self.x(...) / x(...)) and that are new to the reviewed tree, transitively"""
    if not _IX or known_functions() is None:
        return []
    ix = _IX[0]
    known = known_functions()
    out, todo, seen = [], [(f, 0)], {id(f.node)}
    while todo:
        cur, d = todo.pop(0)
        for n in ast.walk(cur.node):
            if not isinstance(n, ast.Call):
                continue
            g = None
            dn = dotted(n.func)
            if dn is None:
                continue
            if '.' not in dn:
                r = ix.resolve_name(cur.module, dn)
                if hasattr(r, 'qualname') and hasattr(r, 'node') and not hasattr(r, 'methods'):
                    g = r
            elif dn.split('.')[0] in ('self', 'cls') and dn.count('.') == 1 and cur.cls is not None:
                g = ix.lookup_method(cur.cls, dn.split('.')[1])
            if g is None or g.site in known or id(g.node) in seen:
                continue
            seen.add(id(g.node))
            out.append(g)
            if d + 1 < depth:
                todo.append((g, d + 1))
    return out


_KNOWN = []


class _Known(frozenset):
    """the sites of the reviewed tree; a function that has only been MOVED to another module and is imported back
    under its name where it was (so the reviewed site still resolves to it) counts as the function it was"""
    def __contains__(self, site):
        if frozenset.__contains__(self, site):
            return True
        return isinstance(site, str) and site in _moved_sites(self)


_MOVED = {}


def _moved_sites(known):
    """{current site: reviewed site} for the functions / methods / closures whose reviewed module no longer defines
    them but still resolves their top-level name (import, re-export) to a definition elsewhere in the analysed tree"""
    if not _IX:
        return {}
    ix = _IX[0]
    key = id(ix)
    if key not in _MOVED:
        _MOVED.clear()
        out = {}
        for site in frozenset.__iter__(known):
            path, _, qual = site.partition('::')
            if qual.startswith('=') or path not in ix.modules:
                continue
            top = qual.split('.')[0]
            m = ix.modules[path]
            if top in m.classes or top in m.functions:
                continue
            r = ix.resolve_name(m, top)
            if r is not None and hasattr(r, 'module') and getattr(r, 'name', getattr(r, 'qualname', None)) is not None:
                rtop = getattr(r, 'qualname', None) if not hasattr(r, 'methods') else r.name
                if rtop is None:
                    continue
                out['%s::%s' % (r.module.relpath, '.'.join([rtop] + qual.split('.')[1:]))] = site
        _MOVED[key] = out
    return _MOVED[key]


def known_functions():
    """sites of the functions of the reviewed tree (rules/known_functions.json, written by tools/gen_known.py);
    a function that is not listed is new and is analysed at its call sites (sa/flow.py)"""
    if not _KNOWN:
        import json
        import os
        p = os.path.join(os.path.dirname(os.path.dirname(os.path.abspath(__file__))), 'rules', 'known_functions.json')
        _KNOWN.append(_Known(json.load(open(p))) if os.path.exists(p) else None)
    return _KNOWN[0]


def spec(fl, text, bind=None):
    """Parse a spec expression in the table of flow `fl`.  `bind` maps spec
    names to RF or to code-syntax strings (evaluated with the flow's canon but
    an empty environment)."""
    env = {}
    base = Conv(fl.tab, {}, getattr(fl, 'canon', None) or fl.conv.canon)
    base.keep_casts = getattr(fl.conv, 'keep_casts', False)
    for k, v in (bind or {}).items():
        env[k] = base.parse(v) if isinstance(v, str) else v
    c = Conv(fl.tab, env, base.canon)
    c.keep_casts = base.keep_casts = getattr(fl.conv, 'keep_casts', False)
    return c.parse(text)


def code(fl, text):
    """Code-syntax expression (canonicalised attribute paths), no locals."""
    return Conv(fl.tab, {}, getattr(fl, 'canon', None) or fl.conv.canon).parse(text)


def one(lst, what):
    if len(lst) != 1:
        raise AnalysisError('expected exactly one %s, found %d' % (what, len(lst)))
    return lst[0]


def calls(fl, name):
    """Call events whose callee's last name component is `name`."""
    return [e for e in fl.of('call') if e.name == name]


def bind_call(ev, params, drop_self=False):
    """Map a call event's actual arguments to the callee's parameter names."""
    ps = list(params)
    if drop_self and ps and ps[0] in ('self', 'cls'):
        ps = ps[1:]
    out = {}
    for i, a in enumerate(ev.args):
        if i >= len(ps):
            raise AnalysisError('call passes more positional arguments than '
                                'the callee has parameters')
        out[ps[i]] = a
    for k, v in ev.kw.items():
        out[k] = v
    return out


def param_env(fl, func, names):
    """Bind spec role names to the function's actual parameters by position
    (so a renamed parameter does not change the verdict)."""
    ps = func.params()
    if ps and ps[0] in ('self', 'cls'):
        ps = ps[1:]
    if len(ps) < len(names):
        raise AnalysisError('%s has %d parameters, spec names %d' % (
            func.site, len(ps), len(names)))
    return {n: fl.tab.name(p) for n, p in zip(names, ps) if n}


def range_loops(ev):
    return [l for l in ev.loops if l.kind == 'range']


def loop_matches(fl, lp, lo, hi, bind=None):
    """range loop lp runs over [lo, hi) with step 1 (spec strings)."""
    if lp.kind != 'range':
        return False
    a, b, s = lp.range_args
    return (fl.tab.equal(a, spec(fl, lo, bind)) and
            fl.tab.equal(b, spec(fl, hi, bind)) and
            s.const() == 1)


def fmt(fl, rf):
    return fl.tab.short(rf) if isinstance(rf, RF) else str(rf)


def is_name(fl, rf, name):
    a = rf.single_atom() if isinstance(rf, RF) else None
    return a is not None and fl.tab.atoms[a].head == 'name' and \
        fl.tab.atoms[a].args[0] == name


def atom_of(fl, rf):
    a = rf.single_atom() if isinstance(rf, RF) else None
    return fl.tab.atoms[a] if a is not None else None


def unparse(node):
    return ast.unparse(node) if node is not None else ''


def norm_text(node):
    """Normalised statement text (no line numbers, canonical spacing)."""
    return ast.unparse(node)


def stmts_of(func):
    """All statements in a function body (recursively), excluding nested defs."""
    out = []

    def walk(stmts):
        for s in stmts:
            out.append(s)
            for fld in ('body', 'orelse', 'finalbody'):
                sub = getattr(s, fld, None)
                if isinstance(sub, list) and not isinstance(
                        s, (ast.FunctionDef, ast.AsyncFunctionDef, ast.ClassDef)):
                    walk(sub)
            if isinstance(s, ast.Try):
                for h in s.handlers:
                    walk(h.body)
    walk(func.body())
    return out


def walk_no_nested(node):
    """ast.walk that does not descend into nested function/class definitions
    (the root itself may be a def)."""
    todo = list(ast.iter_child_nodes(node))
    while todo:
        n = todo.pop()
        yield n
        if isinstance(n, (ast.FunctionDef, ast.AsyncFunctionDef, ast.ClassDef,
                          ast.Lambda)):
            continue
        todo.extend(ast.iter_child_nodes(n))


def unalloc(fl, rf):
    """The allocation expression behind an alloc atom (or rf itself)."""
    at = atom_of(fl, rf)
    if at is not None and at.head == 'alloc':
        return at.args[0]
    return rf


def unalloc_deep(fl, rf):
    """rf with every buffer identity removed: the VALUE the expression has (a refilled buffer `x[...] = v` holds v)"""
    def f(a, at, nargs):
        if at.head == 'alloc' and nargs and isinstance(nargs[0], RF):
            return nargs[0]
        return None
    return fl.tab.rewrite(rf, f) if isinstance(rf, RF) else rf


def call_kw(at, name, pos=None):
    """Keyword (or positional #pos) argument of a call atom."""
    kwn = at.extra[1:]
    npos = len(at.args) - len(kwn)
    if name in kwn:
        return at.args[npos + kwn.index(name)]
    if pos is not None and pos < npos:
        return at.args[pos]
    return None


def inline_calls(ix, fl, rf, module_relpath, names, depth=3):
    """Replace calls of module-level functions `names` (resolved in
    module_relpath, following aliases/imports) by the callee's single return
    expression with parameters substituted.  One-level helpers only
    (DESIGN 2.3); depth bounds nesting."""
    from .index import FuncInfo
    m = ix.module(module_relpath)

    def f(a, at, nargs):
        if at.head != 'call' or not at.extra or not at.extra[0].startswith('fn:'):
            return None
        nm = at.extra[0][3:]
        if nm not in names:
            return None
        tgt = ix.resolve_name(m, nm)
        if not isinstance(tgt, FuncInfo):
            raise AnalysisError('helper %s does not resolve to a function' % nm)
        kwn = at.extra[1:]
        npos = len(nargs) - len(kwn)
        ps = tgt.params()
        env = {}
        for p, v in zip(ps, nargs[:npos]):
            env[p] = v
        for k, v in zip(kwn, nargs[npos:]):
            env[k] = v
        # defaults for missing params
        defs = tgt.node.args.defaults
        for p, d in zip(ps[len(ps) - len(defs):], defs):
            if p not in env:
                env[p] = Conv(fl.tab, {}, None).expr(d)
        sub = Flow(tgt, Conv(fl.tab, env, None))
        add_module_constants(sub.conv, tgt.module, known_functions())
        sub.run()
        rets = sub.of('return')
        if len(rets) != 1 or rets[0].value is None:
            raise AnalysisError('helper %s does not have a single return' % nm)
        val = rets[0].value
        if depth > 0:
            val = inline_calls(ix, fl, val, tgt.module.relpath, names, depth - 1)
        return val
    return fl.tab.rewrite(rf, f)


def dict_items(fl, rf):
    """{key text: value RF} of a dict-literal atom (keys are constants)."""
    at = atom_of(fl, rf)
    if at is None or at.head != 'dict':
        return None
    out = {}
    for k, v in zip(at.args[0::2], at.args[1::2]):
        ka = atom_of(fl, k)
        key = ka.args[0].strip("'\"") if ka is not None and ka.head == 'const' else fmt(fl, k)
        out[key] = v
    return out


def inline_local(ix, fl, rf, outer, names):
    """Replace calls of closures defined inside `outer` (callexpr atoms whose
    callee is localdef(name)) by the closure's single return expression."""
    from .index import FuncInfo
    import ast as _ast

    def f(a, at, nargs):
        if at.head != 'callexpr':
            return None
        ca = atom_of(fl, nargs[0])
        if ca is None or ca.head != 'localdef' or ca.args[0] not in names:
            return None
        node = None
        for n in _ast.walk(outer.node):
            if isinstance(n, _ast.FunctionDef) and n.name == ca.args[0] and n is not outer.node:
                node = n
        if node is None:
            raise AnalysisError('closure %s not found' % ca.args[0])
        g = FuncInfo(outer.module, outer.qualname + '.' + node.name, node, cls=outer.cls, parent=outer)
        # free variables of the closure read the enclosing function's definitions
        env = {k_: v_ for k_, v_ in fl.env.items() if isinstance(v_, RF)}
        env.update(dict(zip(g.params(), nargs[1:])))
        sub = Flow(g, Conv(fl.tab, env, getattr(fl, 'canon', None)))
        sub.run()
        r = sub.of('return')
        if len(r) != 1:
            raise AnalysisError('closure %s has %d returns' % (node.name, len(r)))
        return r[0].value
    return fl.tab.rewrite(rf, f)


def need(R, oid, rule, site, stmt, f, patterns, binding=None, loc=None, under=None):
    """Obligation: every structural pattern (metavariables V_*) occurs in
    function f with one consistent naming, and none of the matched statements
    sits under an `if` the pattern does not itself contain - unless the test
    matches one of the patterns in `under` (None: any enclosing condition is a
    deviation; '*': not checked).  Returns the binding or None."""
    from .pattern import find, parse_pattern, _match, EXTRA_DEFS
    nodes = []
    # module-level constants that are new to the reviewed tree stand for their value
    EXTRA_DEFS.clear()
    kn = known_functions()
    if kn is not None:
        for st in f.module.tree.body:
            if isinstance(st, ast.Assign) and len(st.targets) == 1 and isinstance(st.targets[0], ast.Name) and \
                    '%s::=%s' % (f.module.relpath, st.targets[0].id) not in kn:
                EXTRA_DEFS[st.targets[0].id] = st.value
    from .pattern import EXPR_HELPERS
    EXPR_HELPERS.clear()
    for g in new_helpers_of(f):
        body = g.body()
        ok_ = bool(body) and isinstance(body[-1], ast.Return) and body[-1].value is not None
        for st in body[:-1]:
            # only `if bad: ...; raise` checks and logging before the return
            if isinstance(st, ast.If) and not st.orelse and st.body and isinstance(st.body[-1], ast.Raise):
                continue
            if isinstance(st, ast.Expr) and isinstance(st.value, ast.Call):
                continue
            ok_ = False
        if ok_ and not g.node.args.vararg and not g.node.args.kwarg:
            ps_ = g.params()
            if ps_ and ps_[0] in ('self', 'cls') and g.cls is not None and 'staticmethod' not in g.decorators():
                ps_ = ps_[1:]
            EXPR_HELPERS[g.name] = (ps_, body[-1].value)
    b, missing = find(f.node, patterns, binding, nodes_out=nodes)
    if b is None:
        # the statements may have been moved into a helper that is new to the reviewed tree: look there
        for g in new_helpers_of(f):
            nodes = []
            b, missing2 = find(g.node, patterns, binding, nodes_out=nodes)
            if b is not None:
                f = g
                break
        if b is None and new_helpers_of(f):
            # part of the construct may sit in the helper and part in the caller: not something the pattern
            # matcher can follow, and not evidence that the construct is gone
            R.error(oid, rule, site, stmt,
                    '%s now calls %s (new to the reviewed tree); the expected statements are not found in one '
                    'function: %s' % (f.qualname, [g.qualname for g in new_helpers_of(f)], [m[:60] for m in missing]),
                    loc or f.loc())
            return None
    cond = []
    if b is not None and under != '*':
        parent = {}
        from .pattern import LAST_ROOT
        top = LAST_ROOT[0] if LAST_ROOT[0] is not None and not isinstance(LAST_ROOT[0], ast.Module) else f.node
        for p in ast.walk(top):
            for c in ast.iter_child_nodes(p):
                parent[c] = p
        allowed = [parse_pattern(u)[1] for u in (under or [])]
        from .pattern import _single_defs
        defs = _single_defs(f.node)
        for n in nodes:
            c = n
            while c in parent and c is not top:
                p = parent[c]
                tst = p.test if isinstance(p, (ast.If, ast.While)) else None
                if isinstance(tst, ast.Name) and tst.id in defs:
                    tst = defs[tst.id]                      # a condition hoisted into a temporary
                while isinstance(tst, ast.UnaryOp) and isinstance(tst.op, ast.Not):
                    tst = tst.operand                       # polarity is not part of the licence
                if isinstance(p, (ast.If, ast.While)) and c is not p.test and not any(
                        _match(a, tst, dict(b)) is not None for a in allowed):
                    neg = isinstance(p, ast.If) and c in p.orelse
                    cond.append('%s runs only if %s%s' % (ast.unparse(n).split('\n')[0][:50],
                                                         'not ' if neg else '', ast.unparse(p.test)[:60]))
                c = p
    ok = b is not None and not cond
    if b is None:
        # the statements were not found in the shape the pattern describes: a rewrite the matcher cannot follow and a
        # deleted step look the same from here, so this is "cannot decide" (exit 2), not a violation.  (On the 80
        # seeded regressions no report depended on this being a violation; on the benign corpus it was a false alarm.)
        R.error(oid, rule, site, stmt, 'no statement of the expected shape: %s' % missing, loc or f.loc())
        return None
    R.check(oid, rule, site, stmt, ok, key='; '.join(m[:80] for m in (missing or cond)),
            detail=('no statement of the expected shape: %s' % missing) if b is None else
            ('matched, but conditional: %s' % cond), loc=loc or f.loc())
    return b if ok else None


def conditions(fl, e, allow=()):
    """Texts of the conditions under which event `e` executes (enclosing ifs and
    earlier early exits alike), minus those algebraically equal to an RF in
    `allow` (with the same polarity).  An obligation that matches a statement
    implementing an unconditional formula uses this to say so: a matched
    statement that may be skipped is not the documented behaviour."""
    out = []
    for g in e.guards:
        ok = False
        for a in allow:
            pos = True
            if isinstance(a, tuple):
                a, pos = a
            if g.rf is not None and g.positive == pos and fl.tab.equal(g.rf, a):
                ok = True
        if not ok:
            out.append(g.text())
    return out


def must_be_unconditional(fl, e, why, what, allow=()):
    c = conditions(fl, e, allow)
    if c:
        why.append('%s is conditional on %s' % (what, ' and '.join(c)))
    return not c


def event_of(fl, node, kinds=('assign', 'aug', 'store', 'call', 'return')):
    for k in kinds:
        for e in fl.of(k):
            if e.node is node:
                return e
    return None


class MergedReturn:
    """All `return` statements of a function folded into one value: a decision
    list guard(c1, v1, guard(c2, v2, ... v_last)) over the conditions under
    which each is reached.  A function restructured from `x = a if c else b;
    return x` into two returns folds to the same expression; an added early
    exit (`if c: return cached`) shows up as an extra branch of the value."""
    kind = 'return'
    loops = ()
    guards = ()

    def __init__(self, value, last, n):
        self.value = value
        self.node = last.node
        self.value_ast = last.value_ast
        self.n = n


def the_return(fl, what='return', rets=None):
    rets = fl.of('return') if rets is None else list(rets)
    if not rets:
        raise AnalysisError('no %s' % what)
    if len(rets) == 1 and not [g for g in rets[0].guards if not g.early]:
        return rets[0]
    if any(r.loops for r in rets):
        raise AnalysisError('expected exactly one %s, found %d (some inside loops)' % (what, len(rets)))
    none = code(fl, 'None')
    val = None
    for r in reversed(rets):
        pcs = [g for g in r.guards if not g.early and g.rf is not None]
        v = r.value if r.value is not None else none
        if not pcs:
            val = v          # an unconditional return: anything after it is dead
            continue
        if val is None:
            val = none       # falling off the end
        for g in reversed(pcs):
            v = fl.tab.atom('guard', (g.rf, v, val) if g.positive else (g.rf, val, v))
        val = v
    return MergedReturn(val, rets[-1], len(rets))


def validated(g):
    """an early-exit condition whose other side raises: input validation, not a shortcut"""
    return g.early and g.exit == {'raise'}


def unlicensed(fl, e, allow=()):
    """Conditions on event e that an obligation has to account for: enclosing
    ifs and earlier `return` / `continue` / `break` exits (a shortcut that skips
    e).  Earlier exits that raise are validation and are left out, as are
    conditions algebraically equal to an RF (or (RF, polarity)) in `allow`."""
    out = []
    for g in e.guards:
        if validated(g):
            continue
        ok = False
        for a in allow:
            pos = None
            if isinstance(a, tuple):
                a, pos = a
            if g.rf is not None and (pos is None or g.positive == pos) and fl.tab.equal(g.rf, a):
                ok = True
        if not ok:
            out.append(g)
    return out


def same_cond(fl, a, b):
    """two conditions are the same test up to the normal form of conditions
    (not / is not / != / len(x) == 0 ...), including polarity"""
    ca, fa_ = fl.tab.canon_cond(a)
    cb, fb_ = fl.tab.canon_cond(b)
    return fa_ == fb_ and fl.tab.equal(ca, cb)


def guard_is(fl, g, cond, positive=True):
    """guard g means `cond` (positive) / `not cond`, whichever way the source spells it"""
    if g.rf is None:
        return False
    cg, fg = fl.tab.canon_cond(g.rf)
    cc, fc = fl.tab.canon_cond(cond)
    return fl.tab.equal(cg, cc) and ((g.positive != fg) == (positive != fc))


def split_exits(fl, exits):
    """Return events whose value is a selection guard(c, a, b) (a merged `a if c else b`, or the value of an inlined
    helper with several returns) are split into one pseudo-exit per arm, guarded by c / not c, so that rules that
    reason per exit see the same exits whether the dispatch is written as statements or hidden in a helper."""
    import copy
    from .flow import Guard
    out = []

    def rec(e, v, extra):
        a = fl.tab.atoms[v.single_atom()] if isinstance(v, RF) and v.single_atom() is not None else None
        if a is not None and a.head == 'guard' and isinstance(a.args[1], RF) and isinstance(a.args[2], RF):
            rec(e, a.args[1], extra + [Guard(None, True, a.args[0], e.node)])
            rec(e, a.args[2], extra + [Guard(None, False, a.args[0], e.node)])
            return
        if a is not None and a.head == 'const' and a.args == ('None',) and extra:
            return          # the fall-through arm of a helper whose other paths raise
        x = copy.copy(e)
        x.value = v
        x.guards = tuple(e.guards) + tuple(extra)
        for g in extra:
            g.test = None
        x.split_from = e
        out.append(x)
    for e in exits:
        if e.kind == 'return' and isinstance(e.value, RF):
            rec(e, e.value, [])
        else:
            out.append(e)
    return out


def dict_facts(fl):
    """{key: [(value RF, event, container RF or None)]} for every entry a function gives a dictionary, whether by
    `d['k'] = v` (container = the subscripted base) or in a literal `{'k': v}` (container = the literal), so a rule
    can ask "what is stored under 'k'" without caring how the dictionary is put together."""
    tab = fl.tab
    out = {}
    seen = set()

    def from_dict_atom(rf, e):
        for a in rf.all_atoms():
            at = tab.atoms[a]
            if at.head != 'dict' or a in seen:
                continue
            seen.add(a)
            for k, v in zip(at.args[0::2], at.args[1::2]):
                ka = tab.atoms[k.single_atom()] if isinstance(k, RF) and k.single_atom() is not None else None
                if ka is not None and ka.head == 'const' and isinstance(v, RF):
                    key = ka.args[0]
                    if key[:1] in '\'"':
                        key = key[1:-1]
                    out.setdefault(key, []).append((v, e, RF(tab, __import__('sa.algebra', fromlist=['p_atom']).p_atom(a))))
    for e in fl.events:
        if e.kind == 'store':
            ta = atom_of(fl, e.target)
            if ta is not None and ta.head == 'idx' and len(ta.args) == 2 and isinstance(ta.args[1], RF):
                ka = atom_of(fl, ta.args[1])
                if ka is not None and ka.head == 'const':
                    key = ka.args[0]
                    if key[:1] in '\'"':
                        key = key[1:-1]
                    out.setdefault(key, []).append((e.value, e, ta.args[0]))
        for k in ('value',):
            v = getattr(e, k, None)
            if isinstance(v, RF) and e.kind in ('assign', 'store', 'return', 'yield', 'exprstmt'):
                from_dict_atom(v, e)
        if e.kind == 'call':
            for v in list(e.args) + list(e.kw.values()):
                if isinstance(v, RF):
                    from_dict_atom(v, e)
    return out


def merged_store(fl, stores):
    """the value an attribute holds after the given store events (in program order), as one guarded value:
    `if c: x = a  else: x = b` and `x = a if c else b` fold to the same guard(c, a, b); a later store overrides an
    earlier one where its conditions hold.  Where no store is reached the value is the constant UNSET."""
    if not stores:
        raise AnalysisError('no store')
    if any(e.loops for e in stores):
        raise AnalysisError('a store inside a loop')
    val = fl.tab.atom('const', ('UNSET',))
    for e in stores:
        if e.value is None:
            raise AnalysisError('a store without a value')
        v = e.value
        for g in reversed([g for g in e.guards if not g.early]):
            if g.rf is None:
                raise AnalysisError('a store under a condition the analysis does not follow')
            v = fl.tab.atom('guard', (g.rf, v, val) if g.positive else (g.rf, val, v))
        early = [g for g in e.guards if g.early]
        if early:
            raise AnalysisError('a store after a conditional exit')
        val = v
    return val


def pos_args(fl, e):
    """positional arguments of call event `e` with the keyword arguments that continue them folded in (the callee's
    parameter names are those of every definition of that name in the analysed tree, see _signatures); returns
    (args, remaining keywords)"""
    args = list(e.args)
    kd = dict(e.kw or {})
    sig = getattr(fl.tab, 'signatures', None)
    sg = sig(e.name, getattr(e, 'recv', None) is not None) if sig is not None and e.name else None
    if sg is not None:
        while len(args) < len(sg) and sg[len(args)] in kd:
            args.append(kd.pop(sg[len(args)]))
    return args, kd


def call_atom(fl, name, args, kw):
    """the atom Conv.call builds for name(*args, **kw): keyword arguments that continue the positional ones of a function
    of the analysed tree are positional (see Conv.call)"""
    args = list(args)
    kd = dict(kw)
    sg = fl.tab.signatures(name) if getattr(fl.tab, 'signatures', None) is not None else None
    if sg is not None:
        while len(args) < len(sg) and sg[len(args)] in kd:
            args.append(kd.pop(sg[len(args)]))
    ks = sorted(kd)
    return fl.tab.atom('call', tuple(args + [kd[k] for k in ks]), extra=('fn:' + name,) + tuple(ks))


def implied_by_loop(fl, e, g):
    """guard g of event e only says what the enclosing `for i in range(N)` already says (the body runs when 0 < N):
    `if N == 0: return` before the loop, `if N > 0:` around it"""
    if g.rf is None:
        return False
    for lp in e.loops:
        if getattr(lp, 'kind', None) == 'range' and lp.range_args and lp.range_args[0].const() == 0:
            n_ = lp.range_args[1]
            if guard_is(fl, g, spec(fl, 'n == 0', {'n': n_}), False) or guard_is(fl, g, spec(fl, '0 < n', {'n': n_}), True) or \
                    guard_is(fl, g, spec(fl, 'n < 1', {'n': n_}), False):
                return True
    return False


def unmut(fl, rf):
    """the container behind a `mutated(...)` marker (a list that was appended to in a helper and handed back)"""
    a = atom_of(fl, rf)
    while a is not None and a.head == 'mutated' and isinstance(a.args[0], RF):
        rf = a.args[0]
        a = atom_of(fl, rf)
    return rf


def resolve_guards(fl, rf, decide):
    """rf with every selection guard(c, a, b) whose condition `decide(c)` settles (True / False; None: unknown)
    replaced by the selected arm, bottom-up.  Conditions reach `decide` in canonical polarity (see Table.canon_cond).
    Rules use this to ask "what does this value come to for inputs of kind K": the case analysis is then independent
    of how the branches are nested or in which order the tests are written."""
    def f(a, at, nargs):
        if at.head == 'guard' and len(nargs) == 3 and isinstance(nargs[0], RF):
            d = decide(nargs[0])
            if d is True:
                return nargs[1]
            if d is False:
                return nargs[2]
        return None
    return fl.tab.rewrite(rf, f)


def has_guard(rf):
    return isinstance(rf, RF) and rf.mentions(lambda a: a.head == 'guard')


_RET_LEN = {}


_SIGS = {}


def _signatures(ix):
    """(name, is_method_call) -> parameter names (without self / cls) when every module-level function (for a bare
    call) or every method (for a call on a receiver) of that name in the analysed tree declares exactly the same
    positional parameters and none takes *args / **kwargs / keyword-only parameters"""
    key = id(ix)
    if key not in _SIGS:
        seen = {False: {}, True: {}}
        for m in ix.modules.values():
            for name, f in m.functions.items():
                seen[False].setdefault(name, []).append((f, False))
            for c in m.classes.values():
                for name, lst in c.methods.items():
                    for f in lst:
                        seen[True].setdefault(name, []).append((f, 'staticmethod' not in f.decorators()))
        tables = {}
        for kind, names in seen.items():
            table = {}
            for name, fs in names.items():
                if (kind and name in _LIBRARY_METHODS) or name.startswith('__'):
                    continue
                sigs = set()
                for f, bound in fs:
                    a = f.node.args
                    if a.vararg or a.kwarg or a.kwonlyargs or a.posonlyargs:
                        sigs.add(None)
                        continue
                    ps = [x.arg for x in a.args]
                    sigs.add(tuple(ps[1:] if bound and ps else ps))
                if len(sigs) == 1 and None not in sigs:
                    table[name] = list(sigs.pop())
            tables[kind] = table
        _SIGS.clear()
        _SIGS[key] = tables
    return lambda name, method=False: _SIGS[key][bool(method)].get(
        name.rsplit('.', 1)[-1] if isinstance(name, str) else name)


_RECORDS = {}


def _records(ix):
    """class name -> field names, for the NamedTuple classes of the analysed tree whose name is unique in it"""
    key = id(ix)
    if key not in _RECORDS:
        import warnings
        table, seen = {}, {}
        for m in ix.modules.values():
            for c in m.classes.values():
                seen[c.name] = seen.get(c.name, 0) + 1
        for m in ix.modules.values():
            if 'NamedTuple' not in m.source:
                continue
            with warnings.catch_warnings():
                warnings.simplefilter('ignore')
                tree = ast.parse(m.source)
            for n in ast.walk(tree):
                if isinstance(n, ast.ClassDef) and seen.get(n.name) == 1 and \
                        any((isinstance(b, ast.Name) and b.id == 'NamedTuple') or
                            (isinstance(b, ast.Attribute) and b.attr == 'NamedTuple') for b in n.bases):
                    table[n.name] = [st.target.id for st in n.body if isinstance(st, ast.AnnAssign) and isinstance(st.target, ast.Name)]
        _RECORDS.clear()
        _RECORDS[key] = table
    return lambda name: _RECORDS[key].get(name.rsplit('.', 1)[-1] if isinstance(name, str) else name)


# names that a call `x.name(...)` may equally resolve to on a library object (dict, list, str, ndarray ...): the
# definitions in the analysed tree say nothing about those
_LIBRARY_METHODS = set(dir(dict)) | set(dir(list)) | set(dir(str)) | set(dir(tuple)) | set(dir(set)) | set(dir(bytes)) | {
    'min', 'max', 'sum', 'mean', 'std', 'var', 'prod', 'sort', 'argsort', 'reshape', 'astype', 'take', 'dot', 'flatten',
    'ravel', 'transpose', 'any', 'all', 'cumsum', 'cumprod', 'clip', 'fill', 'nonzero', 'searchsorted', 'squeeze',
    'tolist', 'item', 'round', 'argmin', 'argmax', 'repeat', 'swapaxes', 'view', 'resize', 'partition', 'argpartition',
    'read', 'readline', 'readlines', 'write', 'load', 'loads', 'dump', 'dumps', 'open', 'close', 'run', 'sample'}


def _ret_len(ix):
    """fn-name -> n when every function or method of that name in the analysed tree returns, at every return, a tuple
    literal of n items (so `f(x)[-1]` is `f(x)[n-1]` and `g(*f(x))` is `g(f(x)[0], ..., f(x)[n-1])` whichever
    definition the call reaches)"""
    key = id(ix)
    if key not in _RET_LEN:
        table = {}
        seen = {}
        for m in ix.modules.values():
            for name, f in m.functions.items():
                seen.setdefault(name, []).append(f)
            for c in m.classes.values():
                for name, lst in c.methods.items():
                    seen.setdefault(name, []).extend(lst)
        for name, fs in seen.items():
            lens = set()
            for f_ in fs:
                rets = [n for n in ast.walk(f_.node) if isinstance(n, ast.Return)]
                nested = {id(r) for d in ast.walk(f_.node) if isinstance(d, (ast.FunctionDef, ast.Lambda)) and d is not f_.node
                          for r in ast.walk(d) if isinstance(r, ast.Return)}
                rets = [r for r in rets if id(r) not in nested]
                if not rets and any(isinstance(x, ast.Raise) for x in ast.walk(f_.node)):
                    continue        # an abstract placeholder (raise NotImplementedError)
                if not rets:
                    lens.add(None)
                lens |= {len(r.value.elts) if isinstance(r.value, ast.Tuple) and not any(isinstance(e, ast.Starred) for e in r.value.elts)
                         else None for r in rets}
            if len(lens) == 1 and None not in lens and name not in _LIBRARY_METHODS:
                table['fn:' + name] = lens.pop()
        _RET_LEN.clear()
        _RET_LEN[key] = table
    return lambda fn: _RET_LEN[key].get('fn:' + fn[3:].rsplit('.', 1)[-1] if isinstance(fn, str) and fn.startswith('fn:') else fn)


def holds_at(fl, e, cond):
    """`cond` is known to hold where event e runs: an enclosing test (either polarity spelling), or a validation whose
    failing side raises (`if not cond: raise` before e, or e on the else side of it)"""
    if any(g.rf is not None and guard_is(fl, g, cond, True) for g in e.guards):
        return True
    # (a validation entry, like a guard, records what HOLDS at the event)
    return any(v.rf is not None and guard_is(fl, v, cond, True) for v in getattr(e, 'validated', ()) or ())
