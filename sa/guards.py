"""Guard-region analysis (DESIGN 2.6): exhaustive enumeration over a handful of
boolean atoms; for every assignment, which exits of a function can be reached.
Three-valued: comparisons that are not among the designated atoms are unknown
(an opaque dispatch whose every arm inherits the reaching set)."""
import itertools

from .algebra import RF

T, F, U = True, False, None


def tv_not(a):
    return U if a is U else (not a)


def tv_and(vals):
    if any(v is F for v in vals):
        return F
    if any(v is U for v in vals):
        return U
    return T


def tv_or(vals):
    if any(v is T for v in vals):
        return T
    if any(v is U for v in vals):
        return U
    return F


class Regions:
    def __init__(self, tab, atoms):
        """atoms: {label: RF condition}; a condition RF equal to one of these
        evaluates to the assignment's value for that label."""
        self.tab = tab
        self.atoms = atoms

    def classify(self, rf):
        for k, v in self.atoms.items():
            if self.tab.equal(rf, v):
                return k
        return None

    def value(self, rf, asg):
        """rf with the selections at its top settled by the assignment: guard(c, a, b) is a or b when c evaluates"""
        while isinstance(rf, RF):
            a = rf.single_atom()
            if a is None or self.tab.atoms[a].head != 'guard' or len(self.tab.atoms[a].args) != 3:
                return rf
            at = self.tab.atoms[a]
            c = self.ev(at.args[0], asg)
            if c is T:
                rf = at.args[1]
            elif c is F:
                rf = at.args[2]
            else:
                return rf
        return rf

    def _is_none(self, rf):
        """True / False when rf is the literal None / a literal that is not None, else U"""
        if not isinstance(rf, RF):
            return U
        if rf.const() is not None:
            return F
        a = rf.single_atom()
        if a is not None and self.tab.atoms[a].head == 'const':
            return T if self.tab.atoms[a].args[0] == 'None' else F
        return U

    def ev(self, rf, asg):
        if not isinstance(rf, RF):
            return U
        k = self.classify(rf)
        if k is not None:
            return asg[k]
        rf = self.value(rf, asg)
        a = rf.single_atom()
        if a is None:
            c = rf.const()
            if c is not None:
                return bool(c)
            return U
        at = self.tab.atoms[a]
        if at.head == 'bool':
            vals = [self.ev(x, asg) for x in at.args]
            return tv_and(vals) if at.extra == 'And' else tv_or(vals)
        if at.head == 'unop' and at.extra == 'Not':
            return tv_not(self.ev(at.args[0], asg))
        if at.head == 'const':
            return {'True': T, 'False': F, 'None': F}.get(at.args[0], U)
        if at.head == 'cmp' and at.extra and len(at.extra) == 1 and at.extra[0] in ('Is', 'IsNot') and len(at.args) == 2:
            # `x is None` / `x is not None` where x is settled by the assignment
            for x, y in ((at.args[0], at.args[1]), (at.args[1], at.args[0])):
                if self._is_none(y) is T:
                    v = self._is_none(self.value(x, asg))
                    if v is U:
                        return U
                    return v if at.extra[0] == 'Is' else tv_not(v)
        return U

    def guard_value(self, guards, asg):
        vals = []
        for g in guards:
            v = self.ev(g.rf, asg)
            vals.append(v if g.positive else tv_not(v))
        return tv_and(vals)

    def reach(self, exits, feasible=None):
        """exits: events (return/raise) in program order.  Returns
        {assignment(frozenset of true labels): [exits possibly reached]}."""
        labels = sorted(self.atoms)
        out = {}
        for bits in itertools.product([False, True], repeat=len(labels)):
            asg = dict(zip(labels, bits))
            if feasible is not None and not feasible(asg):
                continue
            hit = []
            for e in exits:
                v = self.guard_value(e.guards, asg)
                if v is F:
                    continue
                hit.append(e)
                if v is T:
                    break
            out[frozenset(k for k, b in asg.items() if b)] = hit
        return out
