"""Structural patterns with metavariables over the syntax tree.

A pattern is Python source in which identifiers starting with `V_` are
metavariables: each binds to one expression (compared by normalised text) and
must bind consistently across all patterns of one query.  Matching is on AST
shape, so renaming locals, reformatting or re-ordering independent statements
does not change the verdict.  `...` (Ellipsis statement) in a block matches any
number of statements."""
import ast
import itertools


def _is_meta(n):
    return isinstance(n, ast.Name) and n.id.startswith('V_')


def _match(p, n, b):
    """match pattern node p against node n extending binding b (dict); returns
    new binding or None"""
    if _is_meta(p):
        if not isinstance(n, ast.expr):
            return None
        t = ast.unparse(n)
        if p.id in b:
            return b if b[p.id] == t else None
        nb = dict(b)
        nb[p.id] = t
        return nb
    if isinstance(p, ast.arg) and p.arg.startswith('V_'):
        if not isinstance(n, ast.arg):
            return None
        if p.arg in b:
            return b if b[p.arg] == n.arg else None
        nb = dict(b)
        nb[p.arg] = n.arg
        return nb
    if type(p) is not type(n):
        return None
    for fld, pv in ast.iter_fields(p):
        if fld in ('ctx', 'lineno', 'col_offset', 'end_lineno', 'end_col_offset', 'type_comment', 'kind'):
            continue
        nv = getattr(n, fld, None)
        if isinstance(pv, list):
            if not isinstance(nv, list):
                return None
            b = _match_list(pv, nv, b)
            if b is None:
                return None
        elif isinstance(pv, ast.AST):
            if not isinstance(nv, ast.AST):
                return None
            b = _match(pv, nv, b)
            if b is None:
                return None
        else:
            if isinstance(pv, str) and pv.startswith('V_') and isinstance(nv, str):
                if pv in b:
                    if b[pv] != nv:
                        return None
                else:
                    b = dict(b)
                    b[pv] = nv
            elif pv != nv:
                return None
    return b


def _is_dots(s):
    return isinstance(s, ast.Expr) and isinstance(s.value, ast.Constant) and s.value.value is Ellipsis


def _match_list(ps, ns, b):
    """statement / element lists; an Ellipsis statement matches any run"""
    if any(_is_dots(p) for p in ps if isinstance(p, ast.stmt)):
        # subsequence match
        def rec(i, j, bb):
            if i == len(ps):
                return bb
            if _is_dots(ps[i]):
                return rec(i + 1, j, bb)
            for k in range(j, len(ns)):
                nb = _match(ps[i], ns[k], bb)
                if nb is not None:
                    r = rec(i + 1, k + 1, nb)
                    if r is not None:
                        return r
            return None
        return rec(0, 0, b)
    if len(ps) != len(ns):
        return None
    for p, n in zip(ps, ns):
        b = _match(p, n, b)
        if b is None:
            return None
    return b


def _candidates(root, want_stmt):
    for n in ast.walk(root):
        if want_stmt and isinstance(n, ast.stmt):
            yield n
        if not want_stmt and isinstance(n, ast.expr):
            yield n


def parse_pattern(text):
    t = ast.parse(text.strip('\n'))
    if len(t.body) == 1 and isinstance(t.body[0], ast.Expr) and not _is_dots(t.body[0]):
        return ('expr', t.body[0].value)
    if len(t.body) == 1:
        return ('stmt', t.body[0])
    return ('block', t.body)


def find(root, patterns, binding=None, nodes_out=None):
    """All patterns must match somewhere under `root` with one consistent
    binding.  Returns (binding, missing): binding dict if all matched (missing
    empty), else the best partial binding and the list of unmatched patterns."""
    pats = [(p, parse_pattern(p)) for p in patterns]

    matched = []

    def rec(i, b):
        if i == len(pats):
            return b
        src, (kind, pn) = pats[i]
        if kind == 'block':
            # consecutive statements somewhere in a body
            for n in ast.walk(root):
                for fld in ('body', 'orelse', 'finalbody'):
                    body = getattr(n, fld, None)
                    if isinstance(body, list) and body and isinstance(body[0], ast.stmt):
                        for k in range(len(body) - len(pn) + 1):
                            nb = _match_list(pn, body[k:k + len(pn)], b)
                            if nb is not None:
                                matched.append(body[k])
                                r = rec(i + 1, nb)
                                if r is not None:
                                    return r
                                matched.pop()
            return None
        for n in _candidates(root, kind == 'stmt'):
            nb = _match(pn, n, b)
            if nb is not None:
                matched.append(n)
                r = rec(i + 1, nb)
                if r is not None:
                    return r
                matched.pop()
        return None
    full = rec(0, dict(binding or {}))
    if full is not None and nodes_out is not None:
        nodes_out.extend(matched)
    if full is not None:
        return full, []
    # diagnose: which single patterns match at all
    missing = []
    for src, (kind, pn) in pats:
        ok = rec_single(root, kind, pn)
        if not ok:
            missing.append(src.strip())
    if not missing:
        missing = ['(each pattern matches alone, but not with one consistent naming)']
    return None, missing


def rec_single(root, kind, pn):
    if kind == 'block':
        for n in ast.walk(root):
            for fld in ('body', 'orelse', 'finalbody'):
                body = getattr(n, fld, None)
                if isinstance(body, list) and body and isinstance(body[0], ast.stmt):
                    for k in range(len(body) - len(pn) + 1):
                        if _match_list(pn, body[k:k + len(pn)], {}) is not None:
                            return True
        return False
    for n in _candidates(root, kind == 'stmt'):
        if _match(pn, n, {}) is not None:
            return True
    return False
