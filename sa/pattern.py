"""Structural patterns with metavariables over the syntax tree.

A pattern is Python source in which identifiers starting with `V_` are
metavariables: each binds to one expression (compared by normalised text) and
must bind consistently across all patterns of one query.  Matching is on AST
shape, so renaming locals, reformatting or re-ordering independent statements
does not change the verdict.  `...` (Ellipsis statement) in a block matches any
number of statements."""
import ast
import itertools


_DEFS = {}      # name -> defining expression, for locals assigned exactly once in the searched function


def _is_meta(n):
    return isinstance(n, ast.Name) and n.id.startswith('V_')


_FLIP = {ast.Gt: ast.Lt, ast.GtE: ast.LtE}


def _canon_compare(n):
    """a > b is matched as b < a"""
    if isinstance(n, ast.Compare) and len(n.ops) == 1 and type(n.ops[0]) in _FLIP:
        return ast.Compare(left=n.comparators[0], ops=[_FLIP[type(n.ops[0])]()], comparators=[n.left])
    return n


_DEPTH = [0]
EXTRA_DEFS = {}
EXPR_HELPERS = {}   # name -> (parameter names, returned expression) of new helpers that only validate and return


def _single_defs(root):
    cnt = {}
    val = {}
    for n in ast.walk(root):
        if isinstance(n, ast.Name) and isinstance(n.ctx, ast.Store):
            cnt[n.id] = cnt.get(n.id, 0) + 1
        if isinstance(n, ast.Assign) and len(n.targets) == 1 and isinstance(n.targets[0], ast.Name):
            val[n.targets[0].id] = n.value
    return {k: v for k, v in val.items() if cnt.get(k) == 1}


def _match(p, n, b):
    """match pattern node p against node n extending binding b (dict); returns
    new binding or None"""
    if _is_meta(p):
        if not isinstance(n, ast.expr):
            return None
        t = ast.unparse(n)
        if p.id in b:
            return b if b[p.id] == t else None
        nb = dict(b)
        nb[p.id] = t
        return nb
    if isinstance(p, ast.arg) and p.arg.startswith('V_'):
        if not isinstance(n, ast.arg):
            return None
        if p.arg in b:
            return b if b[p.arg] == n.arg else None
        nb = dict(b)
        nb[p.arg] = n.arg
        return nb
    p = _canon_compare(p)
    n = _canon_compare(n)
    # arithmetic on number literals stands for its value: 10000 * 1e-06 is 0.01
    if isinstance(p, ast.expr) and isinstance(n, ast.expr) and not (isinstance(p, ast.Constant) and isinstance(n, ast.Constant)):
        pv_, nv_ = _const_value(p), _const_value(n)
        if pv_ is not None and nv_ is not None:
            return b if pv_ == nv_ or (pv_ != 0 and abs(pv_ - nv_) <= 1e-15 * abs(pv_)) else None
    if isinstance(p, ast.If) and isinstance(n, ast.If):
        # a condition hoisted into a single-assignment local, and `if not c: B else: A` for `if c: A else: B`
        test, body, orelse = n.test, n.body, n.orelse
        if isinstance(test, ast.Name) and not _is_meta(p.test) and not isinstance(p.test, ast.Name) and test.id in _DEFS:
            test = _DEFS[test.id]
        alts = [(test, body, orelse)]
        if isinstance(test, ast.UnaryOp) and isinstance(test.op, ast.Not):
            alts.append((test.operand, orelse, body))
        if isinstance(p.test, ast.UnaryOp) and isinstance(p.test.op, ast.Not) and orelse:
            alts.append((ast.UnaryOp(op=ast.Not(), operand=test), orelse, body))
        for t_, b_, o_ in alts:
            nb = _match(p.test, t_, b)
            if nb is None:
                continue
            for nb1 in _iter_list(p.body, b_, nb):
                if not p.orelse:
                    return nb1
                for nb2 in _iter_list(p.orelse, o_, nb1):
                    return nb2
        return None
    if isinstance(p, ast.BinOp) and isinstance(n, ast.BinOp) and type(p.op) is type(n.op) and isinstance(p.op, ast.Mult):
        # a * b also matches b * a
        for l_, r_ in ((n.left, n.right), (n.right, n.left)):
            nb = _match(p.left, l_, b)
            if nb is not None:
                nb = _match(p.right, r_, nb)
                if nb is not None:
                    return nb
        return None
    if isinstance(p, ast.Raise) and isinstance(n, ast.Raise) and isinstance(p.exc, ast.Name) and \
            isinstance(n.exc, ast.Call) and p.cause is None:
        # `raise KeyError` also matches `raise KeyError('message')`
        return _match(p.exc, n.exc.func, b)
    if isinstance(n, ast.Name) and isinstance(n.ctx, ast.Load) and not isinstance(p, ast.Name) and \
            isinstance(p, ast.expr) and n.id in _DEFS and _DEPTH[0] < 4:
        # a sub-expression kept in a single-assignment local (or in a module constant that is new to the reviewed
        # tree) stands for its definition
        _DEPTH[0] += 1
        try:
            return _match(p, _DEFS[n.id], b)
        finally:
            _DEPTH[0] -= 1
    if isinstance(n, ast.Call) and not isinstance(p, ast.Name) and isinstance(p, ast.expr) and _DEPTH[0] < 4:
        # a call to a helper (new to the reviewed tree) that only checks its arguments and returns an expression
        # stands for that expression
        fn = n.func.id if isinstance(n.func, ast.Name) else (
            n.func.attr if isinstance(n.func, ast.Attribute) and isinstance(n.func.value, ast.Name) and
            n.func.value.id in ('self', 'cls') else None)
        h = EXPR_HELPERS.get(fn)
        if h is not None and not n.keywords and not any(isinstance(a, ast.Starred) for a in n.args) and \
                len(n.args) <= len(h[0]):
            direct = None
            if isinstance(p, ast.Call):
                direct = _match_fields(p, n, b)
            if direct is not None:
                return direct
            sub = dict(zip(h[0], n.args))

            class _S(ast.NodeTransformer):
                def visit_Name(self, node):
                    return sub.get(node.id, node) if isinstance(node.ctx, ast.Load) else node
            import copy
            body = _S().visit(copy.deepcopy(h[1]))
            _DEPTH[0] += 1
            try:
                return _match(p, body, b)
            finally:
                _DEPTH[0] -= 1
    if isinstance(p, ast.List) and isinstance(n, ast.Tuple) and isinstance(getattr(n, 'ctx', None), ast.Load):
        n = ast.List(elts=n.elts, ctx=ast.Load())          # a literal list or tuple of words
    return _match_fields(p, n, b)


def _const_value(n, depth=0):
    """value of an expression made of number literals and + - * / ** only (None otherwise)"""
    if depth > 6:
        return None
    if isinstance(n, ast.Constant) and isinstance(n.value, (int, float)) and not isinstance(n.value, bool):
        return float(n.value)
    if isinstance(n, ast.UnaryOp) and isinstance(n.op, (ast.USub, ast.UAdd)):
        v = _const_value(n.operand, depth + 1)
        return None if v is None else (-v if isinstance(n.op, ast.USub) else v)
    if isinstance(n, ast.BinOp) and isinstance(n.op, (ast.Add, ast.Sub, ast.Mult, ast.Div, ast.Pow)):
        a, c = _const_value(n.left, depth + 1), _const_value(n.right, depth + 1)
        if a is None or c is None:
            return None
        try:
            if isinstance(n.op, ast.Add):
                return a + c
            if isinstance(n.op, ast.Sub):
                return a - c
            if isinstance(n.op, ast.Mult):
                return a * c
            if isinstance(n.op, ast.Div):
                return a / c
            return a ** c if abs(c) <= 64 else None
        except (ZeroDivisionError, OverflowError, ValueError):
            return None
    return None


def _match_fields(p, n, b):
    if type(p) is not type(n):
        return None
    for fld, pv in ast.iter_fields(p):
        if fld in ('ctx', 'lineno', 'col_offset', 'end_lineno', 'end_col_offset', 'type_comment', 'kind'):
            continue
        nv = getattr(n, fld, None)
        if isinstance(pv, list):
            if not isinstance(nv, list):
                return None
            b = _match_list(pv, nv, b)
            if b is None:
                return None
        elif isinstance(pv, ast.AST):
            if not isinstance(nv, ast.AST):
                return None
            b = _match(pv, nv, b)
            if b is None:
                return None
        else:
            if isinstance(pv, str) and pv.startswith('V_') and isinstance(nv, str):
                if pv in b:
                    if b[pv] != nv:
                        return None
                else:
                    b = dict(b)
                    b[pv] = nv
            elif pv != nv:
                return None
    return b


def _is_dots(s):
    return isinstance(s, ast.Expr) and isinstance(s.value, ast.Constant) and s.value.value is Ellipsis


def _iter_list(ps, ns, b):
    """all ways of matching a statement / element list; an Ellipsis statement matches any run"""
    if ps and all(isinstance(p, ast.stmt) for p in ps):
        # statement lists match as a subsequence: unrelated statements in between (a log call, a temporary)
        # do not break the match; `...` is accepted and means the same
        def rec(i, j, bb):
            if i == len(ps):
                yield bb
                return
            if _is_dots(ps[i]):
                yield from rec(i + 1, j, bb)
                return
            for k in range(j, len(ns)):
                nb = _match(ps[i], ns[k], bb)
                if nb is not None:
                    yield from rec(i + 1, k + 1, nb)
        yield from rec(0, 0, b)
        return
    if len(ps) != len(ns):
        return
    for p, n in zip(ps, ns):
        b = _match(p, n, b)
        if b is None:
            return
    yield b


def _match_list(ps, ns, b):
    for r in _iter_list(ps, ns, b):
        return r
    return None


def _candidates(root, want_stmt):
    for n in ast.walk(root):
        if want_stmt and isinstance(n, ast.stmt):
            yield n
        if not want_stmt and isinstance(n, ast.expr):
            yield n


def parse_pattern(text):
    t = ast.parse(text.strip('\n'))
    if len(t.body) == 1 and isinstance(t.body[0], ast.Expr) and not _is_dots(t.body[0]):
        return ('expr', t.body[0].value)
    if len(t.body) == 1:
        return ('stmt', t.body[0])
    return ('block', t.body)


LAST_ROOT = [None]


def find(root, patterns, binding=None, nodes_out=None):
    """All patterns must match somewhere under `root` with one consistent
    binding.  Returns (binding, missing): binding dict if all matched (missing
    empty), else the best partial binding and the list of unmatched patterns.
    When the tree as written does not match, its syntax normal form (sa/normalise.py: an append loop over a fresh list
    is the list comprehension it spells out) is tried; LAST_ROOT[0] is the tree the returned nodes belong to."""
    LAST_ROOT[0] = root
    b, missing = _find_in(root, patterns, binding, nodes_out)
    if b is None:
        import copy
        from .normalise import normalise
        alt = copy.deepcopy(root)
        if normalise(alt):
            b2, missing2 = _find_in(alt, patterns, binding, nodes_out)
            if b2 is not None:
                LAST_ROOT[0] = alt
                return b2, missing2
    return b, missing


def _find_in(root, patterns, binding=None, nodes_out=None):
    pats = [(p, parse_pattern(p)) for p in patterns]
    _DEFS.clear()
    _DEFS.update(EXTRA_DEFS)
    _DEFS.update(_single_defs(root))

    matched = []

    def rec(i, b):
        if i == len(pats):
            return b
        src, (kind, pn) = pats[i]
        if kind == 'block':
            # consecutive statements somewhere in a body
            for n in ast.walk(root):
                for fld in ('body', 'orelse', 'finalbody'):
                    body = getattr(n, fld, None)
                    if isinstance(body, list) and body and isinstance(body[0], ast.stmt):
                        nb = _match_list(pn, body, b)
                        if nb is not None:
                            first = [x for x in body if not _is_dots(pn[0]) and _match(pn[0], x, b) is not None]
                            matched.append(first[0] if first else body[0])
                            r = rec(i + 1, nb)
                            if r is not None:
                                return r
                            matched.pop()
            return None
        for n in _candidates(root, kind == 'stmt'):
            nb = _match(pn, n, b)
            if nb is not None:
                matched.append(n)
                r = rec(i + 1, nb)
                if r is not None:
                    return r
                matched.pop()
        return None
    full = rec(0, dict(binding or {}))
    if full is not None and nodes_out is not None:
        nodes_out.extend(matched)
    if full is not None:
        return full, []
    # diagnose: which single patterns match at all
    missing = []
    for src, (kind, pn) in pats:
        ok = rec_single(root, kind, pn)
        if not ok:
            missing.append(src.strip())
    if not missing:
        missing = ['(each pattern matches alone, but not with one consistent naming)']
    return None, missing


def rec_single(root, kind, pn):
    if kind == 'block':
        for n in ast.walk(root):
            for fld in ('body', 'orelse', 'finalbody'):
                body = getattr(n, fld, None)
                if isinstance(body, list) and body and isinstance(body[0], ast.stmt):
                    if _match_list(pn, body, {}) is not None:
                        return True
        return False
    for n in _candidates(root, kind == 'stmt'):
        if _match(pn, n, {}) is not None:
            return True
    return False
