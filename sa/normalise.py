"""Syntax normal forms applied to every parsed module before any rule looks at it, so that two spellings of the same
computation reach the rules as one shape.

loops_to_comps:   X = []                                   X = [E' for T in IT if C']
                  for T in IT:                      ==>
                      n = e            (any number)
                      [if C:] X.append(E)

  conditions (all checked, else the loop is left alone):
    * X is a plain local name, initialised to an empty list by the statement directly before the loop (statements that
      do not mention X may sit in between) and mentioned in the loop only as the receiver of the one append;
    * the body is simple single-name assignments followed by one `X.append(E)`, optionally under one `if` without else;
      no break / continue / else / nested statements;
    * the temporaries and the loop targets are not read anywhere else in the enclosing function (a comprehension does
      not leak them);
    * the temporaries are substituted into E and C (n = e; X.append(f(n)) becomes f(e)).
  Under these conditions the loop and the comprehension build the same list from the same evaluations in the same order.
  Positions are copied from the loop, so reports still point at the statement the author wrote."""
import ast
import copy


def _names(node, ctx=None):
    return [n for n in ast.walk(node) if isinstance(n, ast.Name) and (ctx is None or isinstance(n.ctx, ctx))]


class _Subst(ast.NodeTransformer):
    def __init__(self, env):
        self.env = env

    def visit_Name(self, n):
        if isinstance(n.ctx, ast.Load) and n.id in self.env:
            return copy.deepcopy(self.env[n.id])
        return n


def _empty_list(v):
    return (isinstance(v, ast.List) and not v.elts) or \
        (isinstance(v, ast.Call) and isinstance(v.func, ast.Name) and v.func.id == 'list' and not v.args and not v.keywords)


def _empty_dict(v):
    return (isinstance(v, ast.Dict) and not v.keys) or \
        (isinstance(v, ast.Call) and isinstance(v.func, ast.Name) and v.func.id == 'dict' and not v.args and not v.keywords)


def _item_of(st, x):
    """(key, value) of `x[key] = value`"""
    if isinstance(st, ast.Assign) and len(st.targets) == 1 and isinstance(st.targets[0], ast.Subscript) and \
            isinstance(st.targets[0].value, ast.Name) and st.targets[0].value.id == x and \
            not isinstance(st.targets[0].slice, (ast.Slice, ast.Tuple)):
        return st.targets[0].slice, st.value
    return None


def _append_of(st, x):
    if isinstance(st, ast.Expr) and isinstance(st.value, ast.Call) and isinstance(st.value.func, ast.Attribute) and \
            st.value.func.attr == 'append' and isinstance(st.value.func.value, ast.Name) and \
            st.value.func.value.id == x and len(st.value.args) == 1 and not st.value.keywords and \
            not isinstance(st.value.args[0], ast.Starred):
        return st.value.args[0]
    return None


def _invisible_outside(func, inside, names):
    """no statement outside the loop can observe the value the loop leaves in `names`: every other occurrence is a
    re-binding, or sits in another loop / comprehension that binds the name itself"""
    ok = [True]

    def binds(target, nm):
        return any(isinstance(t, ast.Name) and t.id == nm for t in ast.walk(target))

    def walk(n, bound):
        if id(n) in inside:
            return
        if isinstance(n, ast.Name) and n.id in names:
            if isinstance(n.ctx, ast.Load) and n.id not in bound:
                ok[0] = False
            return
        if isinstance(n, (ast.For, ast.AsyncFor)):
            walk(n.iter, bound)
            nb = bound | {nm for nm in names if binds(n.target, nm)}
            for c in n.body:
                walk(c, nb)
            for c in n.orelse:
                walk(c, bound)      # after a loop that did not run the name is still the old one
            return
        if isinstance(n, (ast.ListComp, ast.SetComp, ast.GeneratorExp, ast.DictComp)):
            nb = set(bound)
            for g in n.generators:
                walk(g.iter, nb)
                nb |= {nm for nm in names if binds(g.target, nm)}
                for c in g.ifs:
                    walk(c, nb)
            for c in ([n.key, n.value] if isinstance(n, ast.DictComp) else [n.elt]):
                walk(c, nb)
            return
        for c in ast.iter_child_nodes(n):
            walk(c, bound)
    walk(func, frozenset())
    return ok[0]


def _returned_next(func, loop, x):
    """the statement after `loop` in its block is `return x`"""
    for n in ast.walk(func):
        for fld in ('body', 'orelse', 'finalbody'):
            blk = getattr(n, fld, None)
            if isinstance(blk, list) and loop in blk:
                i = blk.index(loop)
                return i + 1 < len(blk) and isinstance(blk[i + 1], ast.Return) and \
                    isinstance(blk[i + 1].value, ast.Name) and blk[i + 1].value.id == x
    return False


def _try_loop(func, init, loop):
    """the comprehension statement replacing (init, loop), or None"""
    if not (isinstance(init, ast.Assign) and len(init.targets) == 1 and isinstance(init.targets[0], ast.Name)
            and (_empty_list(init.value) or _empty_dict(init.value))):
        return None
    as_dict = _empty_dict(init.value)
    x = init.targets[0].id
    if not isinstance(loop, ast.For) or loop.orelse or not loop.body:
        return None
    if any(n.id == x for n in _names(loop.iter) + _names(loop.target)):
        return None
    env = {}
    temps = []
    for st in loop.body[:-1]:
        if not (isinstance(st, ast.Assign) and len(st.targets) == 1 and isinstance(st.targets[0], ast.Name)):
            return None
        if any(n.id == x for n in _names(st.value)):
            return None
        if any(isinstance(n, (ast.NamedExpr, ast.Yield, ast.YieldFrom, ast.Await, ast.Lambda)) for n in ast.walk(st.value)):
            return None
        env[st.targets[0].id] = _Subst(dict(env)).visit(copy.deepcopy(st.value))
        temps.append(st.targets[0].id)
    last = loop.body[-1]
    cond = None
    if isinstance(last, ast.If) and not last.orelse and len(last.body) == 1:
        cond = last.test
        last = last.body[0]
    key = None
    if as_dict:
        kv = _item_of(last, x)
        if kv is None:
            return None
        key, elt = kv
        if any(n.id == x for n in _names(key)):
            return None
        # only a dictionary that is complete after the loop and is what the function returns (`return x` follows the
        # loop): the shape of a small building helper.  One that is filled further (x[k] = v, x.update(...)) or placed
        # in a larger result stays a dictionary under construction, which is how the rules read it
        if not _returned_next(func, loop, x):
            return None
        inside_ = {id(n) for n in ast.walk(loop)} | {id(n) for n in ast.walk(init)}
        for n in ast.walk(func):
            if id(n) in inside_:
                continue
            if isinstance(n, ast.Subscript) and isinstance(n.value, ast.Name) and n.value.id == x and \
                    isinstance(n.ctx, (ast.Store, ast.Del)):
                return None
            if isinstance(n, ast.Attribute) and isinstance(n.value, ast.Name) and n.value.id == x:
                return None
            if isinstance(n, ast.Name) and n.id == x and isinstance(n.ctx, (ast.Store, ast.Del)):
                return None
    else:
        elt = _append_of(last, x)
    if elt is None:
        return None
    if any(n.id == x for n in _names(elt)) or (cond is not None and any(n.id == x for n in _names(cond))):
        return None
    tnames = {n.id for n in _names(loop.target)}
    if tnames & set(temps):
        return None
    # temporaries and loop targets must not be visible outside the loop
    inside = {id(n) for n in ast.walk(loop)}
    local = tnames | set(temps)
    for n in ast.walk(func):
        if isinstance(n, (ast.Global, ast.Nonlocal)) and set(n.names) & (local | {x}):
            return None
    if not _invisible_outside(func, inside, local):
        return None
    sub = _Subst(env)
    elt = sub.visit(copy.deepcopy(elt))
    ifs = [sub.visit(copy.deepcopy(cond))] if cond is not None else []
    gens = [ast.comprehension(target=copy.deepcopy(loop.target), iter=copy.deepcopy(loop.iter), ifs=ifs, is_async=0)]
    if as_dict:
        # d = {}; for t in X: d[k] = v   is   d = {k: v for t in X}   (a repeated key keeps its last value either way)
        comp = ast.DictComp(key=sub.visit(copy.deepcopy(key)), value=elt, generators=gens)
    else:
        comp = ast.ListComp(elt=elt, generators=gens)
    new = ast.Assign(targets=[ast.Name(id=x, ctx=ast.Store())], value=comp, type_comment=None)
    ast.copy_location(new, loop)
    for n in ast.walk(new):
        if not hasattr(n, 'lineno') and isinstance(n, (ast.expr, ast.stmt)):
            ast.copy_location(n, loop)
    ast.fix_missing_locations(new)
    new.end_lineno = getattr(loop, 'end_lineno', loop.lineno)
    return new


def _rewrite_body(func, body):
    changed = 0
    i = 0
    while i < len(body):
        st = body[i]
        if isinstance(st, ast.For):
            # the initialisation: nearest earlier statement of this body that mentions the list name
            j = i - 1
            cand = None
            last = st.body[-1] if st.body else None
            if isinstance(last, ast.If) and len(last.body) == 1:
                last = last.body[0]
            x = None
            if isinstance(last, ast.Expr) and isinstance(last.value, ast.Call) and \
                    isinstance(last.value.func, ast.Attribute) and isinstance(last.value.func.value, ast.Name):
                x = last.value.func.value.id
            elif isinstance(last, ast.Assign) and len(last.targets) == 1 and isinstance(last.targets[0], ast.Subscript) and \
                    isinstance(last.targets[0].value, ast.Name):
                x = last.targets[0].value.id
            while x is not None and j >= 0:
                if any(n.id == x for n in _names(body[j])):
                    cand = j
                    break
                if isinstance(body[j], (ast.For, ast.While, ast.If, ast.Try, ast.With, ast.FunctionDef, ast.Return, ast.Raise)):
                    break
                j -= 1
            if cand is not None:
                new = _try_loop(func, body[cand], st)
                if new is not None:
                    body[i] = new
                    del body[cand]
                    changed += 1
                    continue
        i += 1
    return changed


def loops_to_comps(tree):
    """in place; returns the number of loops rewritten"""
    total = 0
    funcs = [n for n in ast.walk(tree) if isinstance(n, (ast.FunctionDef, ast.AsyncFunctionDef))]
    for fn in funcs:
        again = True
        while again:
            again = False
            for n in ast.walk(fn):
                for fld in ('body', 'orelse', 'finalbody'):
                    body = getattr(n, fld, None)
                    if isinstance(body, list) and body and isinstance(body[0], ast.stmt):
                        c = _rewrite_body(fn, body)
                        if c:
                            total += c
                            again = True
                if again:
                    break
    return total


class _Spellings(ast.NodeTransformer):
    """one spelling for a few library idioms:
         range(0, n) / range(a, b, 1)      ->  range(n) / range(a, b)
         x.fill(v)   (statement, x a name) ->  x[...] = v            (ndarray.fill; lists have no fill)
         x: T = v                          ->  x = v
         yield from X   (statement)        ->  for _y in X: yield _y
         a, b = (E for v in range(2))      ->  a = E[v:=0]; b = E[v:=1]
    """
    def __init__(self):
        self.n = 0

    def visit_Call(self, n):
        self.generic_visit(n)
        if isinstance(n.func, ast.Name) and n.func.id == 'range' and not n.keywords:
            a = list(n.args)
            if len(a) == 3 and isinstance(a[2], ast.Constant) and a[2].value == 1:
                a = a[:2]
            if len(a) == 2 and isinstance(a[0], ast.Constant) and a[0].value == 0 and not isinstance(a[0].value, bool):
                a = a[1:]
            if len(a) != len(n.args):
                n.args = a
                self.n += 1
        return n

    def visit_Assign(self, n):
        # a, b, c = (E for v in range(3))   ->   a = E[v:=0]; b = E[v:=1]; c = E[v:=2]
        # (each target receives its own evaluation of E, in the same order; E must not read the targets)
        self.generic_visit(n)
        if len(n.targets) == 1 and isinstance(n.targets[0], (ast.Tuple, ast.List)) and \
                isinstance(n.value, (ast.GeneratorExp, ast.ListComp)) and len(n.value.generators) == 1:
            g = n.value.generators[0]
            tg = n.targets[0].elts
            if all(isinstance(t, ast.Name) for t in tg) and not g.ifs and not g.is_async and isinstance(g.target, ast.Name) and \
                    isinstance(g.iter, ast.Call) and isinstance(g.iter.func, ast.Name) and g.iter.func.id == 'range' and \
                    len(g.iter.args) == 1 and not g.iter.keywords and isinstance(g.iter.args[0], ast.Constant) and \
                    g.iter.args[0].value == len(tg) and len(tg) >= 1:
                names = {t.id for t in tg}
                if not any(isinstance(x, ast.Name) and x.id in names for x in ast.walk(n.value.elt)) and \
                        not any(isinstance(x, (ast.NamedExpr, ast.Yield, ast.YieldFrom, ast.Await, ast.Lambda)) for x in ast.walk(n.value.elt)):
                    out = []
                    for j, t in enumerate(tg):
                        e = _Subst({g.target.id: ast.Constant(value=j)}).visit(copy.deepcopy(n.value.elt))
                        a = ast.Assign(targets=[ast.Name(id=t.id, ctx=ast.Store())], value=e, type_comment=None)
                        ast.copy_location(a, n)
                        for x in ast.walk(a):
                            if isinstance(x, (ast.expr, ast.stmt)):
                                ast.copy_location(x, n)
                        ast.fix_missing_locations(a)
                        out.append(a)
                    self.n += 1
                    return out
        return n

    def visit_AnnAssign(self, n):
        # x: T = v  is  x = v  (the annotation is not evaluated into anything a rule looks at)
        self.generic_visit(n)
        if n.value is None:
            return n
        new = ast.Assign(targets=[n.target], value=n.value, type_comment=None)
        ast.copy_location(new, n)
        self.n += 1
        return new

    def visit_Expr(self, n):
        self.generic_visit(n)
        c = n.value
        if isinstance(c, ast.YieldFrom):
            # yield from X (as a statement: the result of the delegation is not used)  ->  for _y in X: yield _y
            # (the same items reach the consumer in the same order; nothing in the repository sends into a generator)
            nm = '_yf%d' % getattr(n, 'lineno', 0)
            new = ast.For(target=ast.Name(id=nm, ctx=ast.Store()), iter=c.value,
                          body=[ast.Expr(value=ast.Yield(value=ast.Name(id=nm, ctx=ast.Load())))], orelse=[], type_comment=None)
            ast.copy_location(new, n)
            for x in ast.walk(new):
                if isinstance(x, (ast.expr, ast.stmt)) and not hasattr(x, 'lineno'):
                    ast.copy_location(x, n)
            ast.fix_missing_locations(new)
            self.n += 1
            return new
        if isinstance(c, ast.Call) and any(k.arg == 'out' and isinstance(k.value, ast.Name) for k in c.keywords) and \
                isinstance(c.func, ast.Attribute) and isinstance(c.func.value, ast.Name) and c.func.value.id in ('np', 'numpy'):
            # np.f(a, b, out=x)  (statement)  ->  x[...] = np.f(a, b): the buffer is refilled with the result
            outn = [k.value.id for k in c.keywords if k.arg == 'out'][0]
            call2 = ast.Call(func=c.func, args=c.args, keywords=[k for k in c.keywords if k.arg != 'out'])
            new = ast.Assign(targets=[ast.Subscript(value=ast.Name(id=outn, ctx=ast.Load()),
                                                    slice=ast.Constant(value=Ellipsis), ctx=ast.Store())],
                             value=call2, type_comment=None)
            ast.copy_location(new, n)
            ast.copy_location(call2, c)
            ast.fix_missing_locations(new)
            self.n += 1
            return new
        if isinstance(c, ast.Call) and isinstance(c.func, ast.Attribute) and c.func.attr == 'fill' and \
                isinstance(c.func.value, ast.Name) and len(c.args) == 1 and not c.keywords:
            new = ast.Assign(targets=[ast.Subscript(value=ast.Name(id=c.func.value.id, ctx=ast.Load()),
                                                    slice=ast.Constant(value=Ellipsis), ctx=ast.Store())],
                             value=c.args[0], type_comment=None)
            ast.copy_location(new, n)
            ast.fix_missing_locations(new)
            self.n += 1
            return new
        return n


def _reraise_only(h):
    """handler `except E [as e]: [logging calls]; raise` or `...; raise E(<message>) [from e]`: the failure still
    propagates as an E - only its text (and the log) differ"""
    if h.type is None or not h.body or not isinstance(h.body[-1], ast.Raise):
        return False
    for st in h.body[:-1]:
        if not (isinstance(st, ast.Expr) and isinstance(st.value, ast.Call) and isinstance(st.value.func, ast.Attribute)
                and st.value.func.attr in ('debug', 'info', 'warning', 'error', 'critical', 'exception')):
            return False
    r = h.body[-1]
    if r.exc is None:
        return True
    caught = [h.type] if not isinstance(h.type, ast.Tuple) else list(h.type.elts)
    if len(caught) != 1 or not isinstance(caught[0], (ast.Name, ast.Attribute)):
        return False
    exc = r.exc.func if isinstance(r.exc, ast.Call) else r.exc
    return ast.unparse(exc) == ast.unparse(caught[0])


class _Structure(ast.NodeTransformer):
    """try: BODY / except E: [log]; raise [E(msg) from e]   ->   BODY      (no else / finally; every handler re-raises)
       a trailing `return None` / `return` at the very end of a function            ->   dropped
       assert <condition>                                                           ->   dropped
    (an assert states what the author believes always holds; with -O it is not even executed.  A rule never relies on
    one; dropping it keeps rules from counting its calls as work done)"""
    def __init__(self):
        self.n = 0

    def _flatten(self, body):
        out = []
        for st in body:
            if isinstance(st, ast.Try) and not st.orelse and not st.finalbody and st.handlers and \
                    all(_reraise_only(h) for h in st.handlers):
                out.extend(st.body)
                self.n += 1
            elif isinstance(st, ast.Assert):
                self.n += 1
            else:
                out.append(st)
        if not out:
            p_ = ast.Pass()
            ast.copy_location(p_, body[0])
            out = [p_]
        return out

    def generic_visit(self, node):
        super().generic_visit(node)
        for fld in ('body', 'orelse', 'finalbody'):
            b = getattr(node, fld, None)
            if isinstance(b, list) and b and isinstance(b[0], ast.stmt):
                setattr(node, fld, self._flatten(b))
        if isinstance(node, ast.Try):
            for h in node.handlers:
                h.body = self._flatten(h.body)
        if isinstance(node, (ast.FunctionDef, ast.AsyncFunctionDef)) and len(node.body) > 1:
            last = node.body[-1]
            if isinstance(last, ast.Return) and (last.value is None or
                                                 (isinstance(last.value, ast.Constant) and last.value.value is None)):
                node.body = node.body[:-1]
                self.n += 1
        return node


def _module_names(tree):
    """Names bound to modules by the file's own top-level imports (`import math`, `import numpy as np`)."""
    out = set()
    for st in tree.body:
        if isinstance(st, ast.Import):
            for a in st.names:
                out.add(a.asname or a.name.split('.')[0])
    return out


def _function_aliases(tree):
    """`log10 = math.log10` once in a function, `log10(x)` afterwards: a module function looked up once and called
    under a local name.  The local name stands for the dotted name (module attributes are not rebound while the
    function runs), so its uses are written back as `math.log10` and the binding is dropped."""
    mods = _module_names(tree)
    methods = {m.name for c in ast.walk(tree) if isinstance(c, ast.ClassDef) for m in c.body
               if isinstance(m, (ast.FunctionDef, ast.AsyncFunctionDef)) and
               not any(isinstance(d, ast.Name) and d.id == 'property' for d in m.decorator_list)}
    props = {m.name for c in ast.walk(tree) if isinstance(c, ast.ClassDef) for m in c.body
             if isinstance(m, (ast.FunctionDef, ast.AsyncFunctionDef)) and m.name not in methods}
    assigned_attrs = {t.attr for x in ast.walk(tree) if isinstance(x, (ast.Assign, ast.AugAssign, ast.AnnAssign))
                      for tt in (x.targets if isinstance(x, ast.Assign) else [x.target]) for t in ast.walk(tt)
                      if isinstance(t, ast.Attribute)}
    n = 0
    for func in ast.walk(tree):
        if not isinstance(func, (ast.FunctionDef, ast.AsyncFunctionDef)):
            continue
        binds = {}
        home = {}
        blocks = [getattr(x, fld) for x in ast.walk(func) for fld in ('body', 'orelse', 'finalbody')
                  if isinstance(getattr(x, fld, None), list) and getattr(x, fld) and isinstance(getattr(x, fld)[0], ast.stmt)
                  and not (isinstance(x, (ast.FunctionDef, ast.AsyncFunctionDef, ast.ClassDef)) and x is not func)]
        for blk in blocks:
          for st in blk:
            home[id(st)] = blk
            if isinstance(st, ast.Assign) and len(st.targets) == 1 and isinstance(st.targets[0], ast.Name) and \
                    isinstance(st.value, ast.Attribute):
                v = st.value
                while isinstance(v, ast.Attribute):
                    v = v.value
                if isinstance(v, ast.Name) and v.id in mods:
                    binds.setdefault(st.targets[0].id, []).append(st)
                elif isinstance(v, ast.Name) and v.id == 'self' and isinstance(st.value.value, ast.Name) and \
                        st.value.attr not in assigned_attrs and st.value.attr not in props:
                    # `mass = self.get_molecular_mass` ... `mass(g)`: a method of the object (defined in this file,
                    # never assigned as an attribute) looked up once; only when every use is a call
                    nm_ = st.targets[0].id
                    uses_ = [x for x in ast.walk(func) if isinstance(x, ast.Name) and x.id == nm_ and isinstance(x.ctx, ast.Load)]
                    callee_ = {id(x.func) for x in ast.walk(func) if isinstance(x, ast.Call)}
                    if uses_ and all(id(x) in callee_ for x in uses_):
                        binds.setdefault(nm_, []).append(st)
        if not binds:
            continue
        stored = {}
        params = {a.arg for a in func.args.args + func.args.kwonlyargs + func.args.posonlyargs}
        for x in ast.walk(func):
            if isinstance(x, ast.Name) and isinstance(x.ctx, (ast.Store, ast.Del)):
                stored[x.id] = stored.get(x.id, 0) + 1
            if isinstance(x, (ast.Global, ast.Nonlocal)):
                for nm in x.names:
                    stored[nm] = 99
            if isinstance(x, (ast.FunctionDef, ast.AsyncFunctionDef, ast.Lambda)) and x is not func:
                for a in x.args.args + x.args.kwonlyargs + x.args.posonlyargs:
                    stored[a.arg] = 99        # a nested scope re-using the name: leave alone
        for name, sts in binds.items():
            if len(sts) != 1 or stored.get(name, 0) != 1 or name in params:
                continue
            st = sts[0]
            root = st.value
            while isinstance(root, ast.Attribute):
                root = root.value
            if stored.get(root.id, 0):
                continue
            # every use comes after the binding: the binding is a top-level statement and uses before it would be
            # an UnboundLocalError in the original
            blk = home[id(st)]
            idx = blk.index(st)
            later = {id(x) for b in blk[idx + 1:] for x in ast.walk(b)}
            early = any(isinstance(x, ast.Name) and x.id == name and isinstance(x.ctx, ast.Load) and id(x) not in later
                        for x in ast.walk(func))
            if early:
                continue                # a use that the binding does not dominate
            value = st.value

            class _Use(ast.NodeTransformer):
                def visit_Name(self, node):
                    if node.id == name and isinstance(node.ctx, ast.Load):
                        import copy
                        return ast.copy_location(copy.deepcopy(value), node)
                    return node
            blk.remove(st)
            for i, b in enumerate(blk):
                blk[i] = _Use().visit(b)
            if not blk:
                blk.append(ast.Pass())
            n += 1
    if n:
        ast.fix_missing_locations(tree)
    return n


def normalise(tree):
    fa = _function_aliases(tree)
    sp = _Spellings()
    sp.visit(tree)
    stc = _Structure()
    stc.visit(tree)
    return loops_to_comps(tree) + sp.n + stc.n + fa
